/* Replay driver for the PUBLIC C API of libdigital_rf (built with ASan+UBSan by harness/stage.py).
 * Line protocol on stdin/stdout:
 *   init <dir> <kind:i|u|f> <size> <order:<|>> <sc> <fc> <start> <n> <d> <uuid> <comp> <cksum> <cplx> <nsub> <cont> <seed>
 *   w <global_index> <len>                                  digital_rf_write_hdf5, data = PRF(start+index)
 *   b <vector_len> <nblocks> g1 o1 g2 o2 ...                 digital_rf_write_blocks_hdf5 (possibly malformed on purpose);
 *                                                            data element k belongs to the block with the largest offset <= k
 *   close
 * every command answers one line:  rc=<int> idx=<global_index> last=<last file written>
 */
#include <stdio.h>
#include <stdlib.h>
#include <string.h>
#include <stdint.h>
#include <inttypes.h>
#include "digital_rf.h"

static uint64_t mix(uint64_t x){ x=(x^(x>>30))*0xBF58476D1CE4E5B9ULL; x=(x^(x>>27))*0x94D049BB133111EBULL; return x^(x>>31); }

static char kind='i', order='<'; static int size=2, cplx=0, nsub=1; static uint64_t seed=0, start=0;

static uint64_t value_bits(uint64_t idx, uint64_t sub, uint64_t comp)
{
	uint64_t x = idx*0x9E3779B97F4A7C15ULL + sub*0xD1B54A32D192ED03ULL + comp*0x8CB92BA72F3D8DD7ULL;
	uint64_t bits = mix(x + seed) >> (64 - 8*size);
	if (kind=='f') {
		if (size==4) { if ((bits & 0x7F800000ULL)==0x7F800000ULL) bits &= ~0x00800000ULL; }
		else { if ((bits & 0x7FF0000000000000ULL)==0x7FF0000000000000ULL) bits &= ~0x0010000000000000ULL; }
	} else if (kind=='i') {
		uint64_t minbits = 1ULL << (8*size-1);
		if (bits==minbits) bits = minbits+1;
	} else { if (bits==0) bits=1; }
	return bits;
}

static void put(unsigned char *p, uint64_t bits)
{
	int i;
	for (i=0;i<size;i++) {
		unsigned char byte = (unsigned char)((bits >> (8*i)) & 0xFF);
		if (order=='<') p[i]=byte; else p[size-1-i]=byte;
	}
}

static unsigned char * make_data(uint64_t *first_idx_of_elem, uint64_t len)
{
	int ncomp = cplx?2:1; uint64_t k; int s,c;
	unsigned char *buf = malloc((size_t)(len?len:1)*nsub*ncomp*size), *p=buf;
	for (k=0;k<len;k++) for (s=0;s<nsub;s++) for (c=0;c<ncomp;c++) { put(p, value_bits(first_idx_of_elem[k], s, c)); p+=size; }
	return buf;
}

int main(void)
{
	char line[65536]; Digital_rf_write_object *o=NULL;
	setvbuf(stdout,NULL,_IOLBF,0);
	while (fgets(line,sizeof line,stdin)) {
		int rc=0; char *tok=strtok(line," \n");
		if (!tok) continue;
		if (!strcmp(tok,"init")) {
			char dir[1024], uuid[128]; uint64_t sc,fc,n,d; int comp,cks,cont; hid_t t;
			char *a[16]; int i; for(i=0;i<16;i++) a[i]=strtok(NULL," \n");
			strcpy(dir,a[0]); kind=a[1][0]; size=atoi(a[2]); order=a[3][0]; sc=strtoull(a[4],0,10); fc=strtoull(a[5],0,10);
			start=strtoull(a[6],0,10); n=strtoull(a[7],0,10); d=strtoull(a[8],0,10); strcpy(uuid,a[9]); comp=atoi(a[10]); cks=atoi(a[11]);
			cplx=atoi(a[12]); nsub=atoi(a[13]); cont=atoi(a[14]); seed=strtoull(a[15],0,10);
			if (kind=='f') t = (size==4)? (order=='<'?H5T_IEEE_F32LE:H5T_IEEE_F32BE) : (order=='<'?H5T_IEEE_F64LE:H5T_IEEE_F64BE);
			else if (kind=='i') t = size==1?H5T_STD_I8LE: size==2?(order=='<'?H5T_STD_I16LE:H5T_STD_I16BE): size==4?(order=='<'?H5T_STD_I32LE:H5T_STD_I32BE):(order=='<'?H5T_STD_I64LE:H5T_STD_I64BE);
			else t = size==1?H5T_STD_U8LE: size==2?(order=='<'?H5T_STD_U16LE:H5T_STD_U16BE): size==4?(order=='<'?H5T_STD_U32LE:H5T_STD_U32BE):(order=='<'?H5T_STD_U64LE:H5T_STD_U64BE);
			o = digital_rf_create_write_hdf5(dir, t, sc, fc, start, n, d, uuid, comp, cks, cplx, nsub, cont, 0);
			rc = o?0:-1;
		} else if (!strcmp(tok,"w") && o) {
			uint64_t g=strtoull(strtok(NULL," \n"),0,10), len=strtoull(strtok(NULL," \n"),0,10), k;
			uint64_t *idx=malloc(sizeof(uint64_t)*(len?len:1)); unsigned char *buf;
			for(k=0;k<len;k++) idx[k]=start+g+k;
			buf=make_data(idx,len);
			rc=digital_rf_write_hdf5(o,g,buf,len);
			free(buf); free(idx);
		} else if (!strcmp(tok,"b") && o) {
			uint64_t vlen=strtoull(strtok(NULL," \n"),0,10), nb=strtoull(strtok(NULL," \n"),0,10), i, k;
			uint64_t *g=calloc((nb?nb:1),sizeof(uint64_t)), *off=calloc((nb?nb:1),sizeof(uint64_t)), *idx=calloc((vlen?vlen:1),sizeof(uint64_t));
			unsigned char *buf;
			for(i=0;i<nb;i++){ g[i]=strtoull(strtok(NULL," \n"),0,10); off[i]=strtoull(strtok(NULL," \n"),0,10); }
			for(k=0;k<vlen;k++){ uint64_t best=0; int found=0; for(i=0;i<nb;i++) if(off[i]<=k && (!found||off[i]>=off[best])){best=i;found=1;} idx[k]= found? start+g[best]+(k-off[best]) : start+k; }
			buf=make_data(idx,vlen);
			rc=digital_rf_write_blocks_hdf5(o,g,off,nb,buf,vlen);
			free(buf); free(idx); free(g); free(off);
		} else if (!strcmp(tok,"close")) {
			if (o) { rc=digital_rf_close_write_hdf5(o); o=NULL; }
			printf("rc=%d idx=0 last=\n",rc); continue;
		} else { printf("rc=-99 idx=0 last=\n"); continue; }
		if (o) { char *lf=digital_rf_get_last_file_written(o); printf("rc=%d idx=%" PRIu64 " last=%s\n", rc, o->global_index, lf); free(lf); }
		else printf("rc=%d idx=0 last=\n",rc);
	}
	if (o) digital_rf_close_write_hdf5(o);
	return 0;
}
