"""Check context: scratch dir, staging, result accumulation, evidence, known findings, exit protocol."""
import atexit
import json
import os
import random
import shutil
import sys
import time
import traceback

from . import stage as stage_mod
from . import tlc

VERIF = os.path.dirname(os.path.dirname(os.path.abspath(__file__)))
PY = stage_mod.PY


class Machinery(Exception):
    """Something in the verification machinery failed - exit 2, never a VIOLATION."""


def load_findings():
    p = os.path.join(VERIF, "known_findings.json")
    try:
        return json.load(open(p))["findings"]
    except (OSError, KeyError, ValueError):
        return []


def open_finding_ids(prop=None):
    return sorted(
        f["id"] for f in load_findings() if f.get("status") == "open" and (prop is None or prop in f.get("property", []))
    )


class quiet_stderr:
    """silence what the C library / HDF5 print to file descriptor 2 while the implementation is driven"""

    def __enter__(self):
        sys.stderr.flush()
        self.saved = os.dup(2)
        self.null = os.open(os.devnull, os.O_WRONLY)
        os.dup2(self.null, 2)

    def __exit__(self, *a):
        sys.stderr.flush()
        os.dup2(self.saved, 2)
        os.close(self.saved)
        os.close(self.null)


class Ctx:
    def __init__(self, prop, tier, seed, keep=False):
        self.prop = prop
        self.tier = tier
        self.seed = seed
        self.rng = random.Random(seed * 1000003 + int(prop[1:]))
        base = "/dev/shm" if os.path.isdir("/dev/shm") and os.access("/dev/shm", os.W_OK) else os.path.join(VERIF, ".work")
        self.work = os.path.join(base, "verif-%s-%d" % (prop, os.getpid()))
        os.makedirs(self.work, exist_ok=True)
        if not keep:
            atexit.register(shutil.rmtree, self.work, True)
        self.t0 = time.time()
        self._stage = None
        self.states = 0
        self.transitions = 0
        self.traces = 0
        self.evaluations = 0
        self.mc = []
        self.samples = []
        self.violations = []
        self.known_hits = []
        self.assumptions = [
            "digital_rf is staged and built from the working tree of %s (python/digital_rf/*.py copied, extension compiled "
            "with gcc against system HDF5 1.10.8); _version.py is stamped with the first CHANGELOG.rst version"
            % stage_mod.repo_root(),
            "TLC 1.8.0 (tla2tools.jar) and the TLA+ CommunityModules are trusted",
        ]
        self.extra = {}
        self.clauses = {}
        self.open = set(open_finding_ids(prop))
        self.replaying = False

    @property
    def quick(self):
        return self.tier == "quick"

    def pick(self, q, t):
        return q if self.quick else t

    # -- staging -----------------------------------------------------------------
    def stage(self):
        if self._stage is None:
            d = os.path.join(self.work, "stage")
            try:
                stage_mod.stage(d)
            except stage_mod.BuildError as e:
                raise Machinery(str(e))
            self._stage = d
            if d not in sys.path:
                sys.path.insert(0, d)
        return self._stage

    def scratch(self, name):
        d = os.path.join(self.work, name)
        if os.path.exists(d):
            shutil.rmtree(d)
        os.makedirs(d)
        return d

    # -- E1 ------------------------------------------------------------------------
    def model_check(self, module, cfg, expect_violated=(), required_actions=(), **kw):
        """Exhaustive TLC run.  `expect_violated`: witness invariants that MUST be violated (vacuity guard);
        run them in their own cfg.  Any other violated property is a design-level violation of the spec itself."""
        try:
            r = tlc.model_check(module, cfg, self.work, **kw)
        except tlc.TLCError as e:
            raise Machinery(str(e))
        self.states += r.distinct
        self.transitions += r.generated
        self.mc.append(dict(r.summary(), module=module, cfg=cfg))
        unexpected = [v for v in r.violated if v not in expect_violated]
        if unexpected:
            raise Machinery(
                "the specification %s/%s violates its own property %s - the model is wrong, not the code:\n%s"
                % (module, cfg, unexpected, r.log[-2500:])
            )
        for w in expect_violated:
            if w not in r.violated:
                raise Machinery("vacuity guard: witness %s of %s/%s was not reached" % (w, module, cfg))
        if not expect_violated:
            for a in required_actions:
                if r.coverage.get(a, (0, 0))[1] == 0:
                    raise Machinery("vacuity guard: action %s of %s/%s was never taken" % (a, module, cfg))
        return r

    def witnesses(self, module, cfg_pattern, names, workers=4, **kw):
        """vacuity guards: each named invariant MUST be violated in its own configuration; run concurrently"""
        import concurrent.futures

        def one(w):
            return w, tlc.model_check(module, cfg_pattern % w, self.work, workers=workers, coverage=False, tag=w, **kw)

        try:
            with concurrent.futures.ThreadPoolExecutor(max_workers=max(1, 16 // workers)) as ex:
                results = list(ex.map(one, names))
        except tlc.TLCError as e:
            raise Machinery(str(e))
        for w, r in results:
            self.states += r.distinct
            self.transitions += r.generated
            self.mc.append(dict(r.summary(), module=module, cfg=cfg_pattern % w, witness=True))
            inv = w if w.startswith("W_") else "W_" + w
            if inv not in r.violated and w not in r.violated:
                raise Machinery("vacuity guard: witness %s of %s was not reached" % (w, module))

    # -- E3 ------------------------------------------------------------------------
    def validate(self, module, cfg, scenarios, label=None, shards=16, relevant=None, **kw):
        """Validate scenarios against a trace spec.  Returns the verdict list; rejections are recorded as
        violations (or known-finding hits when the trace spec accepted them only through a deviation action).
        `relevant(clause)`: which rejecting clauses belong to the property being checked - a scenario rejected only
        for clauses of other properties is counted, not reported (those properties' own checks report it)."""
        known = sorted(self.open)
        for s in scenarios:
            s.setdefault("known", known)
        try:
            verdicts, st = tlc.validate_traces(module, cfg, scenarios, self.work, shards=shards, **kw)
        except tlc.TLCError as e:
            raise Machinery(str(e))
        self.states += st["states"]
        self.transitions += st["transitions"]
        self.mc.append({"module": module, "cfg": cfg, "trace_validation": True, "scenarios": len(scenarios), **st})
        other = 0
        for i, (s, v) in enumerate(zip(scenarios, verdicts)):
            if v["v"] == "ACCEPT":
                self.traces += 1
                for dv in v["dev"]:
                    self.known(dv, "%s scenario %s" % (label or module, s.get("name", i)))
            else:
                # a clause that says the harness itself produced an invalid history is a machinery error - unless the
                # implementation had already contradicted the specification at an earlier event of the scenario: what the
                # harness does after that rests on a state the implementation is not in
                isharness = lambda c: c.startswith("harness-") or c == "unknown-event"
                hc = [c for c in v["why"] if isharness(c)]
                if hc:
                    first = v.get("first") or v["why"]
                    if any(isharness(c) for c in first):
                        raise Machinery("the harness produced an invalid history (scenario %s, event %s): %s"
                                        % (s.get("name", i), v["line"], ",".join(hc)))
                    v = dict(v, why=[c for c in v["why"] if not isharness(c)], consequences=hc)
                for c in v["why"]:
                    self.clauses[c] = self.clauses.get(c, 0) + 1
                mine = [c for c in v["why"] if relevant is None or relevant(c)]
                if not mine:
                    other += 1
                    continue
                self.violation(
                    "%s rejected scenario %s (%s) at event %s: %s"
                    % (module, s.get("name", i), s.get("desc", ""), v["line"], ",".join(mine)),
                    {"module": module, "cfg": cfg, "scenario": s, "verdict": v},
                )
        if other:
            self.extra["scenarios_rejected_only_for_other_properties"] = self.extra.get(
                "scenarios_rejected_only_for_other_properties", 0) + other
        return verdicts

    # -- results ---------------------------------------------------------------------
    def sample(self, x, cap=6):
        if len(self.samples) < cap:
            self.samples.append(x)

    def known(self, fid, what):
        if fid in self.open:
            self.known_hits.append((fid, what))
        else:
            self.violation("behaviour of non-open finding %s observed: %s" % (fid, what), {"finding": fid, "what": what})

    def violation(self, what, replay_obj, finding=None):
        if finding is not None and finding in self.open:
            self.known_hits.append((finding, what))
            return
        n = len(self.violations)
        path = None
        if n < 20:
            os.makedirs(os.path.join(VERIF, "replays"), exist_ok=True)
            path = os.path.join(VERIF, "replays", "%s_%s_%d_%d%s.json" % (self.prop, self.tier, self.seed, n, "_replayed" if self.replaying else ""))
            with open(path, "w") as fh:
                json.dump({"property": self.prop, "what": what, "replay": replay_obj}, fh, indent=1, default=str)
        self.violations.append((what, path))

    def finish(self, level="model_checking", extra_cov=None, write_evidence=True):
        wall = time.time() - self.t0
        cov = {
            "states": self.states,
            "transitions": self.transitions,
            "traces_validated_against_impl": self.traces,
            "evaluations": max(self.evaluations, self.traces, 1),
            "samples": self.samples or ["(no sample recorded)"],
            "tlc_runs": self.mc,
            "known_finding_hits": len(self.known_hits),
            "rejecting_clauses": self.clauses,
        }
        cov.update(self.extra)
        if extra_cov:
            cov.update(extra_cov)
        ev = {
            "property_id": self.prop,
            "tier": self.tier,
            "seed": self.seed,
            "level": level,
            "coverage": cov,
            "assumptions": self.assumptions,
            "wall_s": round(wall, 2),
            "violations": len(self.violations),
        }
        if write_evidence:
            os.makedirs(os.path.join(VERIF, "evidence"), exist_ok=True)
            with open(os.path.join(VERIF, "evidence", self.prop + ".json"), "w") as fh:
                json.dump(ev, fh, default=str)
        seen = set()
        for fid, what in self.known_hits:
            if fid not in seen:
                seen.add(fid)
                nhit = sum(1 for f, _ in self.known_hits if f == fid)
                print("KNOWN-FINDING: property=%s %s %s (%d occurrences this run)" % (self.prop, fid, what, nhit))
        for what, path in self.violations[:20]:
            print("VIOLATION property=%s replay=%s" % (self.prop, path))
            print("  " + what[:600])
        print(
            "%s %s: %d states, %d transitions, %d traces validated against the implementation, %d violations, %.1fs"
            % (self.prop, self.tier, self.states, self.transitions, self.traces, len(self.violations), wall)
        )
        return 1 if self.violations else 0


def replay_generic(ctx, path):
    """re-validate a stored rejected trace against the current specification (same verdict protocol)"""
    obj = json.load(open(path))
    rp = obj.get("replay", {})
    if "module" not in rp or "scenario" not in rp:
        raise Machinery("replay file %s holds no trace (nothing to re-validate)" % path)
    sc = rp["scenario"]
    ctx.evaluations = len(sc.get("events", []))
    ctx.sample({"replayed": path, "what": obj.get("what", "")[:300]})
    ctx.extra["rule"] = "re-validation of one stored implementation trace against the current specification"
    ctx.validate(rp["module"], rp["cfg"], [sc], label="replay of " + os.path.basename(path))


def crashed(rc, argv):
    """bin/check: the checking process was killed by a signal raised in native code (see bin/check)"""
    import argparse
    import signal

    ap = argparse.ArgumentParser()
    ap.add_argument("prop")
    ap.add_argument("--tier", default=os.environ.get("VERIF_TIER", "quick"), choices=["quick", "thorough"])
    ap.add_argument("--replay")
    ap.add_argument("--keep", action="store_true")
    a = ap.parse_args(argv)
    seed = int(os.environ.get("VERIF_SEED", "0") or 0)
    ctx = Ctx(a.prop.upper(), a.tier, seed)
    sig = int(rc) - 128
    try:
        name = signal.Signals(sig).name
    except ValueError:
        name = "signal %d" % sig
    ctx.assumptions.append("the checking process died; nothing of this run's coverage was recorded")
    ctx.violation("the implementation's native code killed the checking process with %s while the harness was calling it "
                  "(re-run `bin/check %s --tier %s` with VERIF_SEED=%d to reproduce)" % (name, ctx.prop, a.tier, seed),
                  {"signal": name, "tier": a.tier, "seed": seed})
    return ctx.finish(write_evidence=not a.replay and not os.environ.get("VERIF_KEEP_EVIDENCE"))


def main(argv):
    import argparse
    import importlib

    ap = argparse.ArgumentParser()
    ap.add_argument("prop")
    ap.add_argument("--tier", default=os.environ.get("VERIF_TIER", "quick"), choices=["quick", "thorough"])
    ap.add_argument("--replay")
    ap.add_argument("--keep", action="store_true")
    a = ap.parse_args(argv)
    seed = int(os.environ.get("VERIF_SEED", "0") or 0)
    prop = a.prop.upper()
    ctx = Ctx(prop, a.tier, seed, keep=a.keep)
    try:
        mod = importlib.import_module("harness.props." + prop.lower())
        if a.replay:
            ctx.replaying = True
            if hasattr(mod, "replay"):
                mod.replay(ctx, a.replay)
            else:
                replay_generic(ctx, a.replay)
        else:
            mod.run(ctx)
        rc = ctx.finish(getattr(mod, "LEVEL", "model_checking"), write_evidence=not a.replay and not os.environ.get("VERIF_KEEP_EVIDENCE"))
    except Machinery as e:
        print("MACHINERY-ERROR property=%s: %s" % (prop, e), file=sys.stderr)
        rc = 2
    except Exception:
        traceback.print_exc()
        print("MACHINERY-ERROR property=%s: unexpected exception in the harness" % prop, file=sys.stderr)
        rc = 2
    sys.stdout.flush()
    return rc
