"""Drive the real DigitalRFWriter / DigitalRFReader and record one event per DrfChannel.tla action.

The projection decodes, it never judges: stored values are classified per sample as `data` (bit-identical
to the keyed pseudo-random value of that absolute index / subchannel / component), `fill` (the documented
missing-data value) or `bad`; everything else (which index, which file, which block, which order) is left to
the specification."""
import hashlib
import math
import os
import re
import shutil

import h5py
import numpy as np

M64 = (1 << 64) - 1


# ----------------------------------------------------------------------------------------------
# exact placement arithmetic (big integers; independent of the library)
# ----------------------------------------------------------------------------------------------
def ceil_div(a, b):
    return -((-a) // b)


def file_start(t_ms, n, d):
    """first sample index whose time is >= t_ms"""
    return ceil_div(t_ms * n, 1000 * d)


def file_ms_of(k, n, d, fc):
    return ((k * d * 1000) // n) // fc * fc


def subdir_name(t_ms, sc):
    import datetime

    s = (t_ms // 1000) // sc * sc
    return (datetime.datetime(1970, 1, 1) + datetime.timedelta(seconds=s)).strftime("%Y-%m-%dT%H-%M-%S")


# ----------------------------------------------------------------------------------------------
# keyed pseudo-random sample values
# ----------------------------------------------------------------------------------------------
def _mix(x):
    x = (x ^ (x >> np.uint64(30))) * np.uint64(0xBF58476D1CE4E5B9)
    x = (x ^ (x >> np.uint64(27))) * np.uint64(0x94D049BB133111EB)
    return x ^ (x >> np.uint64(31))


class Values:
    """value(abs_index, subchannel, component) for a base real dtype; never equal to the fill value."""

    def __init__(self, dtype, nsub, ncomp, seed):
        self.dt = np.dtype(dtype)  # with byte order
        self.nat = self.dt.newbyteorder("=")
        self.nsub, self.ncomp, self.seed = nsub, ncomp, seed
        self.udt = np.dtype("u%d" % self.dt.itemsize)

    def bits(self, idx):
        """uint bit patterns, shape (N, nsub, ncomp), native order"""
        with np.errstate(over="ignore"):
            idx = np.asarray(idx, dtype=np.uint64).reshape(-1, 1, 1)
            sub = np.arange(self.nsub, dtype=np.uint64).reshape(1, -1, 1)
            comp = np.arange(self.ncomp, dtype=np.uint64).reshape(1, 1, -1)
            x = idx * np.uint64(0x9E3779B97F4A7C15) + sub * np.uint64(0xD1B54A32D192ED03) + comp * np.uint64(0x8CB92BA72F3D8DD7)
            x = _mix(x + np.uint64(self.seed & M64))
        bits = (x >> np.uint64(64 - 8 * self.dt.itemsize)).astype(self.udt)
        k = self.dt.kind
        if k == "f":
            # clamp exponent away from all-ones (Inf/NaN) - every finite value incl. denormals stays possible
            if self.dt.itemsize == 4:
                expmask, lo = np.uint32(0x7F800000), np.uint32(0x00800000)
            else:
                expmask, lo = np.uint64(0x7FF0000000000000), np.uint64(0x0010000000000000)
            allones = (bits & expmask) == expmask
            bits = np.where(allones, bits & ~lo, bits)
        elif k == "i":
            minbits = self.udt.type(1 << (8 * self.dt.itemsize - 1))
            bits = np.where(bits == minbits, minbits + self.udt.type(1), bits)
        else:
            bits = np.where(bits == 0, self.udt.type(1), bits)
        return bits.astype(self.udt)

    def array(self, idx):
        """array to hand to the writer: shape (N, nsub) of the writer's dtype (complex: structured r/i or complex)"""
        b = self.bits(idx)
        real = b.view(self.nat)
        if self.ncomp == 1:
            return real[:, :, 0].astype(self.dt)
        if self.dt.kind == "f":
            c = np.empty(real.shape[:2], dtype="c%d" % (2 * self.dt.itemsize))
            c.real = real[:, :, 0]
            c.imag = real[:, :, 1]
            return c
        st = np.empty(real.shape[:2], dtype=np.dtype([("r", self.dt), ("i", self.dt)]))
        st["r"] = real[:, :, 0]
        st["i"] = real[:, :, 1]
        return st

    def to_bits(self, arr):
        """any array a reader / h5py returned (N, nsub) or (N,) -> uint bit patterns (N, nsub', ncomp)"""
        a = np.asarray(arr)
        if a.ndim == 1:
            a = a.reshape(-1, 1)
        if a.dtype.names is not None:
            comps = [a["r"], a["i"]]
        elif a.dtype.kind == "c":
            comps = [a.real, a.imag]
        else:
            comps = [a]
        out = np.stack([np.ascontiguousarray(c).astype(c.dtype.newbyteorder("=")).view("u%d" % c.dtype.itemsize) for c in comps], -1)
        return out

    def fill_mask(self, bits):
        k = self.dt.kind
        if k == "f":
            v = bits.view(self.nat)
            return np.isnan(v)
        if k == "i":
            return bits == self.udt.type(1 << (8 * self.dt.itemsize - 1))
        return bits == 0

    def classify(self, arr, idx0, sub=None):
        """per-sample kind for block `arr` whose first sample has absolute index idx0: 0 data, 1 fill, 2 bad"""
        b = self.to_bits(arr)
        n = b.shape[0]
        if n == 0:
            return np.zeros(0, dtype=np.int8)
        exp = self.bits(np.arange(idx0, idx0 + n, dtype=np.uint64) if idx0 + n < (1 << 63) else [idx0 + i for i in range(n)])
        if sub is not None:
            exp = exp[:, sub : sub + 1, :]
        if b.shape != exp.shape:
            return np.full(n, 2, dtype=np.int8)
        isdata = (b == exp).all(axis=(1, 2))
        isfill = self.fill_mask(b).all(axis=(1, 2))
        return np.where(isdata, 0, np.where(isfill, 1, 2)).astype(np.int8)


def segs(kinds, first, which):
    """runs [lo, hi] (inclusive) of samples with kinds == which, `first` = index of element 0"""
    out = []
    m = kinds == which
    if not m.any():
        return out
    d = np.diff(np.concatenate(([0], m.astype(np.int8), [0])))
    starts = np.nonzero(d == 1)[0]
    ends = np.nonzero(d == -1)[0]
    return [[int(first + a), int(first + b - 1)] for a, b in zip(starts, ends)]


def merge_runs(runs):
    out = []
    for lo, hi in sorted(runs):
        if out and lo <= out[-1][1] + 1:
            out[-1][1] = max(out[-1][1], hi)
        else:
            out.append([lo, hi])
    return out


# ----------------------------------------------------------------------------------------------
class ChanConfig:
    """One channel configuration and its rebasing."""

    def __init__(self, n, d, fc, sc, dtype, is_complex, nsub, mode, t0_ms, nw, compression=0, checksum=False, seed=1, nd=1, pad=1):
        self.n, self.d, self.fc, self.sc = n, d, fc, sc
        self.dtype = np.dtype(dtype)
        self.is_complex, self.nsub, self.mode = is_complex, nsub, mode
        self.compression, self.checksum = compression, checksum
        if mode == "contC" and not (compression or checksum):
            self.checksum = True
        if mode in ("gapped", "contU"):
            assert mode == "gapped" or not (compression or checksum)
        self.t0, self.nw, self.nd = t0_ms, nw, nd
        assert t0_ms % fc == 0 and (sc * 1000) % fc == 0
        self.babs = [file_start(t0_ms + j * fc, n, d) for j in range(nw + 1)]
        assert all(b1 > b0 for b0, b1 in zip(self.babs, self.babs[1:])), "need at least one sample per file"
        self.B = self.babs[0] - pad
        self.bound = [b - self.B for b in self.babs]
        assert self.bound[-1] < 2**31 - 10
        self.vals = Values(self.dtype, nsub, 2 if is_complex else 1, seed)

    def cfg(self):
        return dict(bound=self.bound, mode=self.mode, nd=self.nd)

    def params(self, **over):
        p = dict(
            n=self.n, d=self.d, fc=self.fc, sc=self.sc, kind=self.dtype.kind, size=self.dtype.itemsize,
            order=("<" if self.dtype.byteorder in ("<", "=", "|") else ">"), is_complex=int(self.is_complex), nsub=self.nsub,
            continuous=int(self.mode != "gapped"),
        )
        p.update(over)
        return p

    def win_of_ms(self, t_ms):
        return (t_ms - self.t0) // self.fc + 1

    def describe(self):
        return "%d/%d Hz fc=%dms sc=%ds %s%s x%d %s zip=%d cs=%d t0=%d" % (
            self.n, self.d, self.fc, self.sc, self.dtype.str, "c" if self.is_complex else "", self.nsub, self.mode,
            self.compression, int(self.checksum), self.t0)


def format_version():
    import re as _re
    from .. import stage as _st

    try:
        txt = open(os.path.join(_st.repo_root(), "c/include/digital_rf_version.h")).read()
        return _re.search(r'DIGITAL_RF_VERSION\s+"([^"]+)"', txt).group(1)
    except Exception:
        return "?"


def params_strings(p):
    """the attribute record compared by TLC (everything as strings so magnitudes do not matter)"""
    cls = {"i": "0", "u": "0", "f": "1"}[p["kind"]]
    return dict(
        H5Tget_class=cls, H5Tget_size=str(p["size"]), H5Tget_order=("0" if p["order"] == "<" else "1"),
        H5Tget_precision=str(8 * p["size"]), H5Tget_offset="0",
        subdir_cadence_secs=str(p["sc"]), file_cadence_millisecs=str(p["fc"]),
        sample_rate_numerator=str(p["n"]), sample_rate_denominator=str(p["d"]),
        is_complex=str(p["is_complex"]), num_subchannels=str(p["nsub"]), is_continuous=str(p["continuous"]),
        epoch="1970-01-01T00:00:00Z", digital_rf_version=format_version(),
    )


ATTR_KEYS = ["H5Tget_class", "H5Tget_size", "H5Tget_order", "H5Tget_precision", "H5Tget_offset", "subdir_cadence_secs",
             "file_cadence_millisecs", "sample_rate_numerator", "sample_rate_denominator", "is_complex", "num_subchannels",
             "is_continuous", "epoch", "digital_rf_version"]


def _attr_str(v):
    if isinstance(v, bytes):
        return v.decode()
    if isinstance(v, np.ndarray) and v.shape == ():
        v = v[()]
    if isinstance(v, (np.bytes_,)):
        return bytes(v).decode()
    if isinstance(v, (str, np.str_)):
        return str(v)
    return str(int(v))


RE_FINAL = re.compile(r"^rf@(\d+)\.(\d\d\d)\.h5$")


class Channel:
    """A recording directory tree (one or more top-level dirs holding channel `ch`), a writer session, readers."""

    def __init__(self, digital_rf, root, cc, params_list):
        self.drf = digital_rf
        self.root = root
        self.cc = cc
        self.params_list = params_list  # index pid-1 -> params dict
        self.tops = [os.path.join(root, "top%d" % (i + 1)) for i in range(cc.nd)]
        for t in self.tops:
            os.makedirs(os.path.join(t, "ch"))
        self.w = None
        self.sess = None
        self.events = []
        self.seen = {}  # (d, path) -> sha1 of final files already reported
        self.ip = set()
        self.file_records = []  # every final file ever inspected (for C04 / C06 drivers)

    # ---- helpers ---------------------------------------------------------------------------
    def chdir(self, d):
        return os.path.join(self.tops[d - 1], "ch")

    def tree_hash(self, d):
        out = {}
        base = self.chdir(d)
        for dp, dn, fn in os.walk(base):
            for f in fn:
                p = os.path.join(dp, f)
                try:
                    with open(p, "rb") as fh:
                        out[os.path.relpath(p, base)] = hashlib.sha1(fh.read()).hexdigest()
                except OSError:
                    out[os.path.relpath(p, base)] = "unreadable"
            for x in dn:
                out[os.path.relpath(os.path.join(dp, x), base) + "/"] = ""
        return out

    def scan(self, d):
        """returns (fin: {j: path}, tmp: [j...], strays)"""
        base = self.chdir(d)
        fin, tmp = {}, []
        for sub in [""] + sorted(os.listdir(base)):      # "": a data file directly in the channel directory
            sp = os.path.join(base, sub) if sub else base
            if not os.path.isdir(sp):
                continue
            for f in sorted(os.listdir(sp)):
                if sub == "" and not (RE_FINAL.match(f) or f.startswith("tmp.rf@")):
                    continue
                m = RE_FINAL.match(f)
                if m:
                    t = int(m.group(1)) * 1000 + int(m.group(2))
                    fin[self.cc.win_of_ms(t)] = os.path.join(sp, f)
                elif f.startswith("tmp.rf@"):
                    m = RE_FINAL.match(f[4:])
                    t = int(m.group(1)) * 1000 + int(m.group(2))
                    tmp.append(self.cc.win_of_ms(t))
                else:
                    tmp.append(-1)
        return fin, tmp

    def inspect(self, d, j, path):
        """raw h5py projection of one finalized file"""
        cc = self.cc
        rec = dict(j=j)
        sub, name = path.split(os.sep)[-2:]
        m = RE_FINAL.match(name)
        t = int(m.group(1)) * 1000 + int(m.group(2))
        with h5py.File(path, "r") as f:
            idx = f["rf_data_index"][...]
            data = f["rf_data"]
            dlen = int(data.shape[0])
            rows = [[int(r[0]) - cc.B, int(r[1])] for r in idx]
            arr = data[...]
            dsegs, fsegs, bad = [], [], 0
            for i, r in enumerate(idx):
                off = int(r[1])
                end = dlen if i + 1 == len(idx) else int(idx[i + 1][1])
                if end <= off or off >= dlen:
                    continue
                k0 = int(r[0])
                kinds = cc.vals.classify(arr[off:end], k0)
                dsegs += segs(kinds, k0 - cc.B, 0)
                fsegs += segs(kinds, k0 - cc.B, 1)
                bad += int((kinds == 2).sum())
            at = data.attrs
            attrs = {}
            for k in ATTR_KEYS:
                attrs[k] = _attr_str(at[k]) if k in at else "<missing>"
            rec.update(
                rows=rows, dlen=dlen, data=merge_runs(dsegs), fill=merge_runs(fsegs), bad=bad, attrs=attrs,
                uuid=_attr_str(at["uuid_str"]) if "uuid_str" in at else "", seq=int(at["sequence_num"]) if "sequence_num" in at else -1,
                init_utc=str(int(at["init_utc_timestamp"])) if "init_utc_timestamp" in at else "",
            )
            first = int(idx[0][0]) if len(idx) else 0
            last = int(idx[-1][0]) + (dlen - int(idx[-1][1])) - 1 if len(idx) else 0
        exp_sub = subdir_name(t, cc.sc)
        rec["name_ok"] = bool(t % cc.fc == 0 and sub == exp_sub and cc.t0 <= t < cc.t0 + cc.nw * cc.fc)
        self.file_records.append(dict(d=d, j=j, name_ms=t, sub=sub, first=first, last=last, dlen=dlen, nrows=len(rows), path=path))
        for lo, hi in rec["data"] + rec["fill"]:
            self.ip.update((lo - 1, lo, hi, hi + 1))
        return rec

    def dir_obs(self, d):
        fin, tmp = self.scan(d)
        newf, changed = [], []
        for j in sorted(fin):
            p = fin[j]
            with open(p, "rb") as fh:
                h = hashlib.sha1(fh.read()).hexdigest()
            key = (d, p)
            if key not in self.seen:
                self.seen[key] = h
                newf.append(self.inspect(d, j, p))
            elif self.seen[key] != h:
                changed.append(j)
        for (dd, p) in list(self.seen):
            if dd == d and not os.path.exists(p):
                changed.append(-1)
        return dict(fin=sorted(fin), tmp=sorted(tmp), newf=newf, changed=changed)

    def getters(self):
        w = self.w
        lf = w.get_last_file_written()
        lastw = 0
        if lf:
            m = RE_FINAL.match(os.path.basename(lf))
            if m:
                lastw = self.cc.win_of_ms(int(m.group(1)) * 1000 + int(m.group(2)))
                ld = w.get_last_dir_written()
                if os.path.normpath(ld) != os.path.normpath(os.path.dirname(lf)):
                    lastw = -2
            else:
                lastw = -1
        return dict(next=int(w.get_next_available_sample()), written=int(w.get_total_samples_written()),
                    gaps=int(w.get_total_gap_samples()), lastw=lastw)

    # ---- writer actions --------------------------------------------------------------------------
    def open(self, d, start_rel, pid):
        """start_rel: rebased absolute index of the session's sample 0"""
        cc = self.cc
        p = self.params_list[pid - 1]
        dt = np.dtype(("<" if p["order"] == "<" else ">") + p["kind"] + str(p["size"]))
        before = self.tree_hash(d)
        ev = dict(ev="open", d=d, start=start_rel, pid=pid)
        # the session identifier: the default (32 hex digits), the canonical dashed form (36 characters), free-form text
        import uuid as _uuid
        self.nopen = getattr(self, "nopen", 0) + 1
        ustr = [None, str(_uuid.uuid4()), None, "session-%d-of-%s" % (self.nopen, _uuid.uuid4().hex * 2), "u%d" % self.nopen][self.nopen % 5]
        # the channel directory as callers name it: absolute, with a trailing slash, relative to the current directory
        cdir = self.chdir(d)
        cdir = [cdir, cdir + "/", os.path.relpath(cdir), cdir][self.nopen % 4]
        try:
            w = self.drf.DigitalRFWriter(
                cdir, dt, p["sc"], p["fc"], start_rel + cc.B, p["n"], p["d"], uuid_str=ustr,
                compression_level=cc.compression, checksum=cc.checksum, is_complex=bool(p["is_complex"]),
                num_subchannels=p["nsub"], is_continuous=bool(p["continuous"]), marching_periods=False,
            )
        except Exception as e:
            ev.update(resp="err", same=(self.tree_hash(d) == before), exc=type(e).__name__)
            self.events.append(ev)
            return False
        ev.update(resp="ok", same=True)
        self.w, self.sess = w, dict(d=d, start=start_rel, pid=pid, uuid=w.uuid, initutc=str(((start_rel + cc.B) * p["d"]) // p["n"]))
        self.ip.update((start_rel - 1, start_rel))
        self.events.append(ev)
        return True

    def keep(self, e):
        """an application may hold on to an exception (an error log, a test's excinfo, a handler that closes the writer
        while the exception is still propagating): the objects its traceback refers to stay alive as long"""
        self.kept = getattr(self, "kept", [])
        self.kept.append(e)
        del self.kept[:-8]

    def _data(self, runs):
        cc = self.cc
        parts = [cc.vals.array(np.arange(a + cc.B, a + cc.B + n, dtype=np.uint64)) for a, n in runs]
        return np.concatenate(parts) if len(parts) > 1 else parts[0]

    def write(self, runs, api=None):
        """runs: [[a_rebased_abs, len], ...]; one run -> rf_write, several -> rf_write_blocks"""
        if self.w is None:      # the session was refused (the trace says so): nothing to call
            return dict(resp="err", ret=-1, skipped=True)
        st = self.sess["start"]
        ev = dict(ev="write", runs=[list(r) for r in runs], uuid=self.sess["uuid"], initutc=self.sess["initutc"])
        arr = self._data(runs)
        try:
            # the index arguments in the forms callers use: Python int, numpy scalars, contiguous and strided arrays, lists
            self.nform = getattr(self, "nform", 0) + 1
            if self.cc.is_complex and self.nform % 3 == 2:
                # complex samples handed over as interleaved real values: (N, 2*nsub), or flat for a single subchannel
                rdt = arr.dtype["r"] if arr.dtype.names else np.dtype("f%d" % (arr.dtype.itemsize // 2))
                arr = np.ascontiguousarray(arr).view(rdt)
                if self.cc.nsub == 1 and self.nform % 2 == 0:
                    arr = arr.reshape(-1)
            if len(runs) == 1 and api != "blocks":
                ns = runs[0][0] - st
                ret = self.w.rf_write(arr, [ns, np.uint64(ns), np.int64(ns), ns][self.nform % 4])
            else:
                gl = np.array([a - st for a, n in runs], dtype=np.uint64)
                off = np.cumsum([0] + [n for a, n in runs[:-1]]).astype(np.uint64)
                form = self.nform % 4
                if form == 1:      # a column of a (blocks x 2) table: right values, not contiguous in memory
                    tab = np.zeros((len(gl), 2), dtype=np.uint64)
                    tab[:, 0], tab[:, 1] = gl, off
                    gl, off = tab[:, 0], tab[:, 1]
                elif form == 2:
                    gl, off = [int(x) for x in gl], [int(x) for x in off]
                elif form == 3:
                    gl, off = gl.astype(np.int64), off.astype(np.int64)
                ret = self.w.rf_write_blocks(arr, gl, off)
            ev.update(resp="ok", ret=int(ret))
            # the harness's own idea of the next free index (not the writer's getter, which is under test)
            self.sess["hnext"] = runs[-1][0] + runs[-1][1] - st
        except Exception as e:
            ev.update(resp="err", ret=-1, exc=type(e).__name__)
            self.keep(e)
        ev.update(self.getters())
        ev.update(self.dir_obs(self.sess["d"]))
        for a, n in runs:
            self.ip.update((a - 1, a, a + n - 1, a + n))
        self.events.append(ev)
        return ev

    def bad(self, kind):
        w = self.w
        if w is None:
            return None
        st = self.sess["start"]
        g = self.getters()
        nxt = g["next"]
        if nxt >= 2**62:        # a position no recording can have: go by the harness's own count (the getter is reported as it is)
            nxt = self.sess.get("hnext", 0)
        if kind == "past":
            nxt = max(nxt, self.sess.get("hnext", 0))
        d = self.sess["d"]
        before = self.tree_hash(d)
        cc = self.cc
        arr = self._data([[st + nxt, 6]])
        ev = dict(ev="bad", kind=kind)
        try:
            if kind == "past":
                if nxt == 0:
                    return None
                # the sample just before the next free one, the very first sample of the session, one in between
                self.npast = getattr(self, "npast", 0) + 1
                at = [nxt - 1, 0, nxt // 2][self.npast % 3]
                w.rf_write(arr[:2], at if self.npast % 2 else np.uint64(at))
            elif kind == "first-offset-nonzero":
                w.rf_write_blocks(arr, [nxt, nxt + 10], [1, 3])
            elif kind == "offsets-not-increasing":
                w.rf_write_blocks(arr, [nxt, nxt + 5, nxt + 9], [0, 3, 3])
            elif kind == "indices-not-increasing":
                w.rf_write_blocks(arr, [nxt, nxt + 5, nxt + 5], [0, 2, 4])
            elif kind == "blocks-overlap":
                w.rf_write_blocks(arr, [nxt, nxt + 2], [0, 3])
            elif kind == "offset-past-end":
                w.rf_write_blocks(arr, [nxt, nxt + 8], [0, 6])
            elif kind == "length-mismatch":
                w.rf_write_blocks(arr, [nxt, nxt + 8], [0, 2, 4])
            elif kind == "late-defect-in-many-blocks":
                # more than a thousand one-sample blocks, the defect (an index that goes back) near the end of the list
                nb = 1100
                gl = np.arange(nxt, nxt + 2 * nb, 2, dtype=np.uint64)
                gl[1060] = gl[1059]
                off = np.arange(nb, dtype=np.uint64)
                w.rf_write_blocks(self._data([[st + nxt, nb]]), gl, off)
            elif kind == "negative-index":
                self.nneg = getattr(self, "nneg", 0) + 1
                neg = [-5, -25, -1][self.nneg % 3]
                w.rf_write_blocks(arr, np.array([neg], dtype=np.int64) if self.nneg % 2 else [neg], [0])
            else:
                raise ValueError(kind)
            ev["resp"] = "ok"
        except (ValueError, TypeError, RuntimeError, IOError, OverflowError) as e:
            ev.update(resp="err", exc=type(e).__name__)
            self.keep(e)
        ev.update(self.getters())
        ev["same"] = self.tree_hash(d) == before
        self.events.append(ev)
        return ev

    def empty(self, gap):
        w = self.w
        if w is None:
            return None
        d = self.sess["d"]
        before = self.tree_hash(d)
        nxt = self.getters()["next"]
        if nxt >= 2**62:
            nxt = self.sess.get("hnext", 0)
        arr = self._data([[self.sess["start"] + nxt, 1]])[:0]
        ev = dict(ev="empty", gap=gap)
        try:
            w.rf_write(arr, nxt + gap)
            ev["resp"] = "ok"
        except Exception as e:
            ev.update(resp="err", exc=type(e).__name__)
        ev.update(self.getters())
        ev["same"] = self.tree_hash(d) == before
        self.events.append(ev)

    def close(self):
        if self.w is None:
            return
        d = self.sess["d"]
        ev = dict(ev="close", uuid=self.sess["uuid"], initutc=self.sess["initutc"])
        self.w.close()
        ev.update(self.getters())
        ev.update(self.dir_obs(d))
        self.events.append(ev)
        self.w = None

    def regen(self, d, j):
        fin, _ = self.scan(d)
        ok = True
        try:
            base = self.chdir(d)
            prop = os.path.join(base, "drf_properties.h5")
            keep = open(prop, "rb").read()
            os.remove(prop)
            # give recreate_properties_file a view of the channel in which only file j is visible
            view = os.path.join(self.root, "regen_view")
            shutil.rmtree(view, ignore_errors=True)
            sub = os.path.basename(os.path.dirname(fin[j]))
            os.makedirs(os.path.join(view, sub))
            os.link(fin[j], os.path.join(view, sub, os.path.basename(fin[j])))
            self.drf.digital_rf_hdf5.recreate_properties_file(view)
            shutil.move(os.path.join(view, "drf_properties.h5"), prop)
            shutil.rmtree(view, ignore_errors=True)
            self._regen_backup = keep
        except Exception as e:
            ok = False
            self._regen_err = repr(e)
        self.events.append(dict(ev="regen", d=d, j=j, ok=ok))

    # ---- reader observations ------------------------------------------------------------------------
    def reader(self, D):
        tops = [self.tops[d - 1] for d in D]
        return self.drf.DigitalRFReader(tops if len(tops) > 1 else tops[0])

    def _decode_read(self, r, sub=None):
        cc = self.cc
        blocks, dsegs, fsegs, bad = [], [], [], 0
        for k, arr in sorted(r.items(), key=lambda kv: int(kv[0])):   # (the order of the mapping is not part of any property)
            k = int(k)
            n = len(arr)
            blocks.append([k - cc.B, k - cc.B + n - 1])
            kinds = cc.vals.classify(arr, k, sub)
            dsegs += segs(kinds, k - cc.B, 0)
            fsegs += segs(kinds, k - cc.B, 1)
            bad += int((kinds == 2).sum())
        return blocks, merge_runs(dsegs), merge_runs(fsegs), bad

    def observe_bounds(self, D, rd=None):
        ev = dict(ev="bounds", D=list(D), has=False, first=0, last=0, raised=False)
        try:
            rd = rd or self.reader(D)
            b = rd.get_bounds("ch")
            if b[0] is not None:
                ev.update(has=True, first=int(b[0]) - self.cc.B, last=int(b[1]) - self.cc.B)
        except Exception as e:
            ev.update(raised=True, exc="%s: %s" % (type(e).__name__, str(e)[:100]))
        self.events.append(ev)
        return ev

    def observe_read(self, D, a, b, rng, rd=None, light=False):
        cc = self.cc
        ev = dict(ev="read", D=list(D), a=a, b=b, blocks=[], data=[], fill=[], bad=0, lens=[], subeq=True, spliteq=True, raised=False)
        try:
            rd = rd or self.reader(D)
            r = rd.read(a + cc.B, b + cc.B, "ch")
            ev["blocks"], ev["data"], ev["fill"], ev["bad"] = self._decode_read(r)
            cb = rd.get_continuous_blocks(a + cc.B, b + cc.B, "ch")
            ev["lens"] = sorted([int(k) - cc.B, int(k) - cc.B + int(n) - 1] for k, n in cb.items())
            if not light:
                sub = rng.randrange(cc.nsub)
                rs = rd.read(a + cc.B, b + cc.B, "ch", sub)
                ok = sorted(int(k) for k in rs.keys()) == sorted(int(k) for k in r.keys())
                if ok:
                    for k in r:
                        full = r[k]
                        col = full[:, sub] if full.ndim == 2 else full
                        if not np.array_equal(cc.vals.to_bits(rs[k]), cc.vals.to_bits(col)):
                            ok = False
                ev["subeq"] = bool(ok)
                if b > a:
                    m = rng.randrange(a, b)
                    r1 = rd.read(a + cc.B, m + cc.B, "ch")
                    r2 = rd.read(m + 1 + cc.B, b + cc.B, "ch")
                    merged = {}
                    lastk = None
                    for k, arr in sorted(list(r1.items()) + list(r2.items()), key=lambda kv: int(kv[0])):
                        k = int(k)
                        if lastk is not None and lastk + len(merged[lastk]) == k:
                            merged[lastk] = np.concatenate((merged[lastk], arr))
                        else:
                            merged[k] = arr
                            lastk = k
                    ok = sorted(int(k) for k in r.keys()) == sorted(merged.keys())
                    if ok:
                        for k in r:
                            if not np.array_equal(cc.vals.to_bits(r[k]), cc.vals.to_bits(merged[int(k)])):
                                ok = False
                    ev["spliteq"] = bool(ok)
        except Exception as e:
            ev.update(raised=True, exc="%s: %s" % (type(e).__name__, str(e)[:100]))
        self.events.append(ev)
        return ev

    def observe_vector(self, D, a, n, rng, rd=None):
        cc = self.cc
        ev = dict(ev="vector", D=list(D), a=a, n=n, resp="ok", exact=True, api="raw")
        rd = rd or self.reader(D)
        which = rng.choice(["raw", "raw", "vector", "1d"])
        sub = rng.choice([None, rng.randrange(cc.nsub)]) if which != "1d" else rng.randrange(cc.nsub)
        ev["api"] = which
        try:
            if which == "raw":
                z = rd.read_vector_raw(a + cc.B, n, "ch", sub)
            elif which == "vector":
                z = rd.read_vector(a + cc.B, n, "ch", sub)
            else:
                z = rd.read_vector_1d(a + cc.B, n, "ch", sub)
            z = np.asarray(z)
            # expected raw values through the basic read
            r = rd.read(a + cc.B, a + cc.B + n - 1, "ch", sub)
            exact = len(r) == 1
            if exact:
                raw = list(r.values())[0]
                if which == "raw":
                    zz = z.reshape(raw.shape) if z.size == raw.size else z
                    exact = zz.shape == raw.shape and zz.tobytes() == np.ascontiguousarray(raw).tobytes() and z.shape[0] == n
                    if exact:
                        kinds = cc.vals.classify(raw, a + cc.B, sub)
                        exact = not (kinds == 2).any()
                else:
                    if raw.dtype.names is not None:
                        od = np.promote_types("c8", raw.dtype["r"])
                        conv = np.empty(raw.shape, dtype=od)
                        conv.real = raw["r"]
                        conv.imag = raw["i"]
                    else:
                        conv = np.asarray(raw, dtype=np.promote_types("f4", raw.dtype))
                    zz = z.reshape(conv.shape) if z.size == conv.size else z
                    exact = zz.shape == conv.shape and zz.dtype == conv.dtype and zz.tobytes() == np.ascontiguousarray(conv).tobytes() and z.shape[0] == n
            ev["exact"] = bool(exact)
        except (IOError, OSError) as e:
            ev["resp"] = "ioerror"
        except Exception as e:
            ev.update(resp="other", exc="%s: %s" % (type(e).__name__, str(e)[:100]))
        self.events.append(ev)
        return ev

    def observe(self, D, rng, npairs=30, nvec=8):
        """bounds + reads on interesting point pairs + vector reads"""
        cc = self.cc
        rd = None
        try:
            rd = self.reader(D)
        except Exception as e:
            self.events.append(dict(ev="bounds", D=list(D), has=False, first=0, last=0, raised=False, noreader=str(e)[:80]))
            return
        self.observe_bounds(D, rd)
        pts = sorted(p for p in self.ip | set(cc.bound) | {b - 1 for b in cc.bound} if 0 <= p <= cc.bound[-1] + 3)
        pairs = set()
        if pts:
            pairs.add((pts[0], pts[-1]))
            for _ in range(npairs * 3):
                a, b = rng.choice(pts), rng.choice(pts)
                if a > b:
                    a, b = b, a
                pairs.add((a, b))
                if len(pairs) >= npairs:
                    break
        for a, b in sorted(pairs):
            self.observe_read(D, a, b, rng, rd, light=rng.random() < 0.5)
        if pts:
            # one request that spans far more than a thousand file periods around the recording
            wide = 1500 * max(cc.bound[i + 1] - cc.bound[i] for i in range(len(cc.bound) - 1))
            if wide < 2**29:
                self.observe_read(D, max(-cc.B, pts[0] - wide), pts[-1] + wide, rng, rd, light=True)
        for _ in range(nvec):
            if not pts:
                break
            a = rng.choice(pts)
            n = rng.choice([1, 1, 2, cc.nsub, rng.randint(1, 9)])
            self.observe_vector(D, a, n, rng, rd)
        rd.close()

    def scenario(self, name):
        return dict(
            name=name, cfg=self.cc.cfg(), params=[params_strings(p) for p in self.params_list],
            events=self.events, desc=self.cc.describe(),
        )


class CChannel(Channel):
    """Same histories through the PUBLIC C API (digital_rf_write_hdf5 / digital_rf_write_blocks_hdf5) via the
    sanitizer-built replay driver.  The C API has no written/gap counters: those are logged as -1 (= not observed)."""

    def __init__(self, digital_rf, root, cc, params_list, cdriver):
        Channel.__init__(self, digital_rf, root, cc, params_list)
        self.cdriver = cdriver
        self.proc = None
        self.idx = 0
        self.lastfile = ""
        self.crashed = None

    def _cmd(self, line):
        import subprocess

        if self.proc is None or self.proc.poll() is not None:
            self.crashed = self.crashed or "driver not running"
            return None
        try:
            self.proc.stdin.write(line + "\n")
            self.proc.stdin.flush()
            ans = self.proc.stdout.readline()
        except (BrokenPipeError, OSError):
            ans = ""
        if not ans.startswith("rc="):
            self.proc.wait()
            err = self.proc.stderr.read()[-1500:] if self.proc.stderr else ""
            self.crashed = "driver died (rc=%s): %s" % (self.proc.returncode, err)
            return None
        m = re.match(r"rc=(-?\d+) idx=(\d+) last=(.*)$", ans.strip("\n"))
        rc, self.idx, self.lastfile = int(m.group(1)), int(m.group(2)), m.group(3)
        return rc

    def getters(self):
        lastw = 0
        if self.lastfile:
            m = RE_FINAL.match(os.path.basename(self.lastfile))
            lastw = self.cc.win_of_ms(int(m.group(1)) * 1000 + int(m.group(2))) if m else -1
        return dict(next=int(self.idx), written=-1, gaps=-1, lastw=lastw)

    def open(self, d, start_rel, pid):
        import subprocess
        import uuid as _uuid

        cc = self.cc
        p = self.params_list[pid - 1]
        before = self.tree_hash(d)
        ev = dict(ev="open", d=d, start=start_rel, pid=pid, capi=True)
        env = dict(os.environ, ASAN_OPTIONS="detect_leaks=0:abort_on_error=0:exitcode=86", UBSAN_OPTIONS="halt_on_error=1:exitcode=87")
        self.proc = subprocess.Popen([self.cdriver], stdin=subprocess.PIPE, stdout=subprocess.PIPE, stderr=subprocess.PIPE, text=True, env=env)
        u = _uuid.uuid4().hex
        rc = self._cmd("init %s %s %d %s %d %d %d %d %d %s %d %d %d %d %d %d" % (
            self.chdir(d), p["kind"], p["size"], p["order"], p["sc"], p["fc"], start_rel + cc.B, p["n"], p["d"], u,
            cc.compression, int(cc.checksum), p["is_complex"], p["nsub"], p["continuous"], cc.vals.seed & M64))
        if rc != 0:
            ev.update(resp="err" if rc is not None else "crash", same=(self.tree_hash(d) == before))
            self._stop()
            self.events.append(ev)
            return False
        ev.update(resp="ok", same=True)
        self.w = self
        self.sess = dict(d=d, start=start_rel, pid=pid, uuid=u, initutc=str(((start_rel + cc.B) * p["d"]) // p["n"]))
        self.ip.update((start_rel - 1, start_rel))
        self.events.append(ev)
        return True

    def _stop(self):
        if self.proc is not None:
            try:
                self.proc.stdin.close()
            except Exception:
                pass
            try:
                self.proc.wait(timeout=20)
            except Exception:
                self.proc.kill()
            err = ""
            try:
                err = self.proc.stderr.read()
            except Exception:
                pass
            if self.proc.returncode in (86, 87) or "ERROR: AddressSanitizer" in err or "runtime error:" in err:
                self.crashed = self.crashed or ("sanitizer report: " + err[-1200:])
            self.proc = None

    def write(self, runs, api=None):
        st = self.sess["start"]
        ev = dict(ev="write", runs=[list(r) for r in runs], uuid=self.sess["uuid"], capi=True, initutc=self.sess["initutc"])
        if len(runs) == 1 and api != "blocks":
            rc = self._cmd("w %d %d" % (runs[0][0] - st, runs[0][1]))
        elif self.cc.mode != "gapped" and len(runs) > 1:
            # the C API accepts one contiguous block per call in continuous mode (the Python extension splits likewise)
            rc = 0
            for a, n in runs:
                rc = self._cmd("w %d %d" % (a - st, n))
                if rc != 0:
                    break
        else:
            off, parts = 0, []
            for a, n in runs:
                parts += [str(a - st), str(off)]
                off += n
            rc = self._cmd("b %d %d %s" % (off, len(runs), " ".join(parts)))
        ev.update(resp=("crash" if rc is None else "ok" if rc == 0 else "err"), ret=int(self.idx) if rc == 0 else -1, rc=rc)
        ev.update(self.getters())
        ev.update(self.dir_obs(self.sess["d"]))
        for a, n in runs:
            self.ip.update((a - 1, a, a + n - 1, a + n))
        self.events.append(ev)
        return ev

    def bad(self, kind):
        st = self.sess["start"]
        nxt = int(self.idx)
        d = self.sess["d"]
        before = self.tree_hash(d)
        cc = self.cc
        # a valid leading block that crosses into the next file, so that the malformed part is met late
        a0 = st + nxt
        nb = [b for b in cc.bound if b > a0]
        lead = (nb[0] - a0 + 1) if nb and nb[0] - a0 + 1 < 50000 and len(nb) > 1 else 2
        late = kind != "past" and hash((kind, nxt)) % 2 == 0
        L = lead if late else 2
        g0 = nxt
        ev = dict(ev="bad", kind=kind, capi=True, late=late)
        if kind == "past":
            if nxt == 0:
                return None
            self.npast = getattr(self, "npast", 0) + 1
            rc = self._cmd("w %d 2" % [nxt - 1, 0, nxt // 2][self.npast % 3])
        elif kind == "first-offset-nonzero":
            rc = self._cmd("b %d 2 %d 1 %d %d" % (L + 4, g0, g0 + L + 5, L + 2))
        elif kind == "offsets-not-increasing":
            rc = self._cmd("b %d 3 %d 0 %d %d %d %d" % (L + 4, g0, g0 + L + 3, L, g0 + L + 7, L))
        elif kind == "indices-not-increasing":
            rc = self._cmd("b %d 3 %d 0 %d %d %d %d" % (L + 4, g0, g0 + L + 3, L, g0 + L + 3, L + 2))
        elif kind == "blocks-overlap":
            rc = self._cmd("b %d 3 %d 0 %d %d %d %d" % (L + 6, g0, g0 + L + 3, L, g0 + L + 4, L + 3))
        elif kind == "offset-past-end":
            rc = self._cmd("b %d 2 %d 0 %d %d" % (L + 2, g0, g0 + L + 9, L + 2))
        elif kind == "length-mismatch":
            # the C API takes one length for both arrays; the nearest malformed call is a zero index length
            rc = self._cmd("b %d 0" % (L + 2))
        elif kind == "late-defect-in-many-blocks":
            if nxt == 0:
                return None
            rc = self._cmd("w 0 2")       # (the C driver's line protocol has no room for a thousand blocks: a past write instead)
        elif kind == "negative-index":
            # the C API takes unsigned indices: the nearest call is one far in the past
            if nxt == 0:
                return None
            rc = self._cmd("w 0 2")
        else:
            raise ValueError(kind)
        ev["resp"] = "crash" if rc is None else ("ok" if rc == 0 else "err")
        ev["rc"] = rc
        ev.update(self.getters())
        ev["same"] = self.tree_hash(d) == before
        self.events.append(ev)
        return ev

    def empty(self, gap):
        d = self.sess["d"]
        before = self.tree_hash(d)
        rc = self._cmd("w %d 0" % (int(self.idx) + gap))
        ev = dict(ev="empty", gap=gap, capi=True, resp=("crash" if rc is None else "ok" if rc == 0 else "err"))
        ev.update(self.getters())
        ev["same"] = self.tree_hash(d) == before
        self.events.append(ev)

    def close(self):
        d = self.sess["d"]
        ev = dict(ev="close", uuid=self.sess["uuid"], capi=True, initutc=self.sess["initutc"])
        g = self.getters()
        self._cmd("close")
        self._stop()
        ev.update(g)
        ev.update(self.dir_obs(d))
        ev["crash"] = bool(self.crashed)
        if self.crashed:
            ev["crash_text"] = self.crashed[-600:]
        self.events.append(ev)
        self.w = None
