"""Generators of channel configurations and write/read histories (online: they look at the answers)."""
import calendar
import os
import shutil

import numpy as np

from . import chan_drv as cd

DTYPES = ["i1", "i2", "i4", "i8", "u1", "u2", "u4", "u8", "f4", "f8"]
PRIMES_NEAR_2_32 = [4294967291, 4294967279, 4294967231, 4294967197]


def random_rate(rng, maxcap_fc):
    """(n, d, fc_ms): rational rate and file cadence with 1 <= samples per file <= maxcap_fc"""
    fam = rng.choice(["int", "third", "seventh", "x1001", "prime", "small", "small"])
    for _ in range(200):
        if fam == "int":
            n, d = rng.choice([1, 10, 100, 1000, 48000, 200000, 1000000, 25000000, rng.randint(1, 2**32 - 1)]), 1
        elif fam == "third":
            n, d = rng.choice([rng.randint(1, 10**7) * rng.choice([1, 10, 1000]) % (2**32) or 10,
                               1000000, 500000, 250000, 125000, 100000, 2000000, 10000000, 200, 100, 10]), 3
        elif fam == "seventh":
            n, d = rng.randint(1, 2**32 - 1), 7
        elif fam == "x1001":
            n, d = rng.choice([30000, 24000, 60000, rng.randint(1, 2**32 - 1)]), 1001
        elif fam == "prime":
            n, d = rng.choice(PRIMES_NEAR_2_32), rng.choice([1, 1, 3, 11, 1000])
        else:
            n, d = rng.randint(1, 400), rng.randint(1, 60)
        fc = rng.choice([1, 10, 60, 100, 400, 1000, 1000, 2000, 3600000, rng.randint(1, 5000)])
        per = fc * n / (1000.0 * d)
        if 1.0 <= per <= maxcap_fc:
            return n, d, fc
        # adapt the cadence to the rate
        fc = max(1, int(1000.0 * d / n * rng.uniform(1.0, min(maxcap_fc, 40))) + 1)
        per = fc * n / (1000.0 * d)
        if 1.0 <= per <= maxcap_fc:
            return n, d, fc
    return 10, 3, 1000


def random_config(rng, seed, mode=None, nd=None, dtype=None, maxcap=3000, strat=None):
    """`strat` (a running scenario number) stratifies the discrete choices so that every element type, byte order,
    real/complex, mode and subchannel count is met within a few dozen scenarios instead of by chance"""
    order = cplx = nsub = None
    if strat is not None:
        i = strat
        dtype = dtype or DTYPES[i % 10]
        order = "<>"[(i // 10 + i) % 2]
        cplx = bool((i // 2 + i // 20) % 2)
        mode = mode or ["gapped", "contU", "contC", "gapped"][(i // 3 + i) % 4]
        nsub = [1, 2, 1, 3, 5][(i // 4 + i) % 5]
        if i % 9 == 4 and mode == "contU":
            mode = ["gapped", "contC"][(i // 9) % 2]    # the very-large-window stratum needs a chunked mode
    mode = mode or rng.choice(["gapped", "gapped", "contU", "contC"])
    big = mode != "contU" and (rng.random() < 0.25 or (strat is not None and strat % 9 == 4))
    if big:
        # few samples in very large file windows: rates up to 2^32-1 Hz with 1 ms files, indices beyond 2^63
        n = rng.choice(PRIMES_NEAR_2_32 + [2**32 - 1, 4000000000, 3999999999, rng.randint(2**31, 2**32 - 1)])
        d = rng.choice([1, 1, 1, 3])
        fc = rng.choice([1, 1, 2])
    else:
        n, d, fc = random_rate(rng, maxcap if mode != "contU" else min(maxcap, 2000))
    if strat is not None and strat % 5 == 2:
        # the rate stated as a fraction that is not in lowest terms (1000/10, 400/6): numerator and denominator are stored
        # parameters of the channel, nothing may reduce them behind the user's back
        kk = rng.choice([2, 6, 10])
        if n * kk < 2**32 and d * kk <= 10**6:
            n, d = n * kk, d * kk
    # subdir cadence: a multiple of the file cadence (in ms), at most ~1000 file cadences
    k = rng.choice([1, 2, 3, 5, 10, 60, 1000])
    sc_ms = fc * k
    while sc_ms % 1000:
        sc_ms += fc * k
    sc = sc_ms // 1000
    if sc_ms // fc > 4000:
        sc = max(1, (fc * 1000 // 1000))
        while (sc * 1000) % fc:
            sc += 1
    nw = rng.randint(4, 10)
    y = rng.choice([1980, 1999, 2001, 2020, 2038, 2069, 2099, rng.randint(1980, 2099)])
    if big and rng.random() < 0.7:
        y = rng.choice([2069, 2080, 2099])   # absolute sample indices at or above 2^63
    t_s = calendar.timegm((y, rng.randint(1, 12), rng.randint(1, 28), rng.randint(0, 23), rng.randint(0, 59), rng.randint(0, 59)))
    if rng.random() < 0.15:
        # calendar corners of the subdirectory name
        Y, Mo, D = rng.choice([(2000, 2, 29), (2024, 2, 29), (2096, 2, 29), (2100, 2, 28), (2100, 3, 1), (1999, 12, 31), (2024, 3, 1)])
        t_s = calendar.timegm((Y, Mo, D, rng.choice([0, 12, 23]), rng.choice([0, 59]), rng.choice([0, 59])))
    if rng.random() < 0.08:
        # file names whose second count changes its number of digits inside the recording (10^9 s = 2001-09-09T01:46:40Z)
        t_s = 10**9 - rng.randint(0, max(1, (nw - 2) * fc // 1000))
    t0 = t_s * 1000 // fc * fc
    epoch = rng.random() < 0.05 and not big
    if epoch:
        t0 = fc * rng.randint(1, 3)        # the very first subdirectory period after the epoch (1970-01-01T00-00-00)
    if rng.random() < 0.6 and not epoch:
        # put a subdirectory boundary inside the modelled windows
        sb = (t0 // (sc * 1000) + 1) * sc * 1000
        t0 = sb - rng.randint(1, nw - 1) * fc
    dtype = dtype or rng.choice(DTYPES)
    order = order or rng.choice(["<", "<", ">"])
    if dtype.endswith("1"):
        order = "|"
    cc = cd.ChanConfig(
        n, d, fc, sc, np.dtype(order + dtype if order != "|" else dtype), (rng.random() < 0.5) if cplx is None else cplx,
        nsub or rng.choice([1, 1, 2, 3, 5]), mode, t0, nw,
        compression=(rng.randint(1, 9) if mode == "contC" and rng.random() < 0.6 else (rng.choice([0, 0, 1, 9]) if mode == "gapped" else 0)),
        checksum=(mode == "gapped" and rng.random() < 0.3), seed=seed, nd=nd or rng.choice([1, 1, 1, 2]),
    )
    return cc


MISMATCH_KINDS = ["kind", "size", "order", "sc", "fc", "n", "d", "is_complex", "nsub", "continuous", "equiv"]


def mismatch_params(rng, p, which=None):
    """a parameter tuple differing from p in exactly one stored parameter (`equiv`: the same rate written as an
    unreduced fraction - numerator and denominator are stored parameters, so it differs in two of them)"""
    q = dict(p)
    k = which if which is not None else rng.choice(MISMATCH_KINDS)
    if k == "equiv":
        if p["n"] * 2 < 2**32 and p["d"] * 2 <= 10**9:
            q["n"], q["d"] = p["n"] * 2, p["d"] * 2
            return q
        k = "n"
    if k == "kind":
        if p["size"] in (4, 8):
            q["kind"] = "f" if p["kind"] in "iu" else "i"
        else:
            k = "size"
    if k == "size":
        q["size"] = {1: 2, 2: 4, 4: 8, 8: 4}[p["size"]]
    if k == "order":
        if p["size"] == 1:
            k = "nsub"
        else:
            q["order"] = ">" if p["order"] == "<" else "<"
    if k == "sc":
        q["sc"] = p["sc"] * 2
    if k == "fc":
        q["fc"] = p["fc"] * 2
        q["sc"] = p["sc"] * 2
        if q["sc"] == p["sc"]:
            pass
        # keep exactly one mismatch: sc must stay, so only use when sc*1000 % (2 fc) == 0
        if (p["sc"] * 1000) % (p["fc"] * 2) == 0:
            q["sc"] = p["sc"]
        else:
            q = dict(p)
            k = "n"
    if k == "n":
        q["n"] = p["n"] + 1
    if k == "d":
        q["d"] = p["d"] + 1
    if k == "is_complex":
        q["is_complex"] = 1 - p["is_complex"]
    if k == "nsub":
        q["nsub"] = p["nsub"] + 1
    if k == "continuous":
        q["continuous"] = 1 - p["continuous"]
    return q


class Online:
    """Generates and executes a history, looking at responses (e.g. closes a session after a refusal)."""

    def __init__(self, rng, ch, bad_rate=0.12, empty_rate=0.04, blocks_rate=0.25, observe_mid=0.1):
        self.rng, self.ch, self.cc = rng, ch, ch.cc
        self.bad_rate, self.empty_rate, self.blocks_rate, self.observe_mid = bad_rate, empty_rate, blocks_rate, observe_mid
        self.used = {}  # d -> set of windows that hold a final or open file

    def zones(self, d):
        """index intervals directory d may record (the same file period is never recorded in two directories).
        With two directories the periods interleave: one directory owns the first and the last third, the other the middle."""
        cc = self.cc
        if cc.nd == 1:
            return [(cc.bound[0], cc.bound[-1] - 1)]
        if not hasattr(self, "_outer"):
            self._outer = self.rng.choice([1, 2])
        h1 = max(1, cc.nw // 3)
        h2 = max(h1 + 1, (2 * cc.nw) // 3)
        z = [(cc.bound[0], cc.bound[h1] - 1), (cc.bound[h1], cc.bound[h2] - 1), (cc.bound[h2], cc.bound[-1] - 1)]
        return [z[0], z[2]] if d == self._outer else [z[1]]

    def region(self, d, at=None):
        zs = self.zones(d)
        if at is not None:
            for lo, hi in zs:
                if lo <= at <= hi:
                    return lo, hi
        return zs[0]

    def pick_len(self, a, hi):
        """a write length: tiny, up to / across the next file boundary, multi-file"""
        rng, cc = self.rng, self.cc
        nxt = [b for b in cc.bound if b > a]
        room = hi - a + 1
        if room <= 0:
            return 0
        choices = [1, 1, 2, rng.randint(1, 7)]
        if nxt:
            tob = nxt[0] - a
            choices += [tob, tob, tob + 1, max(1, tob - 1)]
            if len(nxt) > 1:
                choices += [nxt[1] - a, nxt[1] - a + 1, nxt[1] - a + rng.randint(0, 5)]
            if len(nxt) > 2 and rng.random() < 0.3:
                choices += [nxt[2] - a + rng.randint(0, 3)]
        n = rng.choice(choices)
        return max(1, min(n, room, 60000))

    def pick_gap(self, a, hi):
        rng, cc = self.rng, self.cc
        r = rng.random()
        if r < 0.55:
            return 0
        nxt = [b for b in cc.bound if b > a]
        opts = [1, 1, 2, rng.randint(1, 9)]
        if nxt:
            opts += [nxt[0] - a, nxt[0] - a - 1 if nxt[0] - a > 1 else 1, nxt[0] - a + 1]
            if len(nxt) > 1:
                opts += [nxt[1] - a, nxt[1] - a + 1, nxt[1] - a - 1]
            if len(nxt) > 2:
                opts += [nxt[2] - a + rng.randint(0, 2)]
        g = rng.choice(opts)
        return max(0, min(g, hi - a))

    def session(self, d, start, pid=1, maxcalls=None):
        rng, ch, cc = self.rng, self.ch, self.cc
        lo, hi = self.region(d, start)
        if not ch.open(d, start, pid):
            return "refused"
        pos = start  # next index the writer would accept
        ncalls = maxcalls or rng.randint(1, 9)
        outcome = "ok"
        for _ in range(ncalls):
            if pos > hi:
                break
            r = rng.random()
            if r < self.bad_rate:
                kinds = ["past", "first-offset-nonzero", "offsets-not-increasing", "indices-not-increasing", "blocks-overlap",
                         "offset-past-end", "length-mismatch", "negative-index", "late-defect-in-many-blocks"]
                if cc.mode != "gapped":
                    pass
                ch.bad(rng.choice(kinds))
                continue
            if r < self.bad_rate + self.empty_rate:
                ch.empty(rng.choice([0, 0, 3]))
                continue
            a = pos + self.pick_gap(pos, hi)
            if a > hi:
                break
            runs = []
            nb = 1 if rng.random() > self.blocks_rate else rng.randint(2, 4)
            for b in range(nb):
                n = self.pick_len(a, hi)
                if n <= 0:
                    break
                runs.append([a, n])
                a = a + n + (self.pick_gap(a + n, hi) if b + 1 < nb else 0)
                if rng.random() < 0.3 and b + 1 < nb:
                    pass
                if a > hi:
                    break
            if not runs:
                break
            fin_before, _ = ch.scan(d)
            ev = ch.write(runs, api=("blocks" if len(runs) == 1 and rng.random() < 0.15 else None))
            if ev["resp"] != "ok":
                outcome = "write-refused"
                if rng.random() < 0.6:
                    # the writer must remain usable for later periods: try the finalized period once more, then go on
                    r = None
                    for a0, n0 in runs:
                        for j in range(1, cc.nw + 1):
                            if j in fin_before and cc.bound[j - 1] <= a0 + n0 - 1 and a0 <= cc.bound[j] - 1:
                                r = max(a0, cc.bound[j - 1])
                                break
                        if r is not None:
                            break
                    if r is not None:
                        if rng.random() < 0.7:
                            ch.write([[r, 1]])
                        fin_now, _ = ch.scan(d)
                        jr = max(j for j in range(1, cc.nw + 1) if cc.bound[j - 1] <= r)
                        free = [j for j in range(jr + 1, cc.nw + 1) if j not in fin_now and cc.bound[j - 1] <= hi]
                        if free:
                            jf = free[0]
                            n1 = max(1, min(3, cc.bound[jf] - cc.bound[jf - 1], hi - cc.bound[jf - 1] + 1))
                            ev2 = ch.write([[cc.bound[jf - 1], n1]])
                            if ev2["resp"] == "ok":
                                pos = cc.bound[jf - 1] + n1
                                continue
                break
            # a gap that stays inside one file is where the writer's position is easiest to get wrong: probe it at once
            win = lambda x: max(j for j in range(1, cc.nw + 1) if cc.bound[j - 1] <= x)
            starts = [pos] + [a0 + n0 for a0, n0 in runs[:-1]]
            infile_gap = any(a0 > p0 and p0 > cc.bound[0] and win(a0) == win(p0 - 1) for p0, (a0, n0) in zip(starts, runs))
            pos = runs[-1][0] + runs[-1][1]
            if infile_gap and self.bad_rate > 0 and rng.random() < 0.5:
                ch.bad("past")
            if rng.random() < self.observe_mid:
                ch.observe([d], rng, npairs=6, nvec=2)
        ch.close()
        return outcome

    def regen_phase(self, D, nfiles):
        """delete drf_properties.h5, regenerate it from one data file, read everything again, reopen a session"""
        rng, ch, cc = self.rng, self.ch, self.cc
        for d in D:
            fin, _ = ch.scan(d)
            js = sorted(fin)
            rng.shuffle(js)
            for j in js[:nfiles]:
                ch.regen(d, j)
                ch.observe([d], rng, npairs=10, nvec=3)
            if js and rng.random() < 0.7:
                # a new session with the original parameters must be accepted by the regenerated channel
                start = cc.bound[max(fin)]  # first sample after the last finalized window
                lo, hi = self.region(d, start)
                if start <= hi:
                    self.session(d, start, 1, maxcalls=2)
                    ch.observe([d], rng, npairs=6, nvec=1)

    def run(self, nsessions=None, observe_pairs=30, nvec=8, regen=0):
        rng, ch, cc = self.rng, self.ch, self.cc
        self.zones(1)  # fixes which directory owns the outer periods
        nsessions = nsessions or rng.choice([1, 1, 2, 2, 3])
        ends = {}
        for si in range(nsessions):
            d = rng.randint(1, cc.nd)
            if cc.nd == 2 and nsessions >= 3:
                # make the periods of the two directories interleave: outer, inner, outer, ...
                d = self._outer if si % 2 == 0 else 3 - self._outer
            zs = self.zones(d)
            lo, hi = zs[(si // 2) % len(zs)] if (cc.nd == 2 and nsessions >= 3) else rng.choice(zs)
            if si == 0 or d not in ends or not (lo <= ends[d] <= hi):
                start = rng.choice([lo, lo, lo + rng.randint(0, max(0, min(hi - lo, cc.bound[1] - cc.bound[0] + 2)))])
            else:
                e = ends[d]
                opts = [e, e + 1, e + rng.randint(0, 20), rng.randint(lo, hi), lo]
                nxt = [b for b in cc.bound if b > e]
                if nxt:
                    opts += [nxt[0], nxt[0], nxt[0] + 1, nxt[0] - 1]
                    if len(nxt) > 1:
                        opts += [nxt[1], nxt[1] + 2]
                start = min(max(lo, rng.choice(opts)), hi)
            pid = 1
            if os.path.exists(os.path.join(ch.chdir(d), "drf_properties.h5")) and rng.random() < 0.25:
                pid = 2
            self.session(d, start, pid)
            if pid == 1:
                fin, _ = ch.scan(d)
                inside = [j for j in fin if 1 <= j <= cc.nw]      # (a file outside the universe is reported by the trace)
                if inside:
                    ends[d] = max(ends.get(d, lo), cc.bound[max(inside)] - 1)
                    # ends[d]: last index of the last final window (a later session may not enter it)
            D = sorted(ends) or [d]
            if rng.random() < 0.7 or si + 1 == nsessions:
                ch.observe(D, rng, npairs=observe_pairs, nvec=nvec)
                if cc.nd > 1 and len(D) > 1 and rng.random() < 0.5:
                    ch.observe([rng.choice(D)], rng, npairs=8, nvec=2)
        if regen:
            self.regen_phase(sorted(ends), regen)


def run_random(digital_rf, root, rng, seed, name, **kw):
    cc = random_config(rng, seed, **{k: v for k, v in kw.items() if k in ("mode", "nd", "dtype", "maxcap", "strat")})
    if os.path.exists(root):
        shutil.rmtree(root)
    os.makedirs(root)
    top = root
    st = kw.get("strat")
    if st is not None and not kw.get("cdriver"):
        # where the channel lives: a long path (more than 256 characters), a path with a component that starts with `tmp.`
        if st % 9 == 4:
            root = os.path.join(root, *["a-directory-name-of-sixty-characters-%02d-%s" % (i, "x" * 20) for i in range(4)])
        elif st % 9 == 7:
            root = os.path.join(root, "tmp.Xq3vT9bZ1k", "mytmp.dir")
        os.makedirs(root, exist_ok=True)
    p1 = cc.params()
    p2 = mismatch_params(rng, p1, MISMATCH_KINDS[seed % len(MISMATCH_KINDS)])   # every kind of mismatch in turn
    if kw.get("cdriver"):
        ch = cd.CChannel(digital_rf, root, cc, [p1, p2], kw["cdriver"])
    else:
        ch = cd.Channel(digital_rf, root, cc, [p1, p2])
    Online(rng, ch, **{k: v for k, v in kw.items() if k in ("bad_rate", "empty_rate", "blocks_rate", "observe_mid")}).run(
        nsessions=kw.get("nsessions"), observe_pairs=kw.get("observe_pairs", 30), nvec=kw.get("nvec", 8), regen=kw.get("regen", 0)
    )
    sc = ch.scenario(name)
    recs = ch.file_records
    ch.kept = []
    shutil.rmtree(top, ignore_errors=True)
    return sc, recs, cc
