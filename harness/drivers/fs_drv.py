"""Scenarios for DrfFsTrace: stepped recordings with snapshots and reader passes at every operation (C02, C09),
real kills (C02), single-fault schedules (C10)."""
import errno
import os

import numpy as np

from ..fsshim import fsctl
from . import chan_drv as cd
from . import chan_gen as cg

NREADERS = 4


def make_big_job(rng, seed):
    """writes so large that HDF5 cannot keep them in its chunk cache (1 MiB): a later write call has to flush the chunk of an
    earlier, already accepted call, so file-system operations (and their failures) happen inside H5Dwrite itself"""
    n, d, fc, sc = 1000000, 1, 1000, 3600
    t0 = (rng.randint(315532800, 4102444800) // sc) * sc * 1000 + rng.randint(0, sc - 3) * fc
    # the first write call sets the chunk length (its own length when ten times that exceeds a file): chunks of 100000-125000
    # samples of 4 or 8 bytes stay below the cache size, so they are cached, and the second or third one evicts the first
    dt = rng.choice(["<i4", "<f4", "<i8"])
    cc = cd.ChanConfig(n, d, fc, sc, np.dtype(dt), False, 1, "gapped", t0, 3, compression=0, checksum=False, seed=seed)
    b = cc.bound
    start = b[0]
    ops = [["open", start + cc.B]]
    pos = start
    for c in range(rng.randint(5, 7)):
        ln = rng.choice([100000, 110000, 125000])
        a = pos + rng.choice([0, 0, 0, 3])
        if a + ln > b[-1] - 1:
            break
        ops.append(["write", a - start, ln])
        pos = a + ln
    ops.append(["close"])
    return cc, ops


def make_job(rng, seed, nfiles=(2, 4), mode=None, small=True, restart=False, many_calls=False, digits=False):
    """a short gapped / continuous recording: open, a few writes with gaps and multi-file spans, close
    many_calls: more calls, both entry points (rf_write, rf_write_blocks) late in the job - whatever fails, calls of both
    kinds follow it"""
    mode = mode or rng.choice(["gapped", "gapped", "gapped", "contU", "contC"] if many_calls else ["gapped", "gapped", "contU", "contC"])
    realis = rng.choice([(10, 3, 1000, 2), (500, 9, 60, 3), (100, 1, 100, 1), (7, 2, 1000, 3), (48000, 1, 1, 1)])
    if many_calls:      # enough samples per file for many calls
        realis = rng.choice([(48000, 1, 1, 1), (100, 1, 100, 1), (2000, 3, 25, 1)])
    n, d, fc, sc = realis
    t0 = (rng.randint(315532800, 4102444800) * 1000) // (sc * 1000) * (sc * 1000) + rng.randint(0, (sc * 1000) // fc - 1) * fc
    if rng.random() < 0.5:
        t0 = (t0 // (sc * 1000) + 1) * sc * 1000 - fc  # the second file starts a new subdirectory
    if digits or rng.random() < 0.12:
        # the second count of the file names gains a digit inside the recording (10^9 s), within one subdirectory if possible
        t0 = (10**12 // fc - rng.randint(1, 2)) * fc
    nw = rng.randint(*nfiles) + 1
    dt = rng.choice(["<i2", "<f4", ">i4", "<u1", ">f8", "<i8"])
    cc = cd.ChanConfig(n, d, fc, sc, np.dtype(dt), rng.random() < 0.4, rng.choice([1, 1, 2]), mode, t0, nw,
                       compression=(rng.choice([0, 1]) if mode == "gapped" else 0), checksum=False, seed=seed)
    b = cc.bound
    hi = b[-2] + max(0, (b[-1] - b[-2]) // 2)  # stop inside the last window
    start = b[0] + rng.choice([0, 0, 1]) * min(1, b[1] - b[0] - 1)
    if restart == "backfill" and nw >= 3:
        start = b[1]          # the first window stays free: a later session fills it in and runs on into recorded periods
    ops = [["open", start + cc.B]]
    pos = start
    ncalls = rng.randint(5, 7) if many_calls else rng.randint(2, 4)
    for c in range(ncalls):
        if pos > hi:
            break
        gap = rng.choice([0, 0, 1, 2, (b[1] - b[0])])
        if restart == "backfill" and c == 0:
            gap = 0           # the second period is recorded from its first sample on
        a = min(pos + gap, hi)
        nxt = [x for x in b if x > a]
        ln = rng.choice([1, 2, (nxt[0] - a) if nxt else 1, (nxt[0] - a + 1) if nxt else 2, (nxt[1] - a + 1) if len(nxt) > 1 else 3])
        if many_calls:
            # leave room for the calls that follow
            ln = max(3, min(ln, max(3, (hi - a + 1) // max(1, ncalls - c))))
        ln = max(1, min(ln, hi - a + 1, 5000))
        if mode == "gapped" and (c % 2 == 1 if many_calls else rng.random() < 0.3) and ln >= 3:
            k = rng.randint(1, ln - 2)
            g2 = rng.choice([1, 2])
            if a + ln + g2 - 1 <= hi:
                ops.append(["blocks", [[a - start, k], [a - start + k + g2, ln - k]]])
                pos = a + ln + g2
                continue
        ops.append(["write", a - start, ln])
        pos = a + ln
        if a - start > 0 and rng.random() < 0.3:
            ops.append(["past"])          # a refused call in between (the writer object stays in use)
    ops.append(["close"])
    if restart == "backfill" and nw >= 3:
        # a later session starts in the free first period and records forward into the period recorded first: its first
        # file is fine, the roll-over into the occupied period has to be refused and must leave that file as it is
        s2 = b[0] + rng.randint(0, max(0, b[1] - b[0] - 1))
        ops.append(["open", s2 + cc.B])
        if rng.random() < 0.5:
            ops.append(["write", 0, b[1] - s2 + rng.choice([1, 2])])          # one call across the boundary
        else:
            ops.append(["write", 0, b[1] - s2])                                # up to the boundary, then the next call
            ops.append(["write", b[1] - s2, rng.choice([1, 2])])
        ops.append(["close"])
    elif restart:
        # the recorder is restarted on the same channel with a start index inside a period that is already published,
        # then records a later free period
        j = rng.randint(0, max(0, nw - 3))
        s2 = b[j] + rng.randint(0, b[j + 1] - b[j] - 1)
        ops.append(["open", s2 + cc.B])
        ops.append(["write", 0, rng.choice([1, 2, b[j + 1] - s2 + 1])])
        if pos <= b[-1] - 2:
            ops.append(["write", pos - s2, min(2, b[-1] - pos)])
        ops.append(["close"])
    return cc, ops


def header(cc, name):
    return dict(name=name, cfg=cc.cfg(), nreaders=NREADERS + 3, desc=cc.describe())


def stepped(env, digital_rf, cc, ops, name, rng, kill_at=None, every=1, restart=None):
    """snapshot + reader passes + listing before every operation; optionally a real SIGKILL at stop `kill_at`.
    restart (after a kill): a new recorder process is started on the tree the dead one left behind -
      "same":  its write falls into the file period that was in progress at the kill, then it is closed
      "go-on": the same, then it goes on to a later free period before it is closed
      "later": it starts in a later free period"""
    boxes = {r: [None] for r in range(1, NREADERS + 1)}
    abox = [None]
    abox2 = [None]
    born = {r: 1 + (r - 1) * rng.randint(3, 12) for r in boxes}

    def observe(run, when, op):
        n = run.nops
        if when == "op":
            if (n - 1) % every and kill_at != n:
                return
            run.snapshot("op")
            for r, box in boxes.items():
                if n >= born[r]:
                    run.reader_pass(r, box, digital_rf, box[0] is None)
            if n % 2 == 0:
                # a reader over two top-level directories: an (emptied) archive of the channel and the live directory
                run.reader_pass(NREADERS + 2, abox, digital_rf, abox[0] is None, archive=True)
                run.reader_pass(NREADERS + 3, abox2, digital_rf, abox2[0] is None, archive=True, archive_last=True)
            if n % 3 == 0:
                run.listing(digital_rf)
        else:
            run.snapshot("end")
            for r, box in boxes.items():
                if box[0] is not None:
                    run.reader_pass(r, box, digital_rf, False)
            run.reader_pass(NREADERS + 1, [None], digital_rf, True)  # a reader opened after the kill / the close
            run.listing(digital_rf)

    def policy(run, op):
        if kill_at is not None and run.nops == kill_at:
            return "kill"
        return "go"

    run = fsctl.FsRun(env["stage"], env["shim"], env["verif"], env["root"], cc, ops, policy=policy, observe=observe, name=name).run()
    killed = run.killed
    if killed and restart:
        b = cc.bound
        snap = [e for e in run.events if e["ev"] == "snap"][-1]
        tmpj = sorted(j for j in snap["tmp"] if 1 <= j <= cc.nw)
        finj = sorted(j for j in snap["fin"] if 1 <= j <= cc.nw)
        top = max(tmpj + finj + [0])
        ops2 = None
        if restart in ("same", "go-on") and tmpj:
            j = tmpj[-1]
            s2 = b[j - 1] + rng.randint(0, max(0, b[j] - b[j - 1] - 1))
            ops2 = [["open", s2 + cc.B], ["write", 0, rng.choice([1, 2, max(1, b[j] - s2)])]]
            if restart == "go-on" and top + 1 <= cc.nw:
                a = b[top]      # first sample of the first period nobody has touched
                ops2.append(["write", a - s2, min(3, b[-1] - a)])
            ops2.append(["close"])
        elif top + 1 <= cc.nw:
            a = b[top]
            ops2 = [["open", a + cc.B], ["write", 0, min(3, b[-1] - a)], ["close"]]
        if ops2:
            kill_at = None
            run.restart(ops2)
    sc = header(cc, name)
    sc["events"] = run.events
    sc["nops"] = run.nops
    sc["killed"] = killed
    run.cleanup()
    return sc


def faulted(env, digital_rf, cc, ops, name, fail_at, err, sticky, opclass=None):
    """operation number `fail_at` fails with errno `err` (once, or from then on for every operation of the same kind)"""
    state = {"on": False, "op": None}

    def policy(run, op):
        if run.nops == fail_at:
            state["on"] = True
            state["op"] = op["op"]
            return ("fail", err)
        if sticky and state["on"] and op["op"] == state["op"]:
            return ("fail", err)
        return "go"

    def observe(run, when, op):
        if when == "end":
            run.snapshot("end")
            run.reader_pass(NREADERS + 1, [None], digital_rf, True)
            run.listing(digital_rf)

    run = fsctl.FsRun(env["stage"], env["shim"], env["verif"], env["root"], cc, ops, policy=policy, observe=observe, name=name).run()
    sc = header(cc, name)
    sc["events"] = run.events
    sc["nops"] = run.nops
    sc["fault"] = dict(at=fail_at, errno=err, sticky=sticky, op=state["op"])
    sc["exit_code"] = run.exit_code
    run.cleanup()
    return sc


def free_running(env, digital_rf, rng, seed, name, nreaders=2, nwrites=60):
    """writer and reader processes at full speed, no synchronisation; returns a DrfLiveTrace scenario"""
    import json
    import shutil
    import subprocess
    import time

    from ..fsshim import fsctl

    cc, _ = make_job(rng, seed, nfiles=(6, 10), mode=rng.choice(["gapped", "contC", "contU"]))
    root = env["root"] + "_live"
    shutil.rmtree(root, ignore_errors=True)
    top = os.path.join(root, "top")
    os.makedirs(os.path.join(top, "ch"))
    b = cc.bound
    # many small writes that walk through all windows, with occasional gaps
    writes, pos, hi = [], 0, b[-1] - b[0] - 1
    while pos <= hi and len(writes) < nwrites:
        n = rng.choice([1, 2, 3, max(1, (b[1] - b[0]) // 2), (b[1] - b[0]) + 1])
        n = min(n, hi - pos + 1, 5000)
        writes.append([pos, n])
        pos += n + rng.choice([0, 0, 0, 1, 2])
    job = dict(cfg=dict(n=cc.n, d=cc.d, fc=cc.fc, sc=cc.sc, dtype=cc.dtype.str, is_complex=cc.is_complex, nsub=cc.nsub, mode=cc.mode,
                        compression=cc.compression, checksum=cc.checksum, seed=cc.vals.seed, B=cc.B),
               top=top, root=root, start=b[0] + cc.B, writes=writes, pause=rng.choice([0.0, 0.001, 0.003]), rpause=0.0,
               verif=env["verif"], out=os.path.join(root, "reader%d.ndjson"), lo=b[0] + cc.B - 2, hi=b[-1] + cc.B + 2)
    jf = os.path.join(root, "job.json")
    json.dump(job, open(jf, "w"))
    here = os.path.join(env["verif"], "harness", "fsshim", "live_proc.py")
    penv = dict(os.environ, PYTHONPATH=env["stage"], HDF5_USE_FILE_LOCKING="FALSE", PYTHONDONTWRITEBYTECODE="1")
    readers = [subprocess.Popen(["/venv/bin/python", here, "reader%d" % (r + 1), jf], env=penv, stdout=subprocess.DEVNULL, stderr=subprocess.DEVNULL)
               for r in range(nreaders)]
    time.sleep(0.4)  # let the readers start polling the still empty tree
    wr = subprocess.Popen(["/venv/bin/python", here, "writer", jf], env=penv, stdout=subprocess.DEVNULL, stderr=subprocess.DEVNULL)
    wr.wait(timeout=120)
    open(os.path.join(root, "writer_done"), "w").close()
    for p in readers:
        p.wait(timeout=60)
    # final content of every file (raw h5py), in name order
    run = fsctl.FsRun(env["stage"], env["shim"], env["verif"], root, cc, [])
    snap = run.snapshot("end")
    files = [dict(j=f["j"], vis=cd.merge_runs(f["data"] + f["fill"]), data=f["data"], ok=f["ok"]) for f in snap["files"]]
    events = []
    for r in range(nreaders):
        evs = [json.loads(l) for l in open(os.path.join(root, "reader%d.ndjson" % (r + 1)))]
        # drop consecutive identical passes (keep the first of each run and every after-close pass)
        last = None
        for e in evs:
            key = (e["ok"], json.dumps(e["blocks"]), e["afterclose"], e["bad"])
            if key != last:
                events.append(e)
                last = key
    sc = dict(name=name, desc=cc.describe(), files=files, nreaders=nreaders, events=events, writer_rc=wr.returncode,
              passes=sum(1 for _ in events))
    shutil.rmtree(root, ignore_errors=True)
    return sc
