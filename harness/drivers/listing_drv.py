"""Drivers for the Listing / EventFilter / Transfer specifications (C14, C15, C18).

An *abstract tree* is plain data (it goes into the trace verbatim, see spec/Listing.tla):
    chans : [ {path, root} ]                    candidate channel directories ('' = the tree root itself)
    subs  : [ {ch, t, ok, name} ]               subdirectories (t in ms, rebased to the tree's base time)
    files : [ {ch, sd, kind, pfx, t, tmp, ext, tok, depth, rel} ]
The generators decide the attributes, `Tree.add_*` derives the *name* from the attributes (so the attributes are
true by construction), `materialise` creates the names on tmpfs, and the runners call the real code and translate
returned paths back to file ids with a dictionary lookup.  Nothing here judges a result: TLC does.
"""
import datetime
import hashlib
import os
import re
import shutil

UTC = datetime.timezone.utc
EPOCH = datetime.datetime(1970, 1, 1, tzinfo=UTC)

PFX = {1: "rf", 2: "metadata", 3: "a", 4: "zz", 5: "ch0", 6: "m.x"}
PROPNAME = {"drfprop": "drf_properties.h5", "dmdprop": "dmd_properties.h5", "legacy": "metadata.h5"}


def subdir_name(abs_s):
    return (EPOCH + datetime.timedelta(seconds=abs_s)).strftime("%Y-%m-%dT%H-%M-%S")


def to_dt(abs_ms, naive=False):
    d = EPOCH + datetime.timedelta(milliseconds=abs_ms)
    return d.replace(tzinfo=None) if naive else d


class Tree:
    """abstract tree + the concrete names that realise it"""

    def __init__(self, base_s):
        self.base_s = base_s
        self.chans = []
        self.subs = []
        self.files = []
        self.extra_dirs = []  # empty stray directories

    # -- construction ----------------------------------------------------------------
    def chan(self, path):
        for i, c in enumerate(self.chans):
            if c["path"] == path:
                return i + 1
        self.chans.append(dict(path=path, root=(path == "")))
        return len(self.chans)

    def sub(self, ch, t_ms, ok=True, bad="short"):
        """timestamped subdirectory of chans[ch] at rebased time t_ms (whole seconds); ok=False: a near miss name"""
        name = subdir_name(self.base_s + t_ms // 1000)
        if not ok:
            name = {"short": name[:-1], "sep": name.replace("T", "_"), "plain": "notes%d" % len(self.subs),
                    "long": name + "0"}[bad]
        for i, s in enumerate(self.subs):
            if s["ch"] == ch and s["name"] == name:
                return i + 1
        self.subs.append(dict(ch=ch, t=t_ms, ok=ok, name=name))
        return len(self.subs)

    def _join(self, ch, sd, name):
        parts = [self.chans[ch - 1]["path"]]
        if sd:
            parts.append(self.subs[sd - 1]["name"])
        parts.append(name)
        return os.path.join(*[p for p in parts if p])

    def data(self, ch, sd, kind, t_ms, pfx=None, tmp=False, ext=True, tok=True, bad="frac2", badext=".hdf5"):
        """data file (kind 'rf' | 'md') with name time t_ms (rebased) in subdirectory sd (0 = directly in the channel dir)"""
        pfx = pfx or (1 if kind == "rf" else 2)
        a = self.base_s * 1000 + t_ms
        secs, ms = a // 1000, a % 1000
        if kind == "md":
            t_ms -= ms  # metadata names carry whole seconds
            ms = 0
        if tok:
            stamp = "%d.%03d" % (secs, ms) if kind == "rf" else "%d" % secs
        else:
            stamp = {
                "frac2": "%d.%02d" % (secs, ms // 10),          # two-digit fraction
                "alpha": "%da.%03d" % (secs, ms) if kind == "rf" else "%da" % secs,   # non-numeric time
                "noat": None,                                     # no '@'
                "frac4": "%d.%04d" % (secs, ms * 10),
                "empty": ".%03d" % ms if kind == "rf" else "",    # no seconds
            }[bad]
        if stamp is None:
            name = "%s%d.%03d" % (PFX[pfx], secs, ms) if kind == "rf" else "%s%d" % (PFX[pfx], secs)
        else:
            name = "%s@%s" % (PFX[pfx], stamp)
        name += ".h5" if ext else badext
        if tmp:
            name = "tmp." + name
        depth = bool(sd) and self.subs[sd - 1]["ok"]
        self.files.append(dict(ch=ch, sd=sd, kind=kind, pfx=pfx, t=t_ms, tmp=tmp, ext=ext, tok=tok, depth=depth,
                               rel=self._join(ch, sd, name)))
        return len(self.files)

    def prop(self, ch, kind, tmp=False, ext=True, badext=".bak"):
        name = PROPNAME[kind]
        if not ext:
            name = name[:-3] + badext if badext.startswith(".h") else name + badext
        if tmp:
            name = "tmp." + name
        self.files.append(dict(ch=ch, sd=0, kind=kind, pfx=0, t=0, tmp=tmp, ext=ext, tok=True, depth=True,
                               rel=self._join(ch, 0, name)))
        return len(self.files)

    def other(self, ch, sd, name):
        """stray file that has nothing of the format"""
        self.files.append(dict(ch=ch, sd=sd, kind="other", pfx=0, t=0, tmp=False, ext=name.endswith(".h5"), tok=False,
                               depth=False, rel=self._join(ch, sd, name)))
        return len(self.files)

    # -- views --------------------------------------------------------------------------
    def abstract(self):
        keys = ("ch", "sd", "kind", "pfx", "t", "tmp", "ext", "tok", "depth")
        return dict(
            chans=[dict(root=c["root"]) for c in self.chans],
            subs=[dict(ch=s["ch"], t=s["t"], ok=s["ok"]) for s in self.subs],
            files=[{k: f[k] for k in keys} for f in self.files],
        )

    def names(self):
        return dict(base_s=self.base_s, chans=[c["path"] for c in self.chans], subs=[s["name"] for s in self.subs],
                    files=[f["rel"] for f in self.files])

    def view(self, rel):
        """R of Listing.tla for listing the directory <root>/<rel>"""
        mem = [i + 1 for i, c in enumerate(self.chans) if rel == "" or c["path"] == rel or c["path"].startswith(rel + "/")]
        top = 0
        for i, c in enumerate(self.chans):
            if c["path"] == rel:
                top = i + 1
        return dict(top=top, mem=mem)

    def time_consistent(self):
        """a data file's name time lies in [its subdirectory's time, the next subdirectory's time) - what the format guarantees"""
        for f in self.files:
            if f["kind"] in ("rf", "md") and f["sd"] and self.subs[f["sd"] - 1]["ok"] and f["tok"]:
                st = self.subs[f["sd"] - 1]["t"]
                later = [s["t"] for s in self.subs if s["ch"] == f["ch"] and s["ok"] and s["t"] > st]
                if f["t"] < st or (later and f["t"] >= min(later)):
                    return False
        return True

    def points(self):
        """interesting window ends: every file time and subdirectory time, each -1/0/+1 ms, and two points outside"""
        ts = {f["t"] for f in self.files if f["kind"] in ("rf", "md")} | {s["t"] for s in self.subs if s["ok"]}
        if not ts:
            ts = {0}
        pts = set()
        for t in ts:
            pts.update((t - 1, t, t + 1))
        pts.update((min(ts) - 5000, max(ts) + 5000))
        return sorted(pts)

    # -- materialisation ----------------------------------------------------------------
    def materialise(self, root, content=None):
        if os.path.exists(root):
            shutil.rmtree(root)
        os.makedirs(root)
        for c in self.chans:
            os.makedirs(os.path.join(root, c["path"]), exist_ok=True)
        for s in self.subs:
            os.makedirs(os.path.join(root, self.chans[s["ch"] - 1]["path"], s["name"]), exist_ok=True)
        for d in self.extra_dirs:
            os.makedirs(os.path.join(root, d), exist_ok=True)
        for i, f in enumerate(self.files):
            p = os.path.join(root, f["rel"])
            os.makedirs(os.path.dirname(p), exist_ok=True)
            with open(p, "wb") as fh:
                if content is not None:
                    fh.write(content(i + 1, f))
        self.ids = {os.path.join(root, f["rel"]): i + 1 for i, f in enumerate(self.files)}
        self.root = root

    def restore_sub(self, sd):
        s = self.subs[sd - 1]
        os.makedirs(os.path.join(self.root, self.chans[s["ch"] - 1]["path"], s["name"]), exist_ok=True)
        for f in self.files:
            if f["sd"] == sd:
                open(os.path.join(self.root, f["rel"]), "wb").close()


# =====================================================================================
# generators
# =====================================================================================
KIND_PROPS = {"drf": ["drfprop"], "dmd": ["dmdprop"], "legacy": ["legacy"], "both": ["drfprop", "dmdprop"], "none": []}
BASES = [1700000000, 999999990, 1474491360, 9999990, 4102444790]


def core_tree(base_s, chpath, ckind, patterns, cad_s, fkind=None):
    """systematic family: one channel, one subdirectory per pattern:
    'E' empty, 'A' file at the subdirectory time, 'B' file later, 'AB' both, 'T' only a tmp. file, 'X' only near misses,
    'BB' two later files"""
    t = Tree(base_s)
    ch = t.chan(chpath)
    for k in KIND_PROPS[ckind]:
        t.prop(ch, k)
    fkind = fkind or ("rf" if ckind == "drf" else "md")
    for j, pat in enumerate(patterns):
        st = j * cad_s * 1000
        sd = t.sub(ch, st)
        late = st + (cad_s // 2) * 1000 + (250 if fkind == "rf" else 0)
        if pat in ("A", "AB"):
            t.data(ch, sd, fkind, st)
        if pat in ("B", "AB", "BB"):
            t.data(ch, sd, fkind, late)
        if pat == "BB":
            t.data(ch, sd, fkind, late + 1000)
        if pat == "T":
            t.data(ch, sd, fkind, late, tmp=True)
        if pat == "X":
            t.data(ch, sd, fkind, st, ext=False)
            t.data(ch, sd, fkind, late, tok=False)
    return t


def sync_tree(rng):
    """synchronised channels, as a multi-channel recorder produces them: 2-3 channels with the same subdirectories and the
    same file names in each (and, sometimes, a metadata channel beside them)"""
    base_s = rng.choice(BASES)
    cad = rng.choice([10, 3600, 4])
    base_s -= base_s % cad
    t = Tree(base_s)
    names = rng.choice([["chA", "chB"], ["ch0", "ch1", "ch2"], ["grp/chA", "grp/chB"], ["b", "a"]])
    kind = rng.choice(["drf", "drf", "dmd"])
    fkind = "rf" if kind == "drf" else "md"
    nsub = rng.choice([1, 1, 2, 3])
    plan = []
    for j in range(nsub):
        st = j * cad * 1000
        offs = sorted(rng.sample([0, 1000, (cad // 2) * 1000, (cad - 1) * 1000], rng.randint(1, 3)))
        plan.append((st, [o if fkind == "md" else o + rng.choice([0, 250]) for o in offs]))
    for path in names:
        ch = t.chan(path)
        for k in KIND_PROPS[kind]:
            t.prop(ch, k)
        for st, offs in plan:
            sd = t.sub(ch, st)
            for o in offs:
                t.data(ch, sd, fkind, st + o)
    seen, keep = set(), []
    for f in t.files:
        if f["rel"] not in seen:
            seen.add(f["rel"])
            keep.append(f)
    t.files = keep
    return t


CORE_PATTERNS = ("E", "A", "B", "AB", "T", "X", "BB")


def enum_core(nsub=3):
    """every (channel kind, pattern tuple) of the systematic family"""
    import itertools

    for ckind in ("dmd", "drf", "legacy", "both"):
        for n in range(1, nsub + 1):
            for pats in itertools.product(CORE_PATTERNS, repeat=n):
                yield ckind, pats


def random_tree(rng):
    """rich random tree of the bounded grammar: <= 2 channels (+ a nested one), every property-file kind, <= 3 subdirs
    (some empty, some with near-miss names), <= 3 files per subdir from the near-miss menu, stray files and dirs;
    always time-consistent (a file's time lies in [its subdir's time, the next subdir's time))"""
    base_s = rng.choice(BASES)
    cad = rng.choice([10, 10, 3600, 2])
    base_s -= base_s % cad if cad != 3600 else 0
    t = Tree(base_s)
    layout = rng.choice(["root", "one", "two", "nested", "deep", "two", "prefix"])
    # "prefix": sibling channels where one name is a string prefix of the other (ch1 / ch10, rf / rf_meta)
    paths = {"root": [""], "one": ["chA"], "two": ["chA", "chB"], "nested": ["chA", "chA/metadata"],
             "deep": ["grp/chA", "chB"], "prefix": rng.choice([["ch1", "ch10"], ["rf", "rf_meta"], ["chA", "chAB"]])}[layout]
    for path in paths:
        ch = t.chan(path)
        ck = rng.choice(["drf", "dmd", "dmd", "legacy", "both", "none", "tmpprop"])
        if path.endswith("metadata"):
            ck = rng.choice(["dmd", "dmd", "legacy"])
        if ck == "tmpprop":
            # only a near miss of a properties file: not a channel directory
            tmp, ext = rng.choice([(True, True), (False, False), (True, False)])
            t.prop(ch, rng.choice(["drfprop", "dmdprop", "legacy"]), tmp=tmp, ext=ext, badext=rng.choice([".bak", ".hdf5"]))
        else:
            for k in KIND_PROPS[ck]:
                t.prop(ch, k)
        main = "rf" if ck == "drf" else ("md" if ck in ("dmd",) else rng.choice(["rf", "md"]))
        mixed = ck in ("legacy", "both") and rng.random() < 0.3
        nsub = rng.choice([0, 1, 2, 2, 3, 3, 3])
        slots = sorted(rng.sample(range(0, 6), nsub))
        for j in slots:
            st = j * cad * 1000
            ok = rng.random() < 0.9
            sd = t.sub(ch, st, ok=ok, bad=rng.choice(["short", "sep", "plain", "long"]))
            nf = rng.choice([0, 0, 1, 1, 2, 2, 3])
            used = set()
            for _ in range(nf):
                kind = main
                r = rng.random()
                if mixed and r < 0.5:
                    kind = "md" if main == "rf" else "rf"
                elif r < 0.06:
                    kind = "md" if main == "rf" else "rf"  # a file of the other kind in a one-kind channel
                off = rng.choice([0, 0, 1000, (cad // 2) * 1000, cad * 1000 - 1000, rng.randrange(0, cad * 1000)])
                if kind == "md":
                    off -= off % 1000
                elif rng.random() < 0.5:
                    off = min(cad * 1000 - 1, off + rng.choice([1, 250, 500, 999]))
                v = rng.random()
                kw = {}
                if v < 0.62:
                    pass
                elif v < 0.72:
                    kw["tmp"] = True
                elif v < 0.80:
                    kw["ext"] = False
                    kw["badext"] = rng.choice([".hdf5", ".h5.bak", ".h5x", ".txt"])
                elif v < 0.90:
                    kw["tok"] = False
                    kw["bad"] = rng.choice(["frac2", "alpha", "noat", "frac4", "empty"])
                else:
                    kw["pfx"] = rng.choice([3, 4, 5, 6])
                key = (kind, st + off, kw.get("pfx"), kw.get("tmp"), kw.get("ext"), kw.get("tok"))
                if key in used:
                    continue
                used.add(key)
                t.data(ch, sd, kind, st + off, **kw)
            if rng.random() < 0.1:
                t.other(ch, sd, rng.choice(["notes.txt", "other.h5", "rf.h5"]))
        if rng.random() < 0.25:
            t.data(ch, 0, main, rng.choice([0, 1000, 5000]))  # file directly in the channel directory
        if rng.random() < 0.15:
            t.extra_dirs.append(os.path.join(path, "emptydir"))
    # drop duplicated relative paths (two descriptors that produce one name)
    seen = set()
    keep = []
    for f in t.files:
        if f["rel"] not in seen:
            seen.add(f["rel"])
            keep.append(f)
    t.files = keep
    return t


def flag_combos():
    """all include-flag combinations incl. the None defaults (dp/mp: 0 False, 1 True, 2 None)"""
    return [(a, b, p, q) for a in (True, False) for b in (True, False) for p in (2, 1, 0) for q in (2, 1, 0)]


def make_opts(flags, rec, s, e):
    a, b, p, q = flags
    return dict(drf=a, dmd=b, dp=p, mp=q, rec=rec, rev=False, hs=s is not None, s=0 if s is None else s,
                he=e is not None, e=0 if e is None else e)


def windows(points):
    """all windows with ends on the given points (start <= end), plus the open ones"""
    w = [(None, None)]
    for s in points:
        w.append((s, None))
        w.append((None, s))
    for i, s in enumerate(points):
        for e in points[i:]:
            w.append((s, e))
    return w


# =====================================================================================
# C14: running the real listing
# =====================================================================================
def _kwargs(tree, o, reverse, naive=False):
    base_ms = tree.base_s * 1000
    tri = {0: False, 1: True, 2: None}
    return dict(
        recursive=o["rec"],
        reverse=reverse,
        starttime=to_dt(base_ms + o["s"], naive) if o["hs"] else None,
        endtime=to_dt(base_ms + o["e"], naive) if o["he"] else None,
        include_drf=o["drf"],
        include_dmd=o["dmd"],
        include_drf_properties=tri[o["dp"]],
        include_dmd_properties=tri[o["mp"]],
    )


class _VanishOS:
    """stand-in for the `os` module inside list_drf: a subdirectory on the vanish list is removed just before
    the listing reads it (what a ringbuffer or `drf mv` running next to the listing does)"""

    def __init__(self, real, targets):
        self._real = real
        self._targets = set(targets)
        self.hit = []

    def __getattr__(self, name):
        return getattr(self._real, name)

    def listdir(self, path="."):
        if path in self._targets:
            self._targets.discard(path)
            shutil.rmtree(path, ignore_errors=True)
            self.hit.append(path)
        return self._real.listdir(path)


def list_once(list_drf, tree, rel, o, reverse, naive=False, gone=()):
    """one real lsdrf call -> {raised, res[, exc]}"""
    path = os.path.join(tree.root, rel) if rel else tree.root
    kw = _kwargs(tree, o, reverse, naive)
    targets = [os.path.join(tree.root, tree.chans[tree.subs[sd - 1]["ch"] - 1]["path"], tree.subs[sd - 1]["name"]) for sd in gone]
    saved = list_drf.os
    vo = None
    if targets:
        vo = _VanishOS(saved, targets)
        list_drf.os = vo
    # a naive datetime means UTC in digital_rf, whatever the local time zone of the process is
    tz_saved = os.environ.get("TZ")
    if naive:
        import time as _time
        list_once.ntz = getattr(list_once, "ntz", 0) + 1
        os.environ["TZ"] = ["EST5", "XYZ-03:30", "UTC", "NZST-12"][list_once.ntz % 4]
        _time.tzset()
    try:
        try:
            res = list_drf.lsdrf(path, **kw)
        finally:
            list_drf.os = saved
            if naive:
                if tz_saved is None:
                    os.environ.pop("TZ", None)
                else:
                    os.environ["TZ"] = tz_saved
                _time.tzset()
    except Exception as ex:  # logged, judged by the trace specification
        out = dict(raised=True, res=[], exc="%s: %s" % (type(ex).__name__, ex))
    else:
        out = dict(raised=False, res=[tree.ids.get(p, 0) for p in res])
    if vo is not None:
        out["hit"] = len(vo.hit)
        for sd in gone:
            tree.restore_sub(sd)
    return out


def ls_event(list_drf, tree, rel, o, naive=False, gone=()):
    f = list_once(list_drf, tree, rel, o, False, naive, gone)
    r = list_once(list_drf, tree, rel, o, True, naive, gone)
    ev = dict(ev="ls", o=o, R=tree.view(rel), gone=list(gone), f=dict(raised=f["raised"], res=f["res"]), hasr=True,
              r=dict(raised=r["raised"], res=r["res"]), rel=rel)
    if f["raised"]:
        ev["exc"] = f["exc"]
    elif r["raised"]:
        ev["exc"] = r["exc"]
    return ev


def ls_scenarios(name, tree, events, chunk=64, desc=""):
    """split the events of one tree into scenarios of at most `chunk` events (keeps replay files small)"""
    out = []
    a = tree.abstract()
    nm = tree.names()
    for i in range(0, len(events), chunk):
        out.append(dict(name="%s.%d" % (name, i // chunk), desc=desc, tree=a, names=nm, events=events[i:i + chunk]))
    return out


# =====================================================================================
# C15: the event filter
# =====================================================================================
def descriptors(base_s=None):
    """the bounded grammar of paths for C15: valid and near-miss Digital RF / Digital Metadata / properties paths, at
    times T-1s .. T+1s around the reference time T = 0 (rebased; windows are placed around it).
    Returns (tree, list of descriptor dicts with 'rel' and the matching channel kind 'ck')"""
    t = Tree(1700000000 - 1700000000 % 3600 if base_s is None else base_s)
    out = []

    def add(fid, ck, label):
        f = dict(t.files[fid - 1])
        f["ck"] = ck
        f["label"] = label
        out.append(f)

    T0 = 600000  # 10 minutes into the hour, in ms
    for chpath in ("ch", "top/nested"):
        ch = t.chan(chpath)
        sd = t.sub(ch, 0)
        short = t.sub(ch, 0, ok=False, bad="short")
        plain = t.sub(ch, 0, ok=False, bad="plain")
        full = chpath == "ch"
        for dt in ((-1000, -1, 0, 1, 500, 1000) if full else (0, 500)):
            add(t.data(ch, sd, "rf", T0 + dt), "drf", "rf%+d" % dt)
        for dt in ((-1000, 0, 1000) if full else (0,)):
            add(t.data(ch, sd, "md", T0 + dt), "dmd", "md%+d" % dt)
        add(t.data(ch, sd, "rf", T0, tmp=True), "drf", "tmp.rf")
        add(t.data(ch, sd, "md", T0, tmp=True), "dmd", "tmp.md")
        if full:
            add(t.data(ch, sd, "rf", T0 + 500, tmp=True), "drf", "tmp.rf+500")
            add(t.data(ch, sd, "md", T0 + 1000, tmp=True), "dmd", "tmp.md+1000")
            add(t.data(ch, sd, "rf", T0, pfx=3), "drf", "rf other prefix")
            add(t.data(ch, sd, "md", T0, pfx=6), "dmd", "md dotted prefix")
            add(t.data(ch, sd, "rf", T0, ext=False, badext=".hdf5"), "drf", "rf wrong ext")
            add(t.data(ch, sd, "md", T0, ext=False, badext=".h5.bak"), "dmd", "md wrong ext")
            add(t.data(ch, sd, "rf", T0, tok=False, bad="frac2"), "drf", "rf 2-digit fraction")
            add(t.data(ch, sd, "rf", T0, tok=False, bad="frac4"), "drf", "rf 4-digit fraction")
            add(t.data(ch, sd, "rf", T0, tok=False, bad="alpha"), "drf", "rf non-numeric time")
            add(t.data(ch, sd, "md", T0, tok=False, bad="alpha"), "dmd", "md non-numeric time")
            add(t.data(ch, sd, "rf", T0, tok=False, bad="noat"), "drf", "rf no @")
            add(t.data(ch, sd, "md", T0, tok=False, bad="empty"), "dmd", "md no seconds")
            add(t.data(ch, short, "rf", T0), "drf", "rf in malformed subdir")
            add(t.data(ch, short, "md", T0), "dmd", "md in malformed subdir")
            add(t.data(ch, plain, "rf", T0), "drf", "rf in plain subdir")
            add(t.data(ch, 0, "rf", T0), "drf", "rf directly in channel dir")
            add(t.data(ch, 0, "md", T0), "dmd", "md directly in channel dir")
            add(t.other(ch, sd, "other.h5"), "drf", "other .h5 in subdir")
            add(t.other(ch, 0, "notes.txt"), "drf", "stray in channel dir")
        add(t.prop(ch, "drfprop"), "drf", "drf_properties.h5")
        add(t.prop(ch, "dmdprop"), "dmd", "dmd_properties.h5")
        if full:
            add(t.prop(ch, "legacy"), "legacy", "metadata.h5")
            add(t.prop(ch, "drfprop", tmp=True), "drf", "tmp.drf_properties.h5")
            add(t.prop(ch, "dmdprop", ext=False, badext=".bak"), "dmd", "dmd_properties.h5.bak")
            add(t.prop(ch, "drfprop", ext=False, badext=".hdf5"), "drf", "drf_properties.hdf5")
    return t, out, T0


C15_WINDOWS = [  # relative to T0 (ms): (start, end)
    (None, None), (0, None), (1, None), (None, 0), (None, -1), (-1, 1), (1, 2000), (500, 500), (-1000, 0),
]


class Recorder:
    """mix-in giving DigitalRFEventHandler recording on_* methods"""

    def _rec(self, k, event):
        self.log.append((k, getattr(event, "src_path", None), getattr(event, "dest_path", None), event.is_directory))

    def on_created(self, event):
        self._rec("created", event)

    def on_deleted(self, event):
        self._rec("deleted", event)

    def on_modified(self, event):
        self._rec("modified", event)

    def on_moved(self, event):
        self._rec("moved", event)


def make_handler(digital_rf, base_ms, o):
    from digital_rf import watchdog_drf

    class H(Recorder, watchdog_drf.DigitalRFEventHandler):
        pass

    tri = {0: False, 1: True, 2: None}
    h = H(
        starttime=to_dt(base_ms + o["s"]) if o["hs"] else None,
        endtime=to_dt(base_ms + o["e"]) if o["he"] else None,
        include_drf=o["drf"],
        include_dmd=o["dmd"],
        include_drf_properties=tri[o["dp"]],
        include_dmd_properties=tri[o["mp"]],
    )
    h.log = []
    return h


def dispatch_event(handler, wev, root, descs, ids, k, isdir, s, d):
    """dispatch one real watchdog event object through the real handler; log what the on_* methods received"""
    sp = os.path.join(root, descs[s - 1]["rel"])
    dp = os.path.join(root, descs[d - 1]["rel"]) if d else None
    cls = {
        ("created", False): wev.FileCreatedEvent, ("modified", False): wev.FileModifiedEvent,
        ("deleted", False): wev.FileDeletedEvent, ("moved", False): wev.FileMovedEvent,
        ("created", True): wev.DirCreatedEvent, ("modified", True): wev.DirModifiedEvent,
        ("deleted", True): wev.DirDeletedEvent, ("moved", True): wev.DirMovedEvent,
    }[(k, isdir)]
    ev = cls(sp, dp) if k == "moved" else cls(sp)
    handler.log = []
    raised = False
    exc = None
    try:
        handler.dispatch(ev)
    except Exception as ex:
        raised = True
        exc = "%s: %s" % (type(ex).__name__, ex)
    outs = [dict(k=kk, p=ids.get(a, 0) if a else 0, q=ids.get(b, 0) if b else 0) for kk, a, b, _ in handler.log]
    e = dict(ev="disp", k=k, dir=isdir, s=s, d=d or 0, raised=raised, outs=outs)
    if exc:
        e["exc"] = exc
    return e


# =====================================================================================
# C18: cp / mv / ln
# =====================================================================================
def sha(path):
    h = hashlib.sha1()
    with open(path, "rb") as fh:
        h.update(fh.read())
    return h.hexdigest()


def snapshot(root):
    """projection of a directory tree: relative path of every non-directory -> (sha1 of content, inode, symlink target)"""
    out = {}
    for dp, dn, fn in os.walk(root):
        for n in fn:
            p = os.path.join(dp, n)
            rel = os.path.relpath(p, root)
            st = os.lstat(p)
            link = os.readlink(p) if os.path.islink(p) else None
            try:
                digest = sha(p)
            except OSError:
                digest = "unreadable"
            out[rel] = (digest, os.stat(p).st_ino if os.path.exists(p) else st.st_ino, link)
    return out


def iso(abs_ms):
    return (EPOCH + datetime.timedelta(milliseconds=abs_ms)).strftime("%Y-%m-%dT%H:%M:%S.%f")[:-3] + "Z"


def spell(ch, how):
    """the same channel directory, spelled the way shells and users do (trailing slash from tab completion, ./, doubled slash)"""
    if how == 1:
        return ch + "/"
    if how == 2:
        return "./" + ch
    if how == 3 and "/" in ch:
        return ch.replace("/", "//", 1)
    return ch


def cli_args(cmd, src, dst, tree, o, chs=(), symbolic=False, comma=False, float_time=False, rel_end=False, spelling=0):
    """argument vector for digital_rf.drf_command.main"""
    base_ms = tree.base_s * 1000
    a = [cmd, src, dst]
    chs = [spell(c, spelling) for c in chs]
    if chs:
        if comma:
            a += ["-c", ",".join(chs)]
        else:
            for c in chs:
                a += ["-c", c]
    if not o["rec"]:
        a.append("--only")
    if o["rev"]:
        a.append("-R")
    if o["hs"]:
        v = base_ms + o["s"]
        a += ["-s", ("%d.%03d" % (v // 1000, v % 1000)) if float_time else iso(v)]
    if o["he"]:
        v = base_ms + o["e"]
        if rel_end and o["hs"]:
            dv = o["e"] - o["s"]   # '+seconds' relative to the start time
            a += ["-e", "+%d.%03d" % (dv // 1000, dv % 1000)]
        else:
            a += ["-e", ("%d.%03d" % (v // 1000, v % 1000)) if float_time else iso(v)]
    if not o["drf"]:
        a.append("--nodrf")
    if not o["dmd"]:
        a.append("--nodmd")
    if o["dp"] != 2:
        a.append("--drfprops" if o["dp"] == 1 else "--nodrfprops")
    if o["mp"] != 2:
        a.append("--dmdprops" if o["mp"] == 1 else "--nodmdprops")
    if symbolic:
        a.append("--symbolic")
    return a


class TransferWorld:
    """a materialised source tree that persists over a sequence of real `drf cp|mv|ln` commands, each into a fresh
    destination directory; projections before/after every command"""

    def __init__(self, tree, base, materialise=True):
        self.tree = tree
        self.src = os.path.join(base, "src")
        self.base = base
        self.nd = 0
        if materialise:
            tree.materialise(self.src, content=lambda i, f: ("file %d %s" % (i, f["rel"])).encode())
        self.rel2id = {f["rel"]: i + 1 for i, f in enumerate(tree.files)}
        self.snap = snapshot(self.src)
        stray = [r for r in self.snap if r not in self.rel2id]
        if stray:
            raise ValueError("files in the source tree that the abstract tree does not know: %s" % stray[:5])

    def dst(self, d):
        return getattr(self, "dsts", {}).get(d) or os.path.join(self.base, "dst%d" % d)

    def run(self, cmd, o, chs=(), symbolic=False, comma=False, float_time=False, rel_end=False, spelling=0, via_link=False, live=False):
        """via_link: the destination is named through a symbolic link to a directory that lives elsewhere (at another
        depth), as with a data disk mounted or linked into a working directory"""
        from digital_rf import drf_command, list_drf

        tree, src = self.tree, self.src
        self.nd += 1
        d = self.nd
        dst = self.dst(d)
        dst_arg = dst
        if via_link:
            real_parent = os.path.join(self.base, "disk%d" % d, "array0", "experiment")
            os.makedirs(real_parent)
            link = os.path.join(self.base, "mnt%d" % d)
            os.symlink(real_parent, link)
            dst = os.path.join(real_parent, "dst%d" % d)
            dst_arg = os.path.join(link, "dst%d" % d)
            self.dsts = getattr(self, "dsts", {})
            self.dsts[d] = dst
        os.makedirs(dst)
        s0 = self.snap
        argv = cli_args(cmd, src, dst_arg, tree, o, chs, symbolic, comma, float_time, rel_end, spelling)
        # the equivalent listing, asked of the real lsdrf with the same options (the property's own wording)
        eq = []
        eq_raised = False
        try:
            for c in (chs or [""]):
                for p in list_drf.lsdrf(os.path.join(src, c) if c else src, **_kwargs(tree, o, o["rev"])):
                    eq.append(self.rel2id.get(os.path.relpath(p, src), 0))
        except Exception:
            eq_raised = True
        raised = False
        exc = None
        # a recorder that is still running beside `drf mv`: whenever the command creates a destination directory, a new
        # finalized data file appears in the corresponding source directory (later than everything there).  Whether mv takes
        # it along or leaves it is its business - it must not vanish.
        extras = []
        real_makedirs = os.makedirs
        dst_real = os.path.realpath(dst)
        if live and cmd == "mv":
            def mk(path, *a, **k):
                r = real_makedirs(path, *a, **k)
                pr = os.path.realpath(path)
                if pr.startswith(dst_real + os.sep):
                    rel = os.path.relpath(pr, dst_real)
                    sdir = os.path.join(src, rel)
                    if os.path.isdir(sdir) and not any(e[0] == rel for e in extras):
                        ms = [re.match(r"^rf@(\d+)\.(\d{3})\.h5$", n) for n in os.listdir(sdir)]
                        ts = [int(m.group(1)) * 1000 + int(m.group(2)) for m in ms if m]
                        if ts:
                            t = max(ts) + 1
                            name = "rf@%d.%03d.h5" % (t // 1000, t % 1000)
                            with open(os.path.join(sdir, name), "wb") as fh:
                                fh.write(b"finalized while mv was running")
                            extras.append((rel, name))
                return r
            os.makedirs = mk
        try:
            drf_command.main(argv)
        except SystemExit as ex:
            raised = bool(ex.code)
            exc = "SystemExit %s" % ex.code
        except Exception as ex:
            raised = True
            exc = "%s: %s" % (type(ex).__name__, ex)
        finally:
            os.makedirs = real_makedirs
        live_lost = 0
        for rel, name in extras:
            ps, pd = os.path.join(src, rel, name), os.path.join(dst, rel, name)
            if not os.path.exists(ps) and not os.path.exists(pd):
                live_lost += 1
            for p in (ps, pd):
                if os.path.lexists(p):
                    os.remove(p)
        s1 = snapshot(src)
        d1 = snapshot(dst)
        new = []
        for rel in sorted(d1):
            digest, ino, link = d1[rel]
            so = s0.get(rel)
            new.append(dict(
                id=self.rel2id.get(rel, 0) if so else 0,
                same=bool(so) and so[0] == digest,                                   # byte-identical to the source file of that path
                hard=bool(so) and link is None and rel in s1 and s1[rel][1] == ino,  # shares the inode with the source file
                sym=link is not None and os.path.realpath(os.path.join(dst, rel)) == os.path.realpath(os.path.join(src, rel)),
            ))
        self.snap = s1
        ev = dict(
            ev="xfer", cmd=cmd, sym=symbolic, o=o, d=d,
            scope=[tree.view(c) for c in (chs or [""])],
            raised=raised, new=new,
            src_after=sorted(self.rel2id.get(r, 0) for r in s1),
            src_changed=sorted(self.rel2id.get(r, 0) for r in s1 if r in s0 and s0[r][0] != s1[r][0]),
            eq=sorted(set(eq)), eq_raised=eq_raised,
            argv=argv[:1] + argv[3:], live=len(extras), live_lost=live_lost,
        )
        if exc:
            ev["exc"] = exc
        return ev


def relink(world, d, symbolic):
    """a second `drf ln` into destination d, which already holds links to the world's source, from ANOTHER source tree that has
    the same relative paths and other contents (a second receiver recorded with the same settings): whatever the command does
    with the destination, the first source - which it was not even given - keeps its bytes"""
    from digital_rf import drf_command

    src2 = os.path.join(world.base, "src_other%d" % d)
    for rel in world.snap:
        p2 = os.path.join(src2, rel)
        os.makedirs(os.path.dirname(p2), exist_ok=True)
        with open(p2, "wb") as fh:
            fh.write(("other receiver %s" % rel).encode())
    raised, exc = False, None
    try:
        drf_command.main(["ln", src2, world.dst(d)] + (["--symbolic"] if symbolic else []))
    except SystemExit as ex:
        raised = bool(ex.code)
    except Exception as ex:  # noqa: BLE001
        raised, exc = True, "%s: %s" % (type(ex).__name__, ex)
    s1 = snapshot(world.src)
    changed = sorted(world.rel2id.get(r, 0) for r in world.snap if r not in s1 or s1[r][0] != world.snap[r][0])
    world.snap = s1
    shutil.rmtree(src2, ignore_errors=True)
    ev = dict(ev="relink", d=d, sym=bool(symbolic), raised=raised, src_changed=changed)
    if exc:
        ev["exc"] = exc[:160]
    return ev


# ---- real recordings for the reader comparison of C18 -----------------------------------------------------------
RATE = 10          # samples per second of the recorded RF and metadata channels
FILE_MS = 2000
SUB_S = 10


def make_recording(digital_rf, np, rng, base):
    """an RF channel `rf` and a metadata channel `rf/metadata` written by the real writers over ~3 subdirectories with a gap;
    returns (tree, truth) where the tree's descriptors come from the write plan and are verified against the produced names"""
    src = os.path.join(base, "src")
    if os.path.exists(base):
        shutil.rmtree(base)
    os.makedirs(os.path.join(src, "rf"))
    base_s = 1700000000 + rng.randrange(0, 1000) * SUB_S
    k0 = base_s * RATE
    # blocks of samples (rebased sample index, length): contiguous run, a gap, another run
    n1 = rng.randrange(60, 140)
    gap = rng.randrange(5, 80)
    n2 = rng.randrange(40, 120)
    off = rng.randrange(0, 30)
    runs = [(off, n1), (off + n1 + gap, n2)]
    w = digital_rf.DigitalRFWriter(os.path.join(src, "rf"), np.int16, SUB_S, FILE_MS, k0, RATE, 1, uuid_str="c18",
                                   is_complex=False, num_subchannels=1, is_continuous=False, marching_periods=False)
    truth = {}
    for a, n in runs:
        data = np.array([(7 * (a + j) + 3) % 30011 - 15000 for j in range(n)], dtype=np.int16)
        w.rf_write(data, a)
        for j in range(n):
            truth[a + j] = int(data[j])
    w.close()
    mdir = os.path.join(src, "rf", "metadata")
    os.makedirs(mdir)
    mw = digital_rf.DigitalMetadataWriter(mdir, SUB_S, FILE_MS // 1000, RATE, 1, "metadata")
    mtruth = {}
    for a in sorted(rng.sample(range(off, off + n1 + gap + n2), 9)):
        mw.write(k0 + a, {"v": np.int64(a * 3 + 1)})
        mtruth[a] = a * 3 + 1
    del mw
    t = Tree(base_s)
    c1 = t.chan("rf")
    c2 = t.chan("rf/metadata")
    t.prop(c1, "drfprop")
    t.prop(c2, "dmdprop")
    for ch, kind, keys in ((c1, "rf", truth), (c2, "md", mtruth)):
        times = sorted({(a * 1000 // RATE) // FILE_MS * FILE_MS for a in keys})
        for tm in times:
            sd = t.sub(ch, tm // (SUB_S * 1000) * SUB_S * 1000)
            t.data(ch, sd, kind, tm)
    produced = set(snapshot(src))
    planned = {f["rel"] for f in t.files}
    if produced != planned:
        raise ValueError("write plan and produced files differ: %s" % sorted(produced ^ planned)[:6])
    t.root = src
    t.ids = {os.path.join(src, f["rel"]): i + 1 for i, f in enumerate(t.files)}
    return t, dict(k0=k0, rf=truth, md=mtruth)


def blocks_of(samples):
    """{index: value} -> [[start, length, [values...]], ...] of maximal contiguous runs"""
    out = []
    for k in sorted(samples):
        if out and out[-1][0] + out[-1][1] == k:
            out[-1][1] += 1
            out[-1][2].append(samples[k])
        else:
            out.append([k, 1, [samples[k]]])
    return out


def reader_events(digital_rf, np, world, truth, ev):
    """reader on the destination of a transfer against the source truth, for the period of the transferred files"""
    tree = world.tree
    dst = world.dst(ev["d"])
    out = []
    ids = [n["id"] for n in ev["new"] if n["id"]]
    kinds = {tree.files[i - 1]["kind"] for i in ids}
    rf_t = sorted(tree.files[i - 1]["t"] for i in ids if tree.files[i - 1]["kind"] == "rf")
    md_t = sorted(tree.files[i - 1]["t"] for i in ids if tree.files[i - 1]["kind"] == "md")
    k0 = truth["k0"]
    if rf_t and "drfprop" in kinds:
        a, b = rf_t[0] * RATE // 1000, (rf_t[-1] + FILE_MS) * RATE // 1000 - 1
        # the samples of the transferred files only (an earlier mv of the same world may have taken files of this period away)
        per = [(t * RATE // 1000, (t + FILE_MS) * RATE // 1000 - 1) for t in rf_t]
        want = blocks_of({k: v for k, v in truth["rf"].items() if any(lo <= k <= hi for lo, hi in per)})
        try:
            r = digital_rf.DigitalRFReader(dst)
            got = []
            for st, n in sorted(r.get_continuous_blocks(k0 + a, k0 + b, "rf").items()):
                got.append([int(st - k0), int(n), [int(x) for x in r.read_vector_raw(st, n, "rf").reshape(-1)]])
            out.append(dict(ev="rd", ch="rf", ok=True, want=want, got=got))
        except Exception as ex:
            out.append(dict(ev="rd", ch="rf", ok=False, want=want, got=[], exc="%s: %s" % (type(ex).__name__, ex)))
    if md_t and "dmdprop" in kinds:
        want, got = [], []
        try:
            mr = digital_rf.DigitalMetadataReader(os.path.join(dst, "rf", "metadata"))
            for tm in md_t:
                a, b = tm * RATE // 1000, (tm + FILE_MS) * RATE // 1000 - 1
                want += [[k, v] for k, v in sorted(truth["md"].items()) if a <= k <= b]
                got += [[int(k - k0), int(v)] for k, v in mr.read(k0 + a, k0 + b, "v").items()]
            out.append(dict(ev="rd", ch="md", ok=True, want=want, got=got))
        except Exception as ex:
            out.append(dict(ev="rd", ch="md", ok=False, want=want, got=[], exc="%s: %s" % (type(ex).__name__, ex)))
    return out
