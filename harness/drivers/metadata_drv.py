"""Drive a real DigitalMetadataWriter / DigitalMetadataReader (and, for C20, a DigitalRFWriter / DigitalRFReader / lsdrf
on the same tree) and record one event per Metadata.tla action.

The driver decodes, it never judges:
* every distinct value (scalar, string, array, element of a distributed array, ...) is normalised (numbers by value,
  strings by text, arrays by shape + elements) and mapped to a small canonical id, so that TLC compares ids;
* sample indices are rebased (index - first index of the first modelled file window), file and subdirectory times
  are rebased to the first modelled file second; the file partition handed to the specification (cfg.bound / sec / sub)
  is exact integer arithmetic and is itself what PlacementTrace checks on limbs under C13;
* after every write the channel is read with raw h5py (group names, leaf datasets) - not with the reader under test;
* before and after every call a recursive hash of the whole tree (names, sizes, mtimes, and - `deep` - bytes) is taken
  and logged as tokens h0 / h1.
"""
import calendar
import datetime
import hashlib
import os
import re
import shutil

import h5py
import numpy as np

RE_SUB = re.compile(r"^(\d{4})-(\d\d)-(\d\d)T(\d\d)-(\d\d)-(\d\d)$")
I31 = 2**31 - 1
ADDED_BY_RF_READER = ("sample_rate_numerator", "sample_rate_denominator", "samples_per_second")


class DriverError(Exception):
    """the harness itself went wrong (never a property violation)"""


# ---- canonical value ids ------------------------------------------------------------------------------------
def _num(x):
    if isinstance(x, (bool, np.bool_)):
        return int(x)
    if isinstance(x, (int, np.integer)):
        return int(x)
    if isinstance(x, complex):
        return _num(x.real) if x.imag == 0 else ("c", _num(x.real), _num(x.imag))
    x = float(x)
    if x != x:
        return "nan"
    if x in (float("inf"), float("-inf")):
        return repr(x)
    return int(x) if x.is_integer() else x.hex()


def norm(v, raw=False):
    """raw: the value comes from raw h5py (text is stored as bytes there): bytes and str are the same text
    normal form of a leaf value: equal values (in the sense of the reader's documentation: numbers by numeric value,
    text by characters, arrays by shape and elements) have equal normal forms"""
    if isinstance(v, bytes):      # text written as str comes back from a reader as str, not as the bytes HDF5 stores
        return ("S" if raw else "B", (), (v.decode("utf-8", "replace"),))
    if isinstance(v, str):
        return ("S", (), (str(v),))
    try:
        a = np.asarray(v)
    except ValueError:      # a ragged list (e.g. one array per sample, of different lengths): element by element
        return ("L", tuple(norm(x, raw) for x in v))
    if a.dtype.kind == "O" and isinstance(v, (list, tuple)) and any(isinstance(x, (list, tuple, np.ndarray)) for x in v):
        return ("L", tuple(norm(x, raw) for x in v))
    if a.dtype.kind in "OSU":
        items = a.ravel().tolist()
        flat = tuple(x.decode("utf-8", "replace") if isinstance(x, bytes) else str(x) for x in items)
        return ("B" if (not raw and any(isinstance(x, bytes) for x in items)) else "S", tuple(a.shape), flat)
    if a.dtype.kind in "biufc":
        return ("N", tuple(a.shape), tuple(_num(x) for x in a.ravel().tolist()))
    return ("?", repr(v))


def flatten(d, prefix=""):
    out = {}
    for k, v in d.items():
        if isinstance(v, dict):
            out.update(flatten(v, prefix + str(k) + "/"))
        else:
            out[prefix + str(k)] = v
    return out


class Ids:
    def __init__(self):
        self.t = {}

    def id(self, v, raw=False):
        key = hashlib.sha1(repr(norm(v, raw)).encode()).hexdigest()
        return self.t.setdefault(key, len(self.t) + 1)


def clamp(x):
    return max(-I31, min(I31, int(x)))


def sub_seconds(name):
    m = RE_SUB.match(name)
    if not m:
        return None
    try:
        return calendar.timegm(tuple(int(x) for x in m.groups()))
    except (ValueError, OverflowError):
        return None


# ---- configuration -----------------------------------------------------------------------------------------
class MdConfig:
    """rate n/d, file cadence fc (s), subdirectory cadence sc (s), first modelled file number j0, nw file windows"""

    def __init__(self, n, d, fc, sc, j0, nw, schema, prefix="md"):
        self.n, self.d, self.fc, self.sc, self.j0, self.nw, self.prefix = n, d, fc, sc, j0, nw, prefix
        self.schema = sorted(schema)
        self.bound_real = [-((-(j0 + j) * fc * n) // d) for j in range(nw + 1)]   # ceil((j0+j)*fc*n/d)
        self.base = self.bound_real[0]
        self.bound = [b - self.base for b in self.bound_real]
        if self.bound[-1] > I31:
            raise DriverError("modelled windows span more than 2^31 indices")
        self.t0 = j0 * fc
        self.sec = [j * fc for j in range(nw)]
        self.sub = [((self.t0 + j * fc) // sc) * sc - self.t0 for j in range(nw)]

    def tops(self):
        return sorted({p.split("/")[0] for p in self.schema})

    def json(self):
        return dict(bound=self.bound, sec=self.sec, sub=self.sub,
                    schema=[dict(name=p, top=p.split("/")[0]) for p in self.schema], fields=self.tops())

    def describe(self):
        return "%d/%d Hz, %d s files, %d s subdirs, file %d.., %d windows" % (self.n, self.d, self.fc, self.sc, self.j0, self.nw)


# ---- the world -----------------------------------------------------------------------------------------------
class MdWorld:
    def __init__(self, digital_rf, root, cfg, deep=False, rf=None, late_md=False):
        """rf: None or dict(fc_ms=, sc=, cont=) - also create an RF channel <top>/ch0 whose metadata directory is the channel
        late_md: the metadata channel (its directory, its properties) comes into being with the first metadata write call"""
        self.drf = digital_rf
        self.cfg = cfg
        self.deep = deep
        if os.path.exists(root):
            shutil.rmtree(root)
        self.root = root
        self.top = os.path.join(root, "top")
        self.chdir = os.path.join(self.top, "ch0")
        self.mddir = os.path.join(self.chdir, "metadata")
        os.makedirs(self.chdir if late_md else self.mddir)
        self.ids = Ids()
        self.sparse = False     # a sample without fields has been written
        self.tokens = {}
        self.events = []
        self.readers = {}
        self.kinds = {}
        self.rfw = None
        self.rf_next = 0
        if rf:
            self.rfw = digital_rf.DigitalRFWriter(self.chdir, np.dtype("i2"), rf["sc"], rf["fc_ms"], cfg.base, cfg.n, cfg.d,
                                                  is_complex=False, num_subchannels=1, is_continuous=rf.get("cont", False),
                                                  marching_periods=False)
        self.writer = None if late_md else digital_rf.DigitalMetadataWriter(self.mddir, cfg.sc, cfg.fc, cfg.n, cfg.d, cfg.prefix)
        self.h_init = self.token()

    # -- hashing --------------------------------------------------------------------------------------------
    def tree_hash(self):
        h = hashlib.sha1()
        for dp, dn, fn in os.walk(self.top):
            dn.sort()
            fn.sort()
            st = os.lstat(dp)
            h.update(("D %s %d\n" % (os.path.relpath(dp, self.top), st.st_mtime_ns)).encode())
            for f in fn:
                p = os.path.join(dp, f)
                st = os.lstat(p)
                h.update(("F %s %d %d " % (os.path.relpath(p, self.top), st.st_size, st.st_mtime_ns)).encode())
                if self.deep:
                    with open(p, "rb") as fh:
                        h.update(hashlib.sha1(fh.read()).digest())
        return h.hexdigest()

    def token(self):
        return self.tokens.setdefault(self.tree_hash(), len(self.tokens) + 1)

    def _call(self, ev, fn):
        h0 = self.token()
        res, exc = None, None
        try:
            res = fn()
        except Exception as e:  # noqa: BLE001 - every exception of the implementation is an observation
            exc = e
        h1 = self.token()
        ev.update(h0=h0, h1=h1, raised=exc is not None)
        if exc is not None:
            ev["exc"] = ("%s: %s" % (type(exc).__name__, exc))[:160]
        self.events.append(ev)
        return res, exc

    # -- raw projection of the metadata channel ---------------------------------------------------------------
    def _raw_sample(self, grp):
        out = {}

        def rec(g, pre):
            for key, item in g.items():
                if isinstance(item, h5py.Dataset):
                    out[pre + key] = item[()]
                else:
                    rec(item, pre + key + "/")

        rec(grp, "")
        if not out:
            return [0] * len(self.cfg.schema)
        if sorted(out) != self.cfg.schema:
            return [-1]
        return [self.ids.id(out[p], raw=True) for p in self.cfg.schema]

    def raw_files(self, values=True):
        files = []
        pat = re.compile(r"^" + re.escape(self.cfg.prefix) + r"@(\d+)\.h5$")
        for sub in (sorted(os.listdir(self.mddir)) if os.path.isdir(self.mddir) else []):
            sp = os.path.join(self.mddir, sub)
            if not os.path.isdir(sp):
                continue
            ss = sub_seconds(sub)
            for f in sorted(os.listdir(sp)):
                m = pat.match(f)
                if not m:
                    continue
                rows = []
                with h5py.File(os.path.join(sp, f), "r") as h:
                    for key in h.keys():
                        try:
                            k = int(key)
                        except ValueError:
                            k = self.cfg.base - 1
                        rows.append([clamp(k - self.cfg.base), self._raw_sample(h[key]) if values else []])
                rows.sort(key=lambda r: r[0])
                files.append(dict(t=clamp(int(m.group(1)) - self.cfg.t0), sub=clamp(ss - self.cfg.t0) if ss is not None else -I31,
                                  rows=rows, path=os.path.join(sub, f)))
        return files

    def raw_keys(self):
        return {r[0] for f in self.raw_files(values=False) for r in f["rows"]}

    # -- writes -------------------------------------------------------------------------------------------------
    def _describe_leaf(self, val):
        isstr = isinstance(val, str)
        try:
            ln = len(val)
        except TypeError:
            ln = -1
        elems = [self.ids.id(x) for x in val] if (ln >= 0 and not isstr) else []
        return dict(isstr=isstr, len=ln, whole=self.ids.id(val), elems=elems)

    def _sample_ids(self, d):
        fl = flatten(d)
        if not fl:
            self.sparse = True
            return [0] * len(self.cfg.schema)      # 0: the sample does not have this leaf
        if sorted(fl) != self.cfg.schema:
            raise DriverError("generated sample does not follow the scenario's schema: %s" % sorted(fl))
        return [self.ids.id(fl[p]) for p in self.cfg.schema]

    def write(self, form, idxs, data):
        """form 'single' (scalar index + dict), 'dict' (list of indices + dict of values), 'list' (list of dicts)"""
        real = [self.cfg.base + k for k in idxs]
        ev = dict(ev="write", form=form, idxs=list(idxs), fields=[], recs=[])
        if form == "list":
            ev["recs"] = [self._sample_ids(d) for d in data]
        else:
            fl = flatten(data)
            if sorted(fl) != self.cfg.schema:
                raise DriverError("generated data does not follow the scenario's schema: %s" % sorted(fl))
            ev["fields"] = [self._describe_leaf(fl[p]) for p in self.cfg.schema]
        before = self.raw_keys()
        arg = real[0] if form == "single" else real
        def do():
            if self.writer is None:
                os.makedirs(self.mddir, exist_ok=True)
                c = self.cfg
                self.writer = self.drf.DigitalMetadataWriter(self.mddir, c.sc, c.fc, c.n, c.d, c.prefix)
            return self.writer.write(arg, data)

        _, exc = self._call(ev, do)
        files = self.raw_files()
        after = {r[0] for f in files for r in f["rows"]}
        ev["resp"] = "ok" if exc is None else "refused"
        ev["stored"] = sorted((after - before) & set(idxs))
        ev["files"] = [dict(t=f["t"], sub=f["sub"], rows=f["rows"]) for f in files]
        return ev

    def write_other_fields(self, k, like):
        """an attempt to write the existing index k again with field names the stored sample does not have (a second source
        that describes the same instant differently): refused like any duplicate, the stored sample stays as it is.
        `like`: a schema-conform sample, logged as the request (the model only looks at the index of a refused call)"""
        ev = dict(ev="write", form="single", idxs=[k], fields=[self._describe_leaf(flatten(like)[p]) for p in self.cfg.schema], recs=[])
        before = self.raw_keys()
        data = {"other_source": 7, "note": "x", "sub2": {"q": np.arange(3)}}
        _, exc = self._call(ev, lambda: self.writer.write(self.cfg.base + k, data))
        files = self.raw_files()
        after = {r[0] for f in files for r in f["rows"]}
        ev["resp"] = "ok" if exc is None else "refused"
        ev["stored"] = sorted((after - before) & {k})
        ev["files"] = [dict(t=f["t"], sub=f["sub"], rows=f["rows"]) for f in files]
        return ev

    def rf_write(self, nsamples, gap=0):
        if self.rfw is None:
            raise DriverError("no RF writer in this world")
        ev = dict(ev="rfwrite", n=nsamples)
        start = self.rf_next + gap

        def fn():
            self.rfw.rf_write(np.arange(nsamples, dtype="i2"), start)

        self._call(ev, fn)
        self.rf_next = start + nsamples
        return ev

    def age(self, secs):
        """time passes: every file of the tree is `secs` older"""
        ev = dict(ev="age", secs=int(secs))

        def fn():
            for dp, _, fns in os.walk(self.top):
                for f in fns:
                    p = os.path.join(dp, f)
                    st = os.stat(p)
                    os.utime(p, ns=(st.st_atime_ns - int(secs) * 10**9, st.st_mtime_ns - int(secs) * 10**9))

        self._call(ev, fn)
        return ev

    def close(self):
        if self.rfw is not None:
            try:
                self.rfw.close()
            except Exception:  # noqa: BLE001
                pass
            self.rfw = None

    # -- readers ---------------------------------------------------------------------------------------------------
    def new_reader(self, r, kind):
        ev = dict(ev="newreader", r=r, kind=kind)
        if kind == "md":
            res, exc = self._call(ev, lambda: self.drf.DigitalMetadataReader(self.mddir))
        else:
            res, exc = self._call(ev, lambda: self.drf.DigitalRFReader(self.top))
        self.readers[r] = res
        self.kinds[r] = kind
        return ev

    def _rows(self, res, cols, colform, strip=False):
        rows = []
        for k, v in res.items():
            if colform == "str":
                v = {cols[0]: v}
            fl = flatten(v) if isinstance(v, dict) else {"?": v}
            if strip:
                fl = {p: x for p, x in fl.items() if p not in ADDED_BY_RF_READER}
                if not fl:
                    continue
            names = sorted(fl)
            rows.append(dict(k=clamp(int(k) - self.cfg.base), names=names, ids=[self.ids.id(fl[p]) for p in names]))
        return rows

    def read(self, r, a, b, cols=(), method="none", api="read", colform="list"):
        cols = list(cols)
        ev = dict(ev="read", r=r, api=api, a=a, b=b, cols=cols, method=method, colform=colform, rows=[])
        A, B = self.cfg.base + a, self.cfg.base + b
        rd = self.readers[r]
        m = None if method == "none" else method
        carg = None if not cols else (cols[0] if colform == "str" else cols)
        # the arguments in the forms callers use: the end left out for a read of one index (it defaults to the start),
        # numpy scalars for the indices
        self.nread = getattr(self, "nread", 0) + 1
        noend = a == b and self.nread % 3 == 0
        if self.nread % 4 == 1:
            A, B = np.int64(A), np.uint64(B)
        if api == "read":
            if noend:
                res, exc = self._call(ev, lambda: rd.read(A, columns=carg, method=m))
            else:
                res, exc = self._call(ev, lambda: rd.read(A, B, columns=carg, method=m))
            if exc is None:
                ev["rows"] = self._rows(res, cols, colform)
        elif api == "flatdict":
            if noend:
                res, exc = self._call(ev, lambda: rd.read_flatdict(A, columns=carg, method=m, squeeze=False))
            else:
                res, exc = self._call(ev, lambda: rd.read_flatdict(A, B, columns=carg, method=m, squeeze=False))
            if exc is None:
                index = list(res["index"])
                names = sorted(k for k in res if k != "index")
                ev["rows"] = [dict(k=clamp(int(k) - self.cfg.base), names=names, ids=[self.ids.id(res[p][i]) for p in names])
                              for i, k in enumerate(index)]
        elif api == "rfmeta":
            res, exc = self._call(ev, lambda: rd.read_metadata(A, B, "ch0", method=m))
            if exc is None:
                ev["rows"] = self._rows(res, [], "list", strip=True)
        else:
            raise DriverError(api)
        return ev

    def bounds(self, r):
        ev = dict(ev="bounds", r=r, first=0, last=0)
        res, exc = self._call(ev, lambda: self.readers[r].get_bounds())
        if exc is None:
            ev.update(first=clamp(int(res[0]) - self.cfg.base), last=clamp(int(res[1]) - self.cfg.base))
        return ev

    def latest(self, r):
        ev = dict(ev="latest", r=r, rows=[])
        res, exc = self._call(ev, lambda: self.readers[r].read_latest())
        if exc is None:
            ev["rows"] = self._rows(res, [], "list")
        return ev

    def fields(self, r):
        ev = dict(ev="fields", r=r, has=False, names=[])
        res, exc = self._call(ev, lambda: self.readers[r].get_fields())
        if exc is None and res is not None:
            ev.update(has=True, names=[str(x) for x in res])
        return ev

    def rf_obs(self, r, what):
        rd = self.readers[r]
        ev = dict(ev="rfobs", r=r, what=what)

        def fn():
            if what == "channels":
                return rd.get_channels()
            if what == "props":
                return rd.get_properties("ch0")
            b0, b1 = rd.get_bounds("ch0")
            if what == "bounds":
                return b0, b1
            if what == "read":
                return rd.read(b0, min(b1, b0 + 40), "ch0")
            if what == "blocks":
                return rd.get_continuous_blocks(b0, b1, "ch0")
            if what == "fileprops":
                return rd.get_properties("ch0", sample=b0)
            raise DriverError(what)

        res, exc = self._call(ev, fn)
        if isinstance(exc, DriverError):
            raise exc
        return ev

    def listing(self, what):
        lsdrf = self.drf.list_drf.lsdrf
        ev = dict(ev="list", what=what)
        t0 = datetime.datetime.fromtimestamp(self.cfg.t0 + self.cfg.fc, tz=datetime.timezone.utc)
        t1 = datetime.datetime.fromtimestamp(self.cfg.t0 + self.cfg.fc * self.cfg.nw, tz=datetime.timezone.utc)

        def fn():
            if what == "all":
                return lsdrf(self.top)
            if what == "dmd":
                return lsdrf(self.top, include_drf=False, include_dmd=True, include_dmd_properties=True)
            if what == "drf":
                return lsdrf(self.top, include_drf=True, include_dmd=False, include_drf_properties=True)
            if what == "reverse":
                return lsdrf(self.top, reverse=True)
            if what == "window":
                return lsdrf(self.top, starttime=t0, endtime=t1)
            if what == "channel":
                return lsdrf(self.mddir, recursive=False)
            raise DriverError(what)

        res, exc = self._call(ev, fn)
        if isinstance(exc, DriverError):
            raise exc
        ev["n"] = len(res) if res is not None else -1
        return ev

    # -- result ---------------------------------------------------------------------------------------------------------
    def scenario(self, name, extra=None):
        self.close()
        sc = dict(name=name, desc=self.cfg.describe(), cfg=self.cfg.json(), h0=self.h_init, events=self.events,
                  real=dict(n=self.cfg.n, d=self.cfg.d, fc=self.cfg.fc, sc=self.cfg.sc, j0=self.cfg.j0, base=self.cfg.base))
        if extra:
            sc.update(extra)
        shutil.rmtree(self.root, ignore_errors=True)
        return sc


# ---- C13: one PlacementTrace `md` record per sample written singly -----------------------------------------------------------
def placement_sweep(digital_rf, root, n, d, fc, sc, js, limbs, sub_fields, prefix="md"):
    """for every file number j in js write k = ceil(j*fc*n/d) + {-1, 0, +1} singly (ascending), record the path the writer
    chose (found by listing the directory before and after with raw h5py), whether read(k, k) returns k and whether
    read_latest returns k.  Returns a list of `md` events for PlacementTrace."""
    if os.path.exists(root):
        shutil.rmtree(root)
    os.makedirs(root)
    # whole-number floats are accepted as parameters (e.g. file_cadence_secs=3600/60, sample_rate_numerator=1e9): every
    # second configuration passes those that are exactly representable as floats
    asf = (lambda v: float(v) if v < 2**53 else v) if (n + d + fc + sc) % 2 == 0 else (lambda v: v)
    w = digital_rf.DigitalMetadataWriter(root, asf(sc), asf(fc), asf(n), asf(d), prefix)
    rd_old = digital_rf.DigitalMetadataReader(root)
    pat = re.compile(r"^" + re.escape(prefix) + r"@(\d+)\.h5$")
    evs = []
    last_k = -1
    first_k = None
    known = {}   # path -> set of group names seen

    def scan(k):
        hits = []
        for sub in os.listdir(root):
            sp = os.path.join(root, sub)
            if not os.path.isdir(sp):
                continue
            for f in os.listdir(sp):
                p = os.path.join(sp, f)
                st = os.stat(p)
                sig = (st.st_mtime_ns, st.st_size)
                if known.get(p, (None, None))[0] != sig:
                    with h5py.File(p, "r") as h:
                        known[p] = (sig, set(h.keys()))
                if str(k) in known[p][1]:
                    hits.append((sub, f))
        return hits

    for j in sorted(js):
        kb = -((-j * fc * n) // d)
        for k in (kb - 1, kb, kb + 1):
            if k <= last_k or k < 0 or k >= 2**63 - 1:
                continue
            last_k = k
            wrote = True
            try:
                w.write(k, {"v": k % 1000003, "tag": "k%d" % (k % 97)})
            except Exception:  # noqa: BLE001
                wrote = False
            hits = scan(k)
            found = latest = False
            try:
                rd = rd_old if (len(evs) % 2) else digital_rf.DigitalMetadataReader(root)
                res = rd.read(k, k)
                found = [int(x) for x in res.keys()] == [k] and res[k].get("v") == k % 1000003
                # the first sample of the sweep stays where it was put: asked for again by its own index (0 at the epoch)
                # once later samples exist, it is still the one returned
                if found and first_k is None:
                    first_k = k
                elif found:
                    r0 = rd.read(first_k, first_k)
                    found = [int(x) for x in r0.keys()] == [first_k] and r0[first_k].get("v") == first_k % 1000003
                lt = rd.read_latest()
                latest = [int(x) for x in lt.keys()] == [k]
            except Exception:  # noqa: BLE001
                pass
            name, sub, sf = 0, 0, None
            if len(hits) >= 1:
                m = pat.match(hits[0][1])
                name = int(m.group(1)) if m else 0
                sf = sub_fields(hits[0][0])
            sf = dict(sf) if sf else dict(Y=1970, M=1, D=1, h=0, mi=0, s=0, days=0, sod=0, sub_sec=0)
            ss = sf.pop("sub_sec")
            ev = dict(ev="md", k=limbs(k), n=limbs(n), d=limbs(d), fc=limbs(fc), sc=limbs(sc), name=limbs(name), q=limbs(name // fc),
                      sub=limbs(ss), qs=limbs(ss // sc), nfiles=len(hits) if wrote else 0, found=bool(found), latest=bool(latest),
                      raw=dict(n=n, d=d, fc=fc, sc=sc, j=j, k=k, path=["/".join(h) for h in hits], found=bool(found), latest=bool(latest)))
            ev.update(sf)
            evs.append(ev)
    shutil.rmtree(root, ignore_errors=True)
    return evs
