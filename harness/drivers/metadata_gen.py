"""Generators of metadata channel configurations, value shapes and write / read histories (C12, C20), and the replay
of TLC-simulated behaviours of MCMetadata on the real writer / reader (E2)."""
import calendar

import numpy as np

from . import metadata_drv as md

# ---- configurations ------------------------------------------------------------------------------------------------
YEARS = [1980, 1999, 2001, 2023, 2038, 2069, 2099]


def random_rate(rng, small=False, huge=False):
    fam = rng.choice(["int", "third", "seventh", "x1001", "small", "small", "slow"]) if not small else rng.choice(["tiny", "tiny", "slow"])
    if not small and (huge or rng.random() < 0.12):
        # index * denominator beyond 2^64: any fixed-width intermediate in the placement arithmetic wraps
        return rng.choice([30000000000, 12000000000, 10**10 + 1, 2**33 + 7]), rng.choice([1001, 1001, 3, 7])
    if fam == "int":
        return rng.choice([1, 10, 100, 1000, 48000, 10**6, 25 * 10**6, rng.randint(1, 10**7)]), 1
    if fam == "third":
        return rng.choice([10, 26, 10**6, rng.randint(1, 10**7)]), 3
    if fam == "seventh":
        return rng.choice([10**8, 10**6, 200, rng.randint(1, 10**8)]), 7
    if fam == "x1001":
        return rng.choice([30000, 60000, 24000]), 1001
    if fam == "small":
        return rng.randint(1, 60), rng.randint(1, 60)
    if fam == "tiny":
        return rng.choice([(1, 1), (10, 1), (100, 1), (10, 3), (26, 3), (200, 7), (3, 2), (7, 5), (50, 1)])
    return 1, rng.choice([2, 3, 5, 7])


def random_config(rng, schema, small=False, huge=False):
    """a metadata channel at real scale whose modelled windows span < 2^31 indices; small: few samples per file (C20 trees
    carry RF data of the same rate)"""
    for _ in range(500):
        n, d = random_rate(rng, small, huge)
        fc = rng.choice([1, 1, 2, 3, 5, 10, 60, 3600]) if not small else rng.choice([1, 2, 3])
        cap_num, cap_den = fc * n, d          # samples per file = cap_num / cap_den
        if cap_num * 8 < cap_den:             # fewer than one sample per 8 files: too sparse to be interesting
            continue
        if small and not (2 * cap_den <= cap_num <= 300 * cap_den):
            continue
        nw = rng.randint(3, 10)
        if cap_num < cap_den * 2:
            nw = max(nw, min(64, (12 * cap_den) // cap_num + 1))
        cap = -(-cap_num // cap_den)
        nw = min(nw, (2**31 - 2) // max(1, cap) - 1)
        if nw < 2:
            continue
        sc = fc * rng.choice([1, 2, 3, 10, 60, 1000])
        y = rng.choice(YEARS + [rng.randint(1980, 2099)])
        t = calendar.timegm((y, rng.randint(1, 12), rng.randint(1, 28), rng.randint(0, 23), rng.randint(0, 59), rng.randint(0, 59)))
        j0 = t // fc
        if rng.random() < 0.6:
            j0 = ((t // sc) * sc) // fc - rng.randint(1, nw - 1)   # a subdirectory boundary inside the modelled windows
        special = []
        if not small and rng.random() < 0.25:
            # low absolute indices: a power of ten (where the number of digits of the sample index changes) inside a
            # middle window, so that one file holds sample names of different lengths
            P = 10 ** rng.randint(1, 11)
            while P > 10 and (P * d) // n >= 4102444800:      # keep the time of index P before 2100
                P //= 10
            jP = (P * d // n) // fc
            j0 = max(0, jP - rng.randint(1, max(1, nw - 2)))
            special = [P - 2, P - 1, P, P + 1]
        cfg = md.MdConfig(n, d, fc, sc, j0, nw, schema)
        if cfg.bound[-1] < 6 or cfg.bound_real[-1] >= 2**62:
            continue
        cfg.special = [x - cfg.base for x in special if 0 <= x - cfg.base < cfg.bound[-1]]
        return cfg
    raise md.DriverError("no configuration found")


# ---- schemas and values ------------------------------------------------------------------------------------------------
LEAF_POOL = {
    "alpha": "int", "beta": "float", "name": "str", "flag": "bool", "cplx": "complex", "vec": "vec", "mat": "mat",
}
NESTED = {"sub": {"x": "int", "deep": {"y": "str", "w": "vec"}}}


def random_schema(rng, uniform):
    """returns (template, leaves): template is a nested dict of leaf types; leaves the sorted flattened paths"""
    scal = ["alpha", "beta", "name", "flag"]
    tops = rng.sample(scal, rng.randint(1, 3))
    if not uniform:
        tops += rng.sample(["cplx", "vec", "mat"], rng.randint(1, 3))
    tpl = {t: LEAF_POOL[t] for t in tops}
    if rng.random() < 0.7:
        tpl["sub"] = {"x": "int", "deep": {"y": "str"}} if uniform else NESTED["sub"]
    return tpl, sorted(md.flatten(tpl))


def _text(rng, n=None):
    n = n if n is not None else rng.randint(1, 8)
    alphabet = "abcdefghijklmnopqrstuvwxyzABC 0123_-" + ("éü" if rng.random() < 0.2 else "")
    return "".join(rng.choice(alphabet) for _ in range(n)) or "x"


def _scalar(rng, typ):
    if typ == "int":
        return rng.choice([rng.randint(-5, 5), rng.randint(-2**40, 2**40), np.int32(rng.randint(-1000, 1000)), np.uint8(rng.randint(0, 255))])
    if typ == "float":
        return rng.choice([rng.randint(-1000, 1000) / 8.0, rng.random() * 1e6, np.float32(rng.randint(-100, 100) / 4.0), float(rng.randint(-3, 3))])
    if typ == "str":
        return _text(rng)
    if typ == "bool":
        return rng.random() < 0.5
    if typ == "complex":
        return complex(rng.randint(-9, 9), rng.randint(-9, 9) / 2.0)
    raise md.DriverError(typ)


def _array(rng, shape):
    dt = rng.choice(["i8", "i4", "f8", "f4", "u1"])
    size = int(np.prod(shape))
    if dt in ("f8", "f4"):
        vals = [rng.randint(-800, 800) / 8.0 for _ in range(size)]
    elif dt == "u1":
        vals = [rng.randint(0, 255) for _ in range(size)]
    else:
        vals = [rng.randint(-10**6, 10**6) for _ in range(size)]
    return np.array(vals, dtype=dt).reshape(shape)


def _other_len(rng, N):
    return rng.choice([x for x in (1, 2, 3, 4, 5, 7) if x != N])


def leaf_for_sample(rng, typ):
    """a value for one sample (list-of-dicts form, or a shared value)"""
    if typ in ("int", "float", "str", "bool", "complex"):
        return _scalar(rng, typ)
    if typ == "vec":
        r = rng.random()
        if r < 0.6:
            return _array(rng, (rng.randint(1, 5),))
        if r < 0.8:
            return [rng.randint(-9, 9) for _ in range(rng.randint(2, 4))]
        return [_text(rng) for _ in range(rng.randint(2, 3))]        # a list of strings stored whole
    if typ == "mat":
        if rng.random() < 0.3:
            # a table of names: a string array of two dimensions (stored whole)
            r, c = rng.randint(1, 3), rng.randint(1, 3)
            return [[_text(rng) for _ in range(c)] for _ in range(r)]
        return _array(rng, (rng.randint(1, 3), rng.randint(1, 4)))
    raise md.DriverError(typ)


def leaf_for_batch(rng, typ, N, uniform):
    """dict-of-arrays form: what is passed for one leaf of a call with N samples.  Exercises both sides of the documented
    rule: length == N and not a string -> one element per sample; anything else -> the whole value with every sample"""
    r = rng.random()
    if typ in ("int", "float", "bool", "complex"):
        if r < 0.35:
            return _scalar(rng, typ)                                     # shared scalar
        if r < 0.7 or uniform:
            return [_scalar(rng, typ) for _ in range(N)]                 # list, one per sample
        if r < 0.85:
            return _array(rng, (N,))                                     # 1-D array whose length is N: distributed
        return _array(rng, (_other_len(rng, N),))                        # 1-D array whose length is not N: whole
    if typ == "str":
        if r < 0.3:
            return _text(rng)
        if r < 0.55:
            return _text(rng, N)                                         # a string exactly as long as the batch: never distributed
        if r < 0.9 or uniform:
            return [_text(rng) for _ in range(N)]                        # list of N strings: distributed
        return [_text(rng) for _ in range(_other_len(rng, N))]           # list of strings of another length: whole
    if typ == "vec":
        if r < 0.3:
            return _array(rng, (_other_len(rng, N),))                    # whole
        if r < 0.5:
            return _array(rng, (N,))                                     # first dimension N: distributed into scalars
        if r < 0.8:
            return _array(rng, (N, rng.randint(1, 4)))                   # 2-D, first dimension N: one row per sample
        return [_array(rng, (rng.randint(1, 4),)) for _ in range(N)]     # list of N arrays of different lengths
    if typ == "mat":
        if r < 0.35:
            return _array(rng, (_other_len(rng, N), rng.randint(1, 3)))  # 2-D whose first dimension is not N: whole
        if r < 0.7:
            return _array(rng, (N, rng.randint(1, 3)))                   # 2-D whose first dimension is N: rows
        return _array(rng, (N, 2, rng.randint(1, 3)))                    # 3-D: one matrix per sample
    raise md.DriverError(typ)


def build(tpl, fn):
    return {k: (build(v, fn) if isinstance(v, dict) else fn(v)) for k, v in tpl.items()}


def make_data(rng, tpl, form, N, uniform, allow_empty=False, force_empty=False):
    if form == "list":
        out = [build(tpl, lambda t: leaf_for_sample(rng, t)) for _ in range(N)]
        # a sample without any field is a sample too (never the first one of a channel: the writer takes the channel's
        # field names from it)
        if allow_empty and not uniform and (force_empty or rng.random() < 0.2):
            out[rng.randrange(N)] = {}
        return out
    if form == "single":
        return build(tpl, lambda t: leaf_for_sample(rng, t) if rng.random() < 0.85 or uniform else leaf_for_batch(rng, t, 1, uniform))
    return build(tpl, lambda t: leaf_for_batch(rng, t, N, uniform))


# ---- histories ----------------------------------------------------------------------------------------------------------
def next_indices(rng, cfg, top, N):
    """N ascending indices above `top`, biased to file boundaries and their neighbours"""
    out = []
    cur = top
    limit = cfg.bound[-1] - 1
    for _ in range(N):
        if cur >= limit:
            break
        later = [b for b in cfg.bound[:-1] if b > cur]
        nb = later[0] if later else None
        cands = [cur + 1, cur + 1, cur + rng.randint(2, 6)]
        if nb is not None:
            cands += [nb, nb, nb + 1, nb - 1 if nb - 1 > cur else nb]
            cands += [rng.choice(later), rng.choice(later) + rng.choice([0, 1, -1])]
        cands.append(rng.randint(cur + 1, limit))
        sp = [x for x in getattr(cfg, "special", []) if x > cur]
        if sp:
            cands += [sp[0], sp[0], sp[0]]
        k = rng.choice([c for c in cands if cur < c <= limit] or [cur + 1])
        out.append(k)
        cur = k
    return out


def interesting_points(cfg, stored):
    limit = cfg.bound[-1] - 1
    ip = set()
    for k in stored:
        ip.update((k - 1, k, k + 1))
    for b in cfg.bound:
        ip.update((b - 1, b, b + 1))
    s = sorted(stored)
    for x, y in zip(s, s[1:]):
        if y - x >= 2:
            ip.add((x + y) // 2)      # strictly between two samples (same file or not)
    return sorted(p for p in ip if 0 <= p <= limit)


def observe(w, rng, mdreaders, stored, tops, nreads, uniform, rfreaders=(), every_reader=False):
    ip = interesting_points(w.cfg, stored)
    for i in range(nreads):
        a = rng.choice(ip)
        r = rng.random()
        if r < 0.3:
            b = a
        elif r < 0.6:
            b = rng.choice([p for p in ip if p >= a][:4])
        else:
            b = rng.choice([p for p in ip if p >= a])
        method = rng.choice(["none", "ffill"])
        c = rng.random()
        if c < 0.6:
            cols, colform = [], "list"
        elif c < 0.8:
            cols, colform = [rng.choice(tops)], rng.choice(["str", "list"])
        else:
            cols, colform = sorted(rng.sample(tops, rng.randint(1, len(tops)))), "list"
        if w.sparse:
            cols, colform = [], "list"     # a column read over a sample that does not have the column: not defined
        api = "flatdict" if (uniform and rng.random() < 0.25) else "read"
        if api == "flatdict":
            colform = "list"
        for rid in (mdreaders if every_reader else [rng.choice(mdreaders)]):
            w.read(rid, a, b, cols, method, api=api, colform=colform)
        if rfreaders and rng.random() < 0.5:
            for rid in (rfreaders if every_reader else [rng.choice(rfreaders)]):
                w.read(rid, a, b, [], rng.choice(["none", "ffill"]), api="rfmeta")
    for rid in (mdreaders if every_reader else [rng.choice(mdreaders)]):
        w.bounds(rid)
        w.latest(rid)
        if rng.random() < 0.5:
            w.fields(rid)


def dup_call(w, rng, tpl, stored, uniform):
    """an attempt to write an index that already exists; stays inside the property's ascending quantifier: the call
    starts with the existing index, or it repeats its own last (new) index"""
    top = max(stored)
    r = rng.random()
    if r < 0.25 and w.writer is not None:
        # the same index described with other field names: still a duplicate
        w.write_other_fields(rng.choice(sorted(stored)), make_data(rng, tpl, "single", 1, True))
        return set()
    if r < 0.4:
        idxs = [rng.choice(sorted(stored))]
    elif r < 0.7:
        idxs = [rng.choice(sorted(stored))] + next_indices(rng, w.cfg, top, rng.randint(1, 2))
    else:
        new = next_indices(rng, w.cfg, top, rng.randint(1, 3))
        if not new:
            idxs = [top]
        else:
            idxs = new + [new[-1]]
    N = len(idxs)
    form = rng.choice(["single", "dict", "list"]) if N == 1 else rng.choice(["dict", "list"])
    ev = w.write(form, idxs, make_data(rng, tpl, form, N, uniform, allow_empty=True))
    return set(ev["stored"])


def random_c12(digital_rf, root, rng, name, strat=0):
    """strat: a running scenario number; every sixth scenario uses a rate at which index * denominator exceeds 2^64"""
    uniform = rng.random() < 0.35
    tpl, leaves = random_schema(rng, uniform)
    cfg = random_config(rng, leaves, huge=strat % 6 == 5)
    w = md.MdWorld(digital_rf, root, cfg)
    tops = cfg.tops()
    readers = [1]
    w.new_reader(1, "md")            # created before the first write
    if rng.random() < 0.3:
        observe(w, rng, readers, set(), tops, 2, uniform)
    stored = set()
    sp = getattr(cfg, "special", [])
    if len(sp) >= 3:
        # a file whose sample names change their number of digits (P-1, P), with samples in the file before and after it,
        # so that a read across all of them has that file in the middle
        wP = max(j for j in range(cfg.nw) if cfg.bound[j] <= sp[2])
        plan = []
        if wP >= 1 and cfg.bound[wP - 1] < sp[1]:
            plan.append([cfg.bound[wP - 1]])
        plan.append([k for k in (sp[1], sp[2]) if cfg.bound[wP] <= k])
        if wP + 1 < cfg.nw and cfg.bound[wP + 1] > sp[2]:
            plan.append([cfg.bound[wP + 1]])
        for idxs in plan:
            idxs = [k for k in idxs if (not stored or k > max(stored)) and k < cfg.bound[-1]]
            if idxs:
                form = "single" if len(idxs) == 1 else rng.choice(["dict", "list"])
                ev = w.write(form, idxs, make_data(rng, tpl, form, len(idxs), uniform))
                stored |= set(idxs) if ev["resp"] == "ok" else set(ev["stored"])
        if stored:
            for rid in readers:
                w.read(rid, min(stored), max(stored), [], "none")
    ncalls = rng.randint(3, 8)
    for c in range(ncalls):
        top = max(stored) if stored else -1
        if stored and rng.random() < 0.22:
            stored |= dup_call(w, rng, tpl, stored, uniform)
        else:
            form = rng.choice(["single", "dict", "dict", "list"])
            want_empty = bool(stored) and not uniform and not w.sparse and c >= ncalls // 2
            if want_empty:
                form = "list"        # every second non-uniform scenario holds a sample without fields
            N = 1 if form == "single" else rng.choice([1, 2, 2, 3, 3, 4, 6])
            if not stored and rng.random() < 0.5:
                top = rng.choice(cfg.bound[:-1]) + rng.choice([-1, 0, 0, 1]) - 1   # start on / around a file boundary
                top = max(-1, top)
            idxs = next_indices(rng, cfg, top, N)
            if not idxs:
                break
            if form == "single":
                idxs = idxs[:1]
            ev = w.write(form, idxs, make_data(rng, tpl, form, len(idxs), uniform, allow_empty=bool(stored),
                                               force_empty=want_empty and rng.random() < 0.5))
            if ev["resp"] == "ok":
                stored |= set(idxs)
            else:
                stored |= set(ev["stored"])
        if c == ncalls // 2:
            readers.append(2)
            w.new_reader(2, "md")
        observe(w, rng, readers, stored, tops, rng.randint(3, 7), uniform)
    readers.append(3)
    w.new_reader(3, "md")
    observe(w, rng, readers, stored, tops, 25, uniform, every_reader=rng.random() < 0.3)
    return w.scenario(name, dict(uniform=uniform, schema=leaves))


def random_c20(digital_rf, root, rng, name, strat=0):
    """call-granularity interleaving of metadata writes, RF writes, reader construction and read-only calls by one old and one
    new reader of each kind on one tree; the tree is hashed (names, sizes, mtimes, bytes) around every call"""
    uniform = rng.random() < 0.5
    tpl, leaves = random_schema(rng, uniform)
    cfg = random_config(rng, leaves, small=True)
    cap = max(1, (cfg.fc * cfg.n) // cfg.d)
    late_md = rng.random() < 0.3      # the metadata channel comes into being with its first write call
    w = md.MdWorld(digital_rf, root, cfg, deep=True, rf=dict(fc_ms=cfg.fc * 1000, sc=cfg.sc, cont=rng.random() < 0.5), late_md=late_md)
    tops = cfg.tops()
    nid = [0]

    def newr(kind):
        nid[0] += 1
        w.new_reader(nid[0], kind)
        return nid[0]

    old_md = None if late_md else newr("md")      # before the first metadata write
    w.rf_write(rng.randint(1, cap + 1))
    old_rf = newr("rf")      # before the first metadata write; RF data partly still in the open tmp file
    if late_md or rng.random() < 0.3:
        # asked for the channel's metadata while there is none yet
        w.read(old_rf, 0, rng.randint(0, 5), [], rng.choice(["none", "ffill"]), api="rfmeta")
    stored = set()
    known = set()
    late_first = rng.random() < 0.4
    steps = rng.randint(8, 16)
    for _ in range(steps):
        r = rng.random()
        if r < 0.45:
            top = max(stored) if stored else -1
            if stored and rng.random() < 0.15:
                stored |= dup_call(w, rng, tpl, stored, uniform)
            else:
                form = rng.choice(["single", "dict", "list"])
                want_empty = bool(stored) and not uniform and not w.sparse and len(stored) >= 2
                if want_empty:
                    form = "list"
                N = 1 if form == "single" else rng.choice([1, 2, 3])
                if not stored and late_first:
                    # the recording starts late: earlier periods (and their subdirectories) are filled in afterwards, when
                    # the long-lived readers have already looked at the channel
                    top = rng.choice(cfg.bound[len(cfg.bound) // 2:-1]) - 1
                if stored and rng.random() < (0.6 if late_first else 0.3):
                    # C20 speaks of all interleavings of write calls: a call may also fill in indices below what is stored
                    # (nothing that exists)
                    top = rng.randint(-1, max(stored) - 1)
                    if late_first and rng.random() < 0.5:
                        top = rng.randint(-1, max(-1, min(stored) - 1))       # below everything stored so far
                idxs = [k for k in next_indices(rng, cfg, top, N) if k not in stored]
                if len(idxs) >= 2 and rng.random() < 0.35:
                    # the indices of one call in any order; often with the middle one in another file than the two ends
                    far = [b for b in cfg.bound[:-1] if b > idxs[-1] and b not in stored]
                    if far and len(idxs) == 2 and rng.random() < 0.6:
                        idxs = [idxs[0], rng.choice(far[:2]), idxs[1]]
                    else:
                        rng.shuffle(idxs)
                if idxs:
                    ev = w.write(form, idxs, make_data(rng, tpl, form, len(idxs), uniform, allow_empty=bool(stored),
                                                       force_empty=want_empty and rng.random() < 0.5))
                    stored |= set(idxs) if ev["resp"] == "ok" else set(ev["stored"])
        elif r < 0.75:
            w.rf_write(rng.choice([1, rng.randint(1, cap), cap, cap + 1, 2 * cap + 1]))
        if rng.random() < 0.25:
            w.age(cfg.fc + rng.randint(1, 7200))       # every file is now older than the file cadence
        # a round of read-only calls by old and new readers of each kind
        if old_md is None and not stored:
            # no metadata channel yet: only the RF readers can be asked
            new_rf = newr("rf")
            for rid in (old_rf, new_rf):
                w.read(rid, 0, rng.randint(0, 5), [], rng.choice(["none", "ffill"]), api="rfmeta")
                for what in rng.sample(["channels", "props", "bounds", "read", "blocks", "fileprops"], 2):
                    w.rf_obs(rid, what)
            continue
        new_md, new_rf = newr("md"), newr("rf")
        if old_md is None:
            old_md = new_md
        mdr, rfr = [old_md, new_md], [old_rf, new_rf]
        if stored:
            # the samples just written (wherever they lie: the newest one, or one filled in below) must be visible to both
            fresh = sorted(stored - known)[:3] or [max(stored)]
            known = set(stored)
            for rid in mdr:
                w.bounds(rid)
                for k in fresh:
                    w.read(rid, k, k, [], "none")
                w.latest(rid)
            for rid in rfr:
                for k in fresh[:2]:
                    w.read(rid, k, k, [], rng.choice(["none", "ffill"]), api="rfmeta")
        observe(w, rng, mdr, stored, tops, rng.randint(1, 3), uniform, rfreaders=rfr, every_reader=True)
        for rid in rfr:
            for what in rng.sample(["channels", "props", "bounds", "read", "blocks", "fileprops"], 3):
                w.rf_obs(rid, what)
        for what in rng.sample(["all", "dmd", "drf", "reverse", "window", "channel"], 2):
            w.listing(what)
    return w.scenario(name, dict(uniform=uniform, schema=leaves, anyorder=True))


# ---- E2: behaviours of MCMetadata on the real code -------------------------------------------------------------------------
MODEL_SCHEMA = ["a", "b", "n/x"]
# (n, d, fc): three indices per file, as in the model (FileSize = 3)
REALISATIONS = [(1, 1, 3), (3, 1, 1), (3, 2, 2), (3, 7, 7), (6, 4, 2)]
BASE_TIMES = [315532800 + 86400 * 77, 2145916800 - 3600, 4070908800 + 12345, 1700000000]


def model_config(i, nw):
    n, d, fc = REALISATIONS[i % len(REALISATIONS)]
    sc = fc * [1, 2, 1200, 4][i % 4]
    t = BASE_TIMES[(i // 2) % len(BASE_TIMES)]
    j0 = (t // sc) * sc // fc + [0, -1, 1, -2][i % 4]      # windows straddle a subdirectory boundary in three of four cases
    return md.MdConfig(n, d, fc, sc, j0, nw, MODEL_SCHEMA)


def _model_b(w, i):
    if w["form"] == "list":
        return w["recs"][i][1]
    fd = w["fields"][1]
    return fd["elems"][i] if (not fd["isstr"] and fd["len"] == len(w["idxs"])) else fd["whole"]


def model_data(w):
    """real values realising the abstract request of the model: distinct ids <-> distinct values"""
    idxs = w["idxs"]
    N = len(idxs)
    val = lambda i: 1000 + _model_b(w, i)
    var = w["var"]
    if var == "single":
        return {"a": "s", "b": val(0), "n": {"x": 3}}
    if var == "single1":
        return {"a": "s", "b": np.array([val(0)]), "n": {"x": 3}}
    if var == "dictD":
        return {"a": "s" * N, "b": np.array([1000 + e for e in w["fields"][1]["elems"]]), "n": {"x": 3}}
    if var == "dictW":
        return {"a": "s" * N, "b": np.array([1000 + e for e in w["fields"][1]["elems"]]), "n": {"x": 3}}
    if var == "list":
        return [{"a": "s", "b": val(i), "n": {"x": 3}} for i in range(N)]
    raise md.DriverError(var)


def replay_behaviour(digital_rf, root, beh, i, rng, tla_to_py, deep, name):
    c0 = tla_to_py(beh[0][1]["cfg"])
    nw = len(c0["sec"])
    cfg = model_config(i, nw)
    if cfg.bound != c0["bound"]:
        raise md.DriverError("realisation %s does not realise the model partition %s: %s" % (cfg.describe(), c0["bound"], cfg.bound))
    w = md.MdWorld(digital_rf, root, cfg, deep=deep, rf=dict(fc_ms=cfg.fc * 1000, sc=cfg.sc, cont=False))
    has_whole = any(tla_to_py(st["last"])["a"] in ("WriteBatch", "WriteDup") and tla_to_py(st["last"])["w"]["var"] == "dictW"
                    for _, st in beh[1:])
    mismatches = []
    for step, (act, st) in enumerate(beh[1:], 1):
        last = tla_to_py(st["last"])
        a = last["a"]
        if a in ("WriteBatch", "WriteDup"):
            mw = last["w"]
            ev = w.write(mw["form"], mw["idxs"], model_data(mw))
            # the projected state of the implementation against the state TLC printed
            mstore = tla_to_py(st["store"])
            mkeys = sorted(mstore.keys()) if isinstance(mstore, dict) else list(range(1, len(mstore) + 1))
            rkeys = sorted(r[0] for f in ev["files"] for r in f["rows"])
            mfiles = [sorted(x["$set"]) for x in tla_to_py(st["mfiles"])]
            rfiles = [[] for _ in mfiles]
            for f in ev["files"]:
                j = f["t"] // cfg.fc
                if 0 <= j < len(rfiles) and f["t"] % cfg.fc == 0:
                    rfiles[j] = sorted(r[0] for r in f["rows"])
                else:
                    rfiles.append(["stray", f["t"]])
            if a == "WriteDup" and sorted(ev["stored"]) != sorted(last["S"]["$set"]):
                # the specification leaves open which other samples of a refused call are stored; the implementation chose
                # differently from this behaviour, so the rest of the behaviour does not start from the real state: stop here
                # (TLC still decides whether the choice made is an allowed one)
                break
            if mkeys != rkeys or mfiles != rfiles:
                mismatches.append(dict(step=step, action=a, model_store=mkeys, real_store=rkeys, model_files=mfiles, real_files=rfiles))
        elif a == "RFWrite":
            w.rf_write(rng.randint(1, 7))
        elif a == "NewReader":
            if deep and rng.random() < 0.3:
                w.age(cfg.fc + rng.randint(1, 7200))
            kind = tla_to_py(st["readers"])
            kind = kind[last["r"]]["kind"] if isinstance(kind, dict) else kind[last["r"] - 1]["kind"]
            w.new_reader(last["r"], kind)
        elif a in ("Read", "RFMeta"):
            q = last["q"]
            cols = list(q["cols"])
            colform = "str" if (len(cols) == 1 and rng.random() < 0.5) else "list"
            api = "rfmeta" if a == "RFMeta" else ("flatdict" if (not has_whole and colform == "list" and rng.random() < 0.2) else "read")
            w.read(last["r"], q["a"], q["b"], cols, q["method"], api=api, colform=colform)
        elif a == "Bounds":
            w.bounds(last["r"])
        elif a == "Latest":
            w.latest(last["r"])
        elif a == "Fields":
            w.fields(last["r"])
        elif a == "RFObs":
            w.rf_obs(last["r"], last["q"]["what"])
        elif a == "List":
            w.listing(rng.choice(["all", "dmd", "drf", "reverse", "window", "channel"]))
        else:
            raise md.DriverError("unknown action in behaviour: %s" % a)
    return w.scenario(name, dict(uniform=not has_whole, schema=MODEL_SCHEMA)), mismatches
