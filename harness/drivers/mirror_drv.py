"""Drive a real DigitalRFMirror over real recordings and record one event per Mirror.tla action (property C17).

* recordings are written with the tree-built DigitalRFWriter / DigitalMetadataWriter (1-2 channels);
* DigitalRFMirror is constructed normally, then its `.observer` is replaced by a stub, so that its real
  start() replay and its real event handlers (driven through dispatch()) run synchronously in this process;
* while the mirror runs, os.rename / link / makedirs / rmdir / remove / unlink, the data copy of shutil
  (shutil.copyfile, used by copy2 and by the copy+unlink path of shutil.move) and filecmp.cmp are wrapped:
  each call is logged as one operation together with the projection of both trees taken right after it,
  and operation number i can be made to raise a `Crash` (a BaseException: the process "dies" before it);
* the data copy is done in two logged halves, so a crash between them leaves a half-copied tmp. file;
* the EXDEV variant makes rename / link across the two trees fail the way two file systems do.

This module decodes and projects only; every judgement is made by TLC on MirrorTrace.tla."""
import contextlib
import datetime
import errno
import filecmp
import hashlib
import io
import os
import shutil

import numpy as np
import watchdog.events as wev

_real = dict(
    rename=os.rename, link=os.link, makedirs=os.makedirs, rmdir=os.rmdir, remove=os.remove, unlink=os.unlink,
    copyfile=shutil.copyfile, cmp=filecmp.cmp,
)

EPOCH = datetime.datetime(1970, 1, 1, tzinfo=datetime.timezone.utc)
ABSENT, FULL, PART = 0, 1, 2


class Crash(BaseException):
    """the mirror process dies between two file-system operations"""


# ---------------------------------------------------------------------------------------------------
# recordings
# ---------------------------------------------------------------------------------------------------
def _sha1(path):
    h = hashlib.sha1()
    with open(path, "rb") as fh:
        h.update(fh.read())
    return h.hexdigest()


class Recording:
    """A source tree written by the real writers, kept as a pristine template."""

    def __init__(self, digital_rf, root, seed, nch=1, name="rec", fc_ms=None):
        import random

        rng = random.Random(seed)
        self.params = dict(seed=seed, nch=nch, name=name, fc_ms=fc_ms)   # enough to write the same recording again
        force_fc = fc_ms
        self.root = root
        self.name = name
        if os.path.exists(root):
            shutil.rmtree(root)
        os.makedirs(root)
        self.desc = []
        t0 = 1500000000 + rng.randrange(0, 4 * 10**8)
        for c in range(nch):
            ch = "ch%d" % c
            chdir = os.path.join(root, ch)
            os.makedirs(chdir)
            fs = rng.choice([10, 100, 250])
            fc_ms = rng.choice([1000, 500, 2000])
            if force_fc:
                fc_ms = force_fc
            per_file = fs * fc_ms // 1000
            sc = rng.choice([2, 4, 3600])
            sc = max(sc, fc_ms // 1000)
            if (sc * 1000) % fc_ms:
                sc = 3600
            nfiles = rng.randint(2, 5)
            start_t = (t0 + c) // sc * sc + rng.choice([0, fc_ms // 1000 if fc_ms >= 1000 else 0])
            start = start_t * fs
            w = digital_rf.DigitalRFWriter(chdir, np.int16, sc, fc_ms, start, fs, 1, "c17-%d" % c, 0, False, False, 1,
                                           False, False)
            pos = 0
            skip = rng.randrange(nfiles) if (nfiles >= 3 and rng.random() < 0.4) else -1
            for k in range(nfiles):
                if k == skip:
                    pos += per_file      # a gap of one whole file
                    continue
                data = ((np.arange(pos, pos + per_file, dtype=np.int64) * 7919 + c * 131) % 65536 - 32768).astype(np.int16)
                w.rf_write(data, pos)
                pos += per_file
            w.close()
            nmd = 0
            if c == 0 or rng.random() < 0.5:
                mddir = os.path.join(chdir, "metadata")
                os.makedirs(mddir)
                mfc = rng.choice([1, 2])
                msc = rng.choice([2, 4, 3600])
                if msc % mfc:
                    msc = 3600
                mw = digital_rf.DigitalMetadataWriter(mddir, msc, mfc, fs, 1, "metadata")
                nmd = rng.randint(2, 4)
                for k in range(nmd):
                    idx = start + k * mfc * fs + rng.randrange(0, mfc * fs)
                    mw.write(idx, {"k": k, "v": float(k) * 0.5, "s": "m%d" % k})
                    if rng.random() < 0.4:
                        idx2 = (idx // (mfc * fs) + 1) * (mfc * fs) - 1
                        if idx2 > idx:
                            mw.write(idx2, {"k": k + 100, "v": 1.0, "s": "x"})
            self.desc.append("%s: %d Hz, %d ms files, %d s subdirs, %d rf files%s, %d md files" % (
                ch, fs, fc_ms, sc, nfiles - (skip >= 0), " (one period skipped)" if skip >= 0 else "", nmd))
        self._scan()
        self.rd_truth = read_back(digital_rf, root)

    def _scan(self):
        from digital_rf import list_drf

        re_rf = list_drf._RE_DRFFILE
        re_md = list_drf._RE_DMDFILE
        files = []
        for d, _, names in os.walk(self.root):
            for n in names:
                p = os.path.join(d, n)
                rel = os.path.relpath(p, self.root)
                parts = rel.split(os.sep)
                if n in ("drf_properties.h5", "dmd_properties.h5"):
                    files.append(dict(rel=rel, kind="pr", sub="drf" if n.startswith("drf") else "dmd", chpath=os.path.dirname(rel),
                                      prefix=n, ms=0, mtime=os.stat(p).st_mtime_ns))
                    continue
                m = re_rf.match(n)
                if m and len(parts) >= 3:
                    files.append(dict(rel=rel, kind="rf", sub="drf", chpath=os.sep.join(parts[:-2]), prefix=m.group("name"),
                                      ms=int(m.group("secs")) * 1000 + int(m.group("frac")), mtime=os.stat(p).st_mtime_ns))
                    continue
                m = re_md.match(n)
                if m and len(parts) >= 3:
                    files.append(dict(rel=rel, kind="md", sub="dmd", chpath=os.sep.join(parts[:-2]), prefix=m.group("name"),
                                      ms=int(m.group("secs")) * 1000, mtime=os.stat(p).st_mtime_ns))
                    continue
                raise RuntimeError("the writers produced an unexpected file: " + rel)
        # the order in which the writers finalized the files
        files.sort(key=lambda f: (f["mtime"], f["rel"]))
        base = min([f["ms"] for f in files if f["kind"] != "pr"])
        groups = {}
        for f in files:
            f["grp"] = groups.setdefault((f["chpath"], f["prefix"]), len(groups))
            f["key"] = 0 if f["kind"] == "pr" else (f["ms"] - base)
            f["sha1"] = _sha1(os.path.join(self.root, f["rel"]))
        self.files = files
        self.base_ms = base
        self.by_rel = {}
        for i, f in enumerate(files):
            self.by_rel[f["rel"]] = ("final", i + 1)
            d, n = os.path.split(f["rel"])
            self.by_rel[os.path.join(d, "tmp." + n)] = ("tmp", i + 1)

    def ids(self, kind):
        return [i + 1 for i, f in enumerate(self.files) if f["kind"] == kind]

    def newest_md(self):
        out = set()
        for i, f in enumerate(self.files):
            if f["kind"] == "md" and all(g["key"] <= f["key"] for g in self.files if g["kind"] == "md" and g["grp"] == f["grp"]):
                out.add(i + 1)
        return out


def read_back(digital_rf, root):
    """what readers see in a tree: per RF channel bounds and a digest of every continuous block, per metadata
    channel bounds and a digest of all samples.  Large integers are written as strings (TLC integers are 32 bit)."""
    out = []
    try:
        rd = digital_rf.DigitalRFReader(root)
        chans = sorted(rd.get_channels())
    except Exception as e:  # no channel at all
        return [["reader", type(e).__name__]]
    for ch in chans:
        try:
            b0, b1 = rd.get_bounds(ch)
            if b0 is None:
                out.append([ch, "empty"])
                continue
            blocks = rd.read(b0, b1, ch)
            h = hashlib.sha1()
            for s in sorted(blocks):
                h.update(str(int(s)).encode())
                h.update(np.ascontiguousarray(blocks[s]).tobytes())
            out.append([ch, str(int(b0)), str(int(b1)), str(len(blocks)), h.hexdigest()])
        except Exception as e:
            out.append([ch, "raised", type(e).__name__])
        mdd = os.path.join(root, ch, "metadata")
        if os.path.isdir(mdd):
            try:
                mr = digital_rf.DigitalMetadataReader(mdd)
                m0, m1 = mr.get_bounds()
                d = mr.read(m0, m1)
                h = hashlib.sha1()
                for s in sorted(d):
                    h.update(str(int(s)).encode())
                    h.update(repr(sorted((k, repr(v)) for k, v in d[s].items())).encode())
                out.append([ch + "/metadata", str(int(m0)), str(int(m1)), str(len(d)), h.hexdigest()])
            except Exception as e:
                out.append([ch + "/metadata", "raised", type(e).__name__])
    return out


# ---------------------------------------------------------------------------------------------------
# one mirror world: trees, hooks, projection, event log
# ---------------------------------------------------------------------------------------------------
class _StubObserver:
    def start(self):
        pass

    def stop(self):
        pass

    def join(self, *a):
        pass

    def all_alive(self):
        return True

    def schedule(self, *a, **k):
        pass


class World:
    def __init__(self, digital_rf, rec, work, opts):
        self.drf = digital_rf
        self.rec = rec
        self.opts = opts
        self.src = os.path.join(work, "src")
        self.dst = os.path.join(work, "dst")
        for p in (self.src, self.dst):
            if os.path.exists(p):
                shutil.rmtree(p)
        shutil.copytree(rec.root, self.src)
        self.events = []
        self.opn = 0
        self.crash_at = None
        self.armed = False        # crash rule of spec behaviours: die before the first operation that follows
        self.arm_after = 0        # `arm_after` successful tree-changing operations counted from the arming
        self.changed = 0
        self.hcache = {}
        self.cur_event = None
        self.cur_kind = None
        self.mirror = None
        self.in_makedirs = False
        self.tracebacks = 0

    # ---- projection ---------------------------------------------------------
    def _content(self, path, f):
        try:
            st = os.stat(path)
        except OSError:
            return ABSENT
        key = (st.st_ino, st.st_size, st.st_mtime_ns, st.st_ctime_ns)
        h = self.hcache.get(key)
        if h is None:
            try:
                h = _sha1(path)
            except OSError:
                return ABSENT
            if len(self.hcache) > 4000:
                self.hcache.clear()
            self.hcache[key] = h
        return FULL if h == f["sha1"] else PART

    def project(self):
        src, srcT, dstF, dstT = [], [], [], []
        for f in self.rec.files:
            d, n = os.path.split(f["rel"])
            src.append(self._content(os.path.join(self.src, f["rel"]), f))
            srcT.append(self._content(os.path.join(self.src, d, "tmp." + n), f))
            dstF.append(self._content(os.path.join(self.dst, f["rel"]), f))
            dstT.append(self._content(os.path.join(self.dst, d, "tmp." + n), f))
        stray = 0
        for root in (self.src, self.dst):
            for d, _, names in os.walk(root):
                for n in names:
                    if os.path.relpath(os.path.join(d, n), root) not in self.rec.by_rel:
                        stray += 1
        return dict(src=src, srcT=srcT, dstF=dstF, dstT=dstT, stray=stray)

    def classify(self, path):
        """[tree, class, file id] of a path: class final / tmp for the names of recorded files, dir, other"""
        p = os.path.abspath(os.fspath(path))
        for tree, root in (("src", self.src), ("dst", self.dst)):
            if p == root or p.startswith(root + os.sep):
                rel = os.path.relpath(p, root)
                hit = self.rec.by_rel.get(rel)
                if hit:
                    return [tree, hit[0], hit[1]]
                return [tree, "dir" if (os.path.isdir(p) or not os.path.splitext(p)[1]) else "other", 0]
        return None

    # ---- wrapped calls ------------------------------------------------------------
    def _point(self):
        """a point between two file-system operations of the mirror"""
        self.opn += 1
        if self.crash_at is not None and self.opn == self.crash_at:
            raise Crash()
        if self.armed and self.changed >= self.arm_after:
            raise Crash()

    def _log(self, fn, a, b, res):
        ev = dict(ev="op", n=self.opn, fn=fn, a=a, b=b or ["none", "none", 0], res=res)
        ev.update(self.project())
        self.events.append(ev)
        if res == "ok" and fn in ("copyb", "copye", "link", "rename", "remove"):
            self.changed += 1

    def _call(self, fn, a, b, do):
        self._point()
        try:
            r = do()
        except OSError as e:
            self._log(fn, a, b, "err")
            raise
        self._log(fn, a, b, "ok")
        return r

    def _cross(self, ca, cb):
        return self.opts.get("exdev") and ca and cb and ca[0] != cb[0]

    def w_rename(self, a, b, *args, **kw):
        ca, cb = self.classify(a), self.classify(b)
        if ca is None and cb is None:
            return _real["rename"](a, b, *args, **kw)

        def do():
            if self._cross(ca, cb):
                raise OSError(errno.EXDEV, "Invalid cross-device link", os.fspath(a))
            return _real["rename"](a, b, *args, **kw)
        return self._call("rename", ca or ["out", "other", 0], cb or ["out", "other", 0], do)

    def w_link(self, a, b, *args, **kw):
        ca, cb = self.classify(a), self.classify(b)
        if ca is None and cb is None:
            return _real["link"](a, b, *args, **kw)

        def do():
            if self._cross(ca, cb):
                # as linkat(2): an existing target is reported before the device check
                if os.path.lexists(b):
                    raise FileExistsError(errno.EEXIST, "File exists", os.fspath(b))
                raise OSError(errno.EXDEV, "Invalid cross-device link", os.fspath(a))
            return _real["link"](a, b, *args, **kw)
        return self._call("link", ca or ["out", "other", 0], cb or ["out", "other", 0], do)

    def w_makedirs(self, name, *args, **kw):
        ca = self.classify(name)
        if ca is None or self.in_makedirs:
            return _real["makedirs"](name, *args, **kw)

        def do():
            self.in_makedirs = True
            try:
                return _real["makedirs"](name, *args, **kw)
            finally:
                self.in_makedirs = False
        return self._call("makedirs", ca, None, do)

    def w_rmdir(self, name, *args, **kw):
        ca = self.classify(name)
        if ca is None:
            return _real["rmdir"](name, *args, **kw)
        return self._call("rmdir", ca, None, lambda: _real["rmdir"](name, *args, **kw))

    def w_remove(self, name, *args, **kw):
        ca = self.classify(name)
        if ca is None:
            return _real["remove"](name, *args, **kw)
        return self._call("remove", ca, None, lambda: _real["remove"](name, *args, **kw))

    def w_cmp(self, a, b, *args, **kw):
        ca, cb = self.classify(a), self.classify(b)
        if ca is None and cb is None:
            return _real["cmp"](a, b, *args, **kw)
        return self._call("cmp", ca or ["out", "other", 0], cb or ["out", "other", 0], lambda: _real["cmp"](a, b, *args, **kw))

    def w_copyfile(self, a, b, *args, **kw):
        """the data copy of shutil.copy2 / shutil.move, in two logged halves"""
        ca, cb = self.classify(a), self.classify(b)
        if ca is None and cb is None:
            return _real["copyfile"](a, b, *args, **kw)
        ca, cb = ca or ["out", "other", 0], cb or ["out", "other", 0]
        state = {}

        def first():
            with open(a, "rb") as fsrc:
                data = fsrc.read()
            state["data"] = data
            state["fh"] = open(b, "wb")
            state["fh"].write(data[: len(data) // 2])
            state["fh"].flush()
        try:
            self._call("copyb", ca, cb, first)

            def second():
                state["fh"].write(state["data"][len(state["data"]) // 2:])
                state["fh"].close()
            self._call("copye", ca, cb, second)
        finally:
            fh = state.get("fh")
            if fh is not None and not fh.closed:
                fh.close()
        return b

    @contextlib.contextmanager
    def hooks(self):
        saved = (os.rename, os.link, os.makedirs, os.rmdir, os.remove, os.unlink, shutil.copyfile, filecmp.cmp)
        os.rename, os.link, os.makedirs, os.rmdir = self.w_rename, self.w_link, self.w_makedirs, self.w_rmdir
        os.remove = os.unlink = self.w_remove
        shutil.copyfile = self.w_copyfile
        filecmp.cmp = self.w_cmp
        out, err = io.StringIO(), io.StringIO()
        try:
            with contextlib.redirect_stdout(out), contextlib.redirect_stderr(err):
                yield
        finally:
            (os.rename, os.link, os.makedirs, os.rmdir, os.remove, os.unlink, shutil.copyfile, filecmp.cmp) = saved
            self.tracebacks += err.getvalue().count("Traceback")

    # ---- the mirror ------------------------------------------------------------------
    def role_of(self, h):
        if hasattr(h, "records"):
            return "rb"
        return "move" if getattr(h, "mirror_fun", None) is shutil.move else "copy"

    def event_file(self, event):
        p = getattr(event, "dest_path", "") or event.src_path
        c = self.classify(p)
        return c[2] if c and c[1] == "final" else 0

    def _wrap_handler(self, h):
        role = self.role_of(h)
        real_dispatch = h.dispatch
        world = self

        def dispatch(event, **kw):
            if event is not world.cur_event:
                world.flush()
                world.cur_event = event
                world.cur_kind = {"created": "created", "modified": "modified", "moved": "moved", "deleted": "deleted"}.get(
                    event.event_type, "other")
                world.events.append(dict(ev="deliver", f=world.event_file(event), kind=world.cur_kind))
            world.events.append(dict(ev="begin", f=world.event_file(event), r=role))
            try:
                r = real_dispatch(event, **kw)
            except Crash:
                raise             # a dead process logs nothing
            except Exception:
                world.events.append(dict(ev="end", raised=True))
                raise
            world.events.append(dict(ev="end", raised=False))
            return r
        h.dispatch = dispatch

    def flush(self):
        if self.cur_event is not None:
            self.events.append(dict(ev="handled", kind=self.cur_kind))
            self.cur_event = None

    def new_mirror(self, ignore_existing=False):
        from digital_rf import mirror as mirror_mod

        o = self.opts
        kw = dict(method=o["method"], link=bool(o.get("link")), ignore_existing=ignore_existing,
                  include_drf=o.get("include_drf", True), include_dmd=o.get("include_dmd", True))
        if o.get("starttime_ms") is not None:
            kw["starttime"] = EPOCH + datetime.timedelta(milliseconds=o["starttime_ms"])
        if o.get("endtime_ms") is not None:
            kw["endtime"] = EPOCH + datetime.timedelta(milliseconds=o["endtime_ms"])
        m = mirror_mod.DigitalRFMirror(self.src, self.dst, **kw)
        m.observer = _StubObserver()
        for h in m.event_handlers:
            self._wrap_handler(h)
        self.mirror = m
        self.cur_event = None
        self.events.append(dict(ev="start"))
        return m

    def start(self, ignore_existing=False):
        m = self.new_mirror(ignore_existing)
        with self.hooks():
            m.start()
            self.flush()

    def path(self, f, tmp=False):
        rel = self.rec.files[f - 1]["rel"]
        if tmp:
            d, n = os.path.split(rel)
            rel = os.path.join(d, "tmp." + n)
        return os.path.join(self.src, rel)

    def deliver(self, kind, f):
        p = self.path(f)
        if kind == "created":
            ev = wev.FileCreatedEvent(p)
        elif kind == "modified":
            ev = wev.FileModifiedEvent(p)
        elif kind == "moved":     # the writer's finalizing rename tmp.<name> -> <name>
            ev = wev.FileMovedEvent(self.path(f, tmp=True), p)
        elif kind == "deleted":
            if os.path.exists(p):
                return False      # a deletion is only reported for a file that is gone
            ev = wev.FileDeletedEvent(p)
        else:
            raise ValueError(kind)
        with self.hooks():
            for h in self.mirror.event_handlers:
                h.dispatch(ev)
            self.flush()
        return True

    def vanish(self, f):
        p = self.path(f)
        if not os.path.exists(p):
            return False
        _real["remove"](p)
        ev = dict(ev="vanish", f=f)
        ev.update(self.project())
        self.events.append(ev)
        return True


def _consume(w, f):
    """somebody downstream takes file f out of the destination and prunes the directories this empties"""
    rel = w.rec.files[f - 1]["rel"]
    p = os.path.join(w.dst, rel)
    if not os.path.exists(p):
        return False
    _real["remove"](p)
    d = os.path.dirname(p)
    while os.path.abspath(d) != os.path.abspath(w.dst) and os.path.isdir(d) and not os.listdir(d):
        _real["rmdir"](d)
        d = os.path.dirname(d)
    ev = dict(ev="consume", f=f)
    ev.update(w.project())
    w.events.append(ev)
    return True


def selection(rec, opts):
    sel = []
    for f in rec.files:
        kind_ok = opts.get("include_drf", True) if f["sub"] == "drf" else opts.get("include_dmd", True)
        t_ok = True
        if f["kind"] != "pr":
            if opts.get("starttime_ms") is not None and f["ms"] < opts["starttime_ms"]:
                t_ok = False
            if opts.get("endtime_ms") is not None and f["ms"] > opts["endtime_ms"]:
                t_ok = False
        sel.append(bool(kind_ok and t_ok))
    return sel


def run_history(digital_rf, rec, work, name, opts, steps, crash_at=None, desc="", crash_rule=None):
    """Execute one history; returns (scenario object for MirrorTrace, number of operations of the first life).

    opts: method, link, exdev, starttime_ms, endtime_ms, include_drf, include_dmd
    steps: ("start", ignore_existing) | ("ev", kind, f) | ("vanish", f)
    crash_at: the mirror dies immediately before its crash_at-th wrapped operation; a new mirror is then
              started on the same trees (full start() replay) and the remaining events are delivered to it.
    crash_rule: (i, k) - the mirror dies while executing step i, before the operation that follows the k-th
              successful tree-changing operation of that step (or before the first operation after the step)."""
    w = World(digital_rf, rec, work, opts)
    w.crash_at = crash_at
    crashed = False
    vanished = False
    i = 0
    while i < len(steps):
        st = steps[i]
        if crash_rule and not crashed and i == crash_rule[0]:
            w.armed, w.arm_after, w.changed = True, crash_rule[1], 0
        i += 1
        try:
            if st[0] == "start":
                if crashed:
                    continue
                w.start(ignore_existing=st[1])
            elif st[0] == "ev":
                w.deliver(st[1], st[2])
            elif st[0] == "vanish":
                vanished = w.vanish(st[1]) or vanished
            elif st[0] == "consume":
                w.flush()
                vanished = _consume(w, st[1]) or vanished
        except Crash:
            crashed = True
            w.cur_event = None
            w.crash_at = None
            w.armed = False
            ev = dict(ev="crash", n=w.opn)
            ev.update(w.project())
            w.events.append(ev)
            try:
                w.start(ignore_existing=False)
            except Exception:
                w.cur_event = None
        except Exception:         # a handler raised: already logged as the end of its activation (raised = TRUE)
            w.cur_event = None
        if w.armed:
            w.arm_after = 0       # the step is over: the crash falls in front of the next operation
    nops = w.opn
    full = all(selection(rec, opts))
    q = dict(ev="quiesce")
    q.update(w.project())
    q["has_rd"] = bool(full and not crashed and not vanished)
    q["rd"] = read_back(digital_rf, w.dst) if q["has_rd"] else []
    w.events.append(q)
    cfg = dict(
        kind=[f["kind"] for f in rec.files], grp=[f["grp"] for f in rec.files], key=[f["key"] for f in rec.files],
        sel=selection(rec, opts), method=opts["method"], link=bool(opts.get("link") or opts["method"] == "link"),
        samefs=not opts.get("exdev"), maxdeliv=0, maxcrash=1, maxvanish=len(rec.files),
    )
    sc = dict(name=name, desc=desc or "%s %s%s%s" % (rec.name, opts["method"], " link" if opts.get("link") else "",
                                                     " exdev" if opts.get("exdev") else ""),
              cfg=cfg, rd_truth=rec.rd_truth, events=w.events, files=[f["rel"] for f in rec.files],
              opts={k: v for k, v in opts.items() if v is not None}, crash_at=(crash_at or 0) if not crash_rule else -1,
              tracebacks=w.tracebacks,
              rerun=dict(rec=rec.params, steps=[list(x) for x in steps], crash_at=crash_at, crash_rule=list(crash_rule) if crash_rule else None))
    shutil.rmtree(w.src, ignore_errors=True)
    shutil.rmtree(w.dst, ignore_errors=True)
    return sc, nops
