"""Composition run for DrfPipelineTrace: real writer (under the interposer) -> watchdog events -> real event filter ->
real DigitalRFMirror in move mode -> archive tree -> DigitalRFReader on the archive.  Everything is synchronous: the
controller decides when pending events are handled (between two file-system operations of the writer); the mirror may be
killed between two of its own file-system operations and is then restarted on the same trees."""
import contextlib
import errno
import hashlib
import io
import os
import shutil

import watchdog.events as wev

from ..fsshim import fsctl
from . import chan_drv as cd
from . import fs_drv
from .mirror_drv import _StubObserver

_real = dict(rename=os.rename, copyfile=shutil.copyfile, remove=os.remove, unlink=os.unlink)


class Crash(BaseException):
    """the mirror process dies here"""


def _sha1(path):
    h = hashlib.sha1()
    with open(path, "rb") as fh:
        for blk in iter(lambda: fh.read(1 << 20), b""):
            h.update(blk)
    return h.hexdigest()


def pipeline_run(env, digital_rf, rng, seed, name, lose=0.1, exdev=False, crash=False, race=False):
    """race: the mirror may also run between the writer's mkdir of a subdirectory and the creation of the file in it
    (observation O1 of DrfPipeline.tla: it can then remove the subdirectory and the recording stops with an error)"""
    from digital_rf import mirror as mirror_mod

    cc, ops = fs_drv.make_job(rng, seed, nfiles=(3, 5), mode=rng.choice(["gapped", "contC", "contU"]))
    events = []
    pending = []          # FIFO of (k, j, tmp, path, path2)
    state = dict(lastseq=0, opn=0, crash_at=None, crashes=0, mirror=None, wfail=False, after_mkdir=False, o1=0)
    firstwin = {}         # window index -> file number 1..nf in creation order
    truth = {}            # file number -> sha1 of the finalized file
    paths = {}            # file number -> (relative dir, final name)
    box = [None]
    dst = env["root"] + "_arch"
    shutil.rmtree(dst, ignore_errors=True)
    os.makedirs(dst)

    def fileno(j):
        return firstwin.setdefault(j, len(firstwin) + 1)

    def relpath_of(j):
        t = cc.t0 + (j - 1) * cc.fc
        return os.path.join("ch", cd.subdir_name(t, cc.sc)), "rf@%d.%03d.h5" % (t // 1000, t % 1000)

    # ---- the mirror's own file-system operations: crash points, cross-device emulation ----------------------------
    def point():
        state["opn"] += 1
        if state["crash_at"] is not None and state["opn"] >= state["crash_at"]:
            state["crash_at"] = None
            raise Crash()

    def inside(p, root):
        p = os.path.abspath(os.fspath(p))
        return p == root or p.startswith(root + os.sep)

    def w_rename(a, b, *args, **kw):
        top = state["top"]
        if not (inside(a, top) or inside(a, dst)):
            return _real["rename"](a, b, *args, **kw)
        point()
        if exdev and inside(a, top) != inside(b, top):
            raise OSError(errno.EXDEV, "Invalid cross-device link", os.fspath(a))
        return _real["rename"](a, b, *args, **kw)

    def w_copyfile(a, b, *args, **kw):
        top = state["top"]
        if not (inside(a, top) or inside(b, dst)):
            return _real["copyfile"](a, b, *args, **kw)
        point()
        with open(a, "rb") as fsrc:
            data = fsrc.read()
        with open(b, "wb") as fdst:
            fdst.write(data[: len(data) // 2])
            fdst.flush()
            point()                   # a crash here leaves half a copy under the staging name
            fdst.write(data[len(data) // 2:])
        return b

    def w_remove(p, *args, **kw):
        if inside(p, state["top"]) or inside(p, dst):
            point()
        return _real["remove"](p, *args, **kw)

    @contextlib.contextmanager
    def hooks():
        saved = (os.rename, shutil.copyfile, os.remove, os.unlink)
        os.rename, shutil.copyfile = w_rename, w_copyfile
        os.remove = os.unlink = w_remove
        out, err = io.StringIO(), io.StringIO()
        try:
            with contextlib.redirect_stdout(out), contextlib.redirect_stderr(err):
                yield
        finally:
            os.rename, shutil.copyfile, os.remove, os.unlink = saved

    # ---- observation of both trees ---------------------------------------------------------------------------
    def content(path, j):
        if not os.path.exists(path):
            return "none"
        if j not in truth:
            return "part"
        try:
            return "full" if _sha1(path) == truth[j] else "part"
        except OSError:
            return "none"

    def observe_trees(run):
        nf = len(firstwin)
        src, stmp, d, dirs = [], [], [], []
        for j in range(1, nf + 1):
            rel, fn = paths[j]
            dirs.append(int(os.path.isdir(os.path.join(run.top, rel))))
            src.append(int(os.path.exists(os.path.join(run.top, rel, fn))))
            stmp.append(int(os.path.exists(os.path.join(run.top, rel, "tmp." + fn))))
            # archive names of file j: staging name tmp.<x> and final name <x> for the finalized file; had the filter let the
            # recording's own tmp.<x> through, the mirror would stage it as tmp.tmp.<x> and publish it as tmp.<x> (ltmp): an
            # archive tmp.<x> is ltmp when the source's final name has never existed, the staging name otherwise
            tt = os.path.exists(os.path.join(dst, rel, "tmp.tmp." + fn))
            t = os.path.join(dst, rel, "tmp." + fn)
            if j in truth:
                stage, ltmp = content(t, j), ("part" if tt else "none")
            else:
                stage, ltmp = "none", ("part" if (tt or os.path.exists(t)) else "none")
            d.append([stage, content(os.path.join(dst, rel, fn), j), ltmp])
        return dict(src=src, stmp=stmp, dst=d, dirs=dirs, nf=nf)

    # ---- the mirror ------------------------------------------------------------------------------------------
    def new_mirror(run):
        m = mirror_mod.DigitalRFMirror(run.top, dst, method="move")
        m.observer = _StubObserver()
        for h in m.event_handlers:
            real_dispatch = h.dispatch

            def dispatch(event, _rd=real_dispatch, **kw):
                return _rd(event, **kw)
            h.dispatch = dispatch
        state["mirror"] = m
        return m

    def deliver(run, ev, k, j, tmp, replay=False):
        """one event through every handler of the mirror; returns False if the mirror died"""
        try:
            with hooks():
                for h in state["mirror"].event_handlers:
                    h.dispatch(ev)
        except Crash:
            state["crashes"] += 1
            rec = dict(ev="c", k=k, j=j, tmp=bool(tmp))
            rec.update(observe_trees(run))
            events.append(rec)
            pending.clear()
            restart(run)
            return False
        except Exception:  # noqa: BLE001 - a handler that raises is an observation
            rec = dict(ev="m", k=k, j=j, tmp=bool(tmp), raised=True, replay=replay)
            rec.update(observe_trees(run))
            events.append(rec)
            return True
        rec = dict(ev="m", k=k, j=j, tmp=bool(tmp), raised=False, replay=replay)
        rec.update(observe_trees(run))
        events.append(rec)
        return True

    def restart(run):
        """a new mirror on the same trees: start() replays the names found in the source as creation events"""
        m = new_mirror(run)
        events.append(dict(ev="restart", **observe_trees(run)))
        # the replay of start(), one dispatched event at a time so that each is an "m" event of the trace
        real = [h.dispatch for h in m.event_handlers]
        seen = []

        def collect(event, **kw):
            if event.src_path not in [e.src_path for e in seen]:
                seen.append(event)
        for h in m.event_handlers:
            h.dispatch = collect
        with hooks():
            m.start()
        for h, d in zip(m.event_handlers, real):
            h.dispatch = d
        for event in seen:
            k = run.classify(event.src_path)
            if k["cls"] in ("final", "tmp") and k["j"] in firstwin:
                if not deliver(run, event, "created", firstwin[k["j"]], k["cls"] == "tmp", replay=True):
                    return
            else:
                try:
                    with hooks():
                        for h in m.event_handlers:
                            h.dispatch(event)
                except Crash:
                    state["crashes"] += 1
                    events.append(dict(ev="c", k="created", j=0, tmp=False, **observe_trees(run)))
                    return restart(run)

    # ---- writer side -----------------------------------------------------------------------------------------
    def harvest(run):
        for e in run.events:
            if e["ev"] != "op" or e["seq"] <= state["lastseq"] or e["res"] == "pending":
                continue
            state["lastseq"] = e["seq"]
            if e["cls"] == "tmpprops" and e["op"] == "rename" and e["res"] == "ok":
                p = os.path.join(run.chdir, "drf_properties.h5")
                pending.append(("moved", 0, False, os.path.join(run.chdir, "tmp.drf_properties.h5"), p))
                continue
            if e["cls"] == "tmp" and e["op"] == "open" and e.get("creat"):
                state["after_mkdir"] = False
            if e["cls"] == "dir" and e["op"] == "mkdir":
                # the subdirectory of the next file (made, or there already)
                events.append(dict(ev="w", k="mkdir", j=len(firstwin) + 1, delivered=True))
                state["after_mkdir"] = True
                continue
            if e["cls"] != "tmp":
                continue
            j = fileno(e["j"])
            paths.setdefault(j, relpath_of(e["j"]))
            if e["res"] != "ok":
                if e["op"] == "open" and not e.get("creat"):
                    continue           # the writer probing for an existing file
                if not state["wfail"]:
                    state["wfail"] = True
                    rel, fn = paths[j]
                    if e["op"] == "open" and not os.path.isdir(os.path.join(run.top, rel)):
                        state["o1"] += 1
                    events.append(dict(ev="wfail", j=j, op=e["op"]))
                continue
            k = {"open": "create", "pwrite": "write", "write": "write", "ftruncate": "write", "close": "close", "rename": "rename"}.get(e["op"])
            if k is None or (e["op"] == "open" and not e["creat"]):
                continue
            if k == "rename":
                rel, fn = paths[j]
                try:
                    truth[j] = _sha1(os.path.join(run.top, rel, fn))
                except OSError:
                    pass
            delivered = k == "close" or rng.random() >= lose
            events.append(dict(ev="w", k=k, j=j, delivered=bool(delivered)))
            if k != "close" and delivered:
                wk = {"create": "created", "write": "modified", "rename": "moved"}[k]
                rel, fn = paths[j]
                pending.append((wk, j, k != "rename", os.path.join(run.top, rel, "tmp." + fn), os.path.join(run.top, rel, fn)))

    def handle_some(run, n):
        if state["mirror"] is None:
            state["top"] = os.path.abspath(run.top)
            new_mirror(run)
        while pending and n > 0:
            n -= 1
            wk, j, tmp, p, p2 = pending.pop(0)
            if wk == "created":
                ev = wev.FileCreatedEvent(p)
            elif wk == "modified":
                ev = wev.FileModifiedEvent(p)
            else:
                ev = wev.FileMovedEvent(p, p2)
            if crash and state["crashes"] == 0 and j and wk == "moved" and rng.random() < 0.5:
                state["crash_at"] = state["opn"] + rng.randint(1, 4)
            if j == 0:
                try:
                    with hooks():
                        for h in state["mirror"].event_handlers:
                            h.dispatch(ev)
                except Crash:
                    state["crashes"] += 1
                    events.append(dict(ev="c", k=wk, j=0, tmp=False, **observe_trees(run)))
                    pending.clear()
                    restart(run)
                continue
            if not deliver(run, ev, wk, j, tmp):
                return
            state["crash_at"] = None

    def reader_pass(run):
        ev = dict(ev="r", ok=True, listed=[], nochannel=False)
        try:
            if box[0] is None:
                try:
                    box[0] = digital_rf.DigitalRFReader(dst)
                except ValueError:
                    ev["nochannel"] = True
                    events.append(ev)
                    return
            rd = box[0]
            try:
                b = rd.get_bounds("ch")
            except (IOError, KeyError):
                ev["nochannel"] = True
                box[0] = None
                events.append(ev)
                return
            seen = set()
            if b[0] is not None:
                r = rd.read(cc.bound[0] + cc.B - 2, cc.bound[-1] + cc.B + 2, "ch")
                for k0, arr in r.items():
                    a, z = int(k0) - cc.B, int(k0) - cc.B + len(arr) - 1
                    for w in range(1, cc.nw + 1):
                        if cc.bound[w - 1] <= z and a <= cc.bound[w] - 1:
                            seen.add(w)
                    if (cc.vals.classify(arr, int(k0)) == 2).any():
                        ev["ok"] = False
            ev["listed"] = sorted(firstwin[w] for w in seen if w in firstwin)
        except Exception as e:  # noqa: BLE001
            ev.update(ok=False, exc="%s: %s" % (type(e).__name__, str(e)[:80]))
            box[0] = None
        events.append(ev)

    def observe(run, when, op):
        state.setdefault("top", os.path.abspath(run.top))
        harvest(run)
        if when == "end":
            handle_some(run, 10**6)
            rec = dict(ev="end")
            rec.update(observe_trees(run))
            events.append(rec)
            reader_pass(run)
            return
        if rng.random() < 0.5 and (race or not state["after_mkdir"]):
            handle_some(run, rng.choice([1, 1, 2, 5]))
        if rng.random() < 0.3:
            reader_pass(run)

    run = fsctl.FsRun(env["stage"], env["shim"], env["verif"], env["root"] + "_pipe", cc, ops, observe=observe, name=name).run()
    nf = max(1, len(firstwin))
    subs = sorted({paths[j][0] for j in paths})
    sc = dict(name=name, desc="%s, %s%s%s" % (cc.describe(), "two file systems" if exdev else "one file system", ", mirror crash" if crash else "",
                                              ", mirror may run between mkdir and create" if race else ""),
              nf=nf, sub=[subs.index(paths[j][0]) + 1 if j in paths else 1 for j in range(1, nf + 1)],
              samefs=not exdev, maxcrash=1 if crash else 0, o1=state["o1"], events=events)
    run.cleanup()
    shutil.rmtree(dst, ignore_errors=True)
    return sc
