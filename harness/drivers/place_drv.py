"""Records for PlacementTrace: one per data file produced by the real writer (C04), one per metadata sample (C13)."""
import calendar
import datetime
import os
import re
import shutil

import h5py
import numpy as np

from .timeconv_drv import limbs

RE_SUB = re.compile(r"^(\d{4})-(\d\d)-(\d\d)T(\d\d)-(\d\d)-(\d\d)$")
RE_RF = re.compile(r"^rf@(\d+)\.(\d\d\d)\.h5$")


def sub_fields(sub):
    m = RE_SUB.match(sub)
    if not m:
        return None
    Y, M, D, h, mi, s = (int(x) for x in m.groups())
    try:
        days = (datetime.date(Y, M, D) - datetime.date(1970, 1, 1)).days
    except ValueError:
        return None
    return dict(Y=Y, M=M, D=D, h=h, mi=mi, s=s, days=days, sod=h * 3600 + mi * 60 + s, sub_sec=days * 86400 + h * 3600 + mi * 60 + s)


def subdir_of(t_ms, sc):
    s = (t_ms // 1000) // sc * sc
    return (datetime.datetime(1970, 1, 1) + datetime.timedelta(seconds=s)).strftime("%Y-%m-%dT%H-%M-%S")


def rf_record(n, d, fc, sc, name_ms, sub, first, last, cont, overlap=False, tag=""):
    sf = sub_fields(sub)
    subok = sf is not None
    sf = sf or dict(Y=1970, M=1, D=1, h=0, mi=0, s=0, days=0, sod=0, sub_sec=0)
    ss = sf.pop("sub_sec")
    ev = dict(ev="rf", n=limbs(n), d=limbs(d), fc=limbs(fc), sc=limbs(sc), name=limbs(name_ms), q=limbs(name_ms // fc),
              sub=limbs(ss), qs=limbs(ss // sc), first=limbs(first), last=limbs(last), cont=bool(cont), overlap=bool(overlap),
              raised=False, subok=subok, raw=dict(n=n, d=d, fc=fc, sc=sc, name_ms=name_ms, sub=sub, first=first, last=last, tag=tag))
    ev.update(sf)
    return ev


def scan_channel(chdir):
    """[(sub, name_ms, first, last, dlen)] for every rf@ file, via raw h5py"""
    out = []
    for sub in [""] + sorted(os.listdir(chdir)):       # "": a data file directly in the channel directory
        sp = os.path.join(chdir, sub) if sub else chdir
        if not os.path.isdir(sp):
            continue
        for f in sorted(os.listdir(sp)):
            m = RE_RF.match(f)
            if not m:
                continue
            t = int(m.group(1)) * 1000 + int(m.group(2))
            with h5py.File(os.path.join(sp, f), "r") as h:
                idx = h["rf_data_index"][...]
                dlen = int(h["rf_data"].shape[0])
            first = int(idx[0][0])
            last = int(idx[-1][0]) + (dlen - int(idx[-1][1])) - 1
            out.append((sub, t, first, last, dlen))
    return out


def boundary_triple(digital_rf, root, rng, n, d, fc, sc, j, mode, dtype="i2", contig=None):
    """three one-sample writes at FileStart(j*fc) + {-1, 0, +1}; returns rf records of the files produced"""
    t = j * fc
    ks = -((-t * n) // (1000 * d))
    if os.path.exists(root):
        shutil.rmtree(root)
    os.makedirs(os.path.join(root, "ch"))
    start = max(0, ks - 1)
    cont = mode != "gapped"
    w = digital_rf.DigitalRFWriter(os.path.join(root, "ch"), np.dtype(dtype), sc, fc, start, n, d, is_complex=False,
                                   num_subchannels=1, is_continuous=cont, compression_level=(1 if mode == "contC" else 0), marching_periods=False)
    one = np.array([7], dtype=dtype)
    raised = False
    try:
        if (rng.random() < 0.5 if contig is None else contig) and ks - 1 >= start:
            # one contiguous write across the boundary (the writer has to split it)
            w.rf_write(np.array([7, 8, 9], dtype=dtype), ks - 1 - start)
        else:
            for k in (ks - 1, ks, ks + 1):
                if k >= start:
                    w.rf_write(one, k - start)
    except Exception:  # noqa: BLE001 - a valid forward write next to a file boundary must be accepted
        raised = True
    w.close()
    recs = []
    if raised:
        r = rf_record(n, d, fc, sc, t, subdir_of(t, sc), ks, ks, False, False, tag="boundary j=%d: a valid write was refused" % j)
        r["raised"] = True
        recs.append(r)
    files = scan_channel(os.path.join(root, "ch"))
    seen = []
    for sub, name_ms, first, last, dlen in files:
        ov = any(not (last < a or first > b) for a, b in seen) and mode != "contU"
        seen.append((first, last))
        recs.append(rf_record(n, d, fc, sc, name_ms, sub, first, last, mode == "contU", ov, tag="boundary j=%d" % j))
    shutil.rmtree(root, ignore_errors=True)
    # the three samples must be in files whose windows contain them: add the expectation that ks-1 and ks are in different files
    return recs, len(files)
