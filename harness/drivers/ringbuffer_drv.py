"""Drive a real DigitalRFRingbuffer(Handler) over real files and record one event per Ringbuffer.tla action."""
import datetime
import os
import shutil

import watchdog.events as wev


def _subdir(t_ms, sub_s=3600):
    s = (t_ms // 1000) // sub_s * sub_s
    return datetime.datetime.fromtimestamp(s, tz=datetime.timezone.utc).strftime("%Y-%m-%dT%H-%M-%S")


class Universe:
    """files: list of dict(ch=, kind='rf'|'md'|'tmp'|'stray'|'drfprop'|'dmdprop'|'outside', t_ms=) ."""

    def __init__(self, root, files, base_ms):
        self.root = root
        self.base = base_ms
        self.files = []
        groups = {}
        for f in files:
            ch = os.path.join(root, f["ch"])
            k = f["kind"]
            t = f.get("t_ms", base_ms)
            if k == "rf":
                p = os.path.join(ch, _subdir(t), "rf@%d.%03d.h5" % (t // 1000, t % 1000))
            elif k == "md":
                p = os.path.join(ch, _subdir(t), "%s@%d.h5" % (f.get("name", "metadata"), t // 1000))
            elif k == "tmp":
                p = os.path.join(ch, _subdir(t), "tmp.rf@%d.%03d.h5" % (t // 1000, t % 1000))
            elif k == "drfprop":
                p = os.path.join(ch, "drf_properties.h5")
            elif k == "dmdprop":
                p = os.path.join(ch, "dmd_properties.h5")
            elif k == "stray":
                p = os.path.join(ch, _subdir(t), "notes@%d.txt" % (t // 1000))
            elif k == "outside":
                p = os.path.join(os.path.dirname(root), "outside_" + os.path.basename(root), f["ch"], _subdir(t), "rf@%d.%03d.h5" % (t // 1000, t % 1000))
            else:
                raise ValueError(k)
            data = k in ("rf", "md")
            gkey = (f["ch"], "rf" if k in ("rf", "tmp", "outside") else f.get("name", "metadata")) if k not in ("drfprop", "dmdprop", "stray") else (f["ch"], "~" + k)
            gid = groups.setdefault(gkey, len(groups) + 1)
            self.files.append(dict(path=p, data=data, key=(t - base_ms) if k not in ("drfprop", "dmdprop") else 0, group=gid, kind=k))
        self.ids = {f["path"]: i + 1 for i, f in enumerate(self.files)}
        self.ngroups = len(groups)

    def path(self, f):
        return self.files[f - 1]["path"]

    def cfg(self, limits):
        return dict(
            group=[f["group"] for f in self.files],
            key=[f["key"] for f in self.files],
            data=[f["data"] for f in self.files],
            count=-1 if limits.get("count") is None else limits["count"],
            dur=-1 if limits.get("duration") is None else limits["duration"],
            size=-1 if limits.get("size") is None else limits["size"],
        )

    def disk(self):
        out = []
        for f in self.files:
            try:
                out.append(os.stat(f["path"]).st_size)
            except OSError:
                out.append(0)
        return out


class RbWorld:
    def __init__(self, digital_rf, uni, limits):
        from digital_rf import ringbuffer

        self.rbmod = ringbuffer
        self.uni = uni
        self.limits = limits
        self.has_size = limits.get("size") is not None
        os.makedirs(uni.root, exist_ok=True)
        self.rb = ringbuffer.DigitalRFRingbuffer(
            uni.root, size=limits.get("size"), count=limits.get("count"), duration=limits.get("duration"), status_interval=None
        )
        self.h = self.rb.event_handler
        self.events = []

    # ---- environment -------------------------------------------------------
    def write(self, f, sz):
        p = self.uni.path(f)
        os.makedirs(os.path.dirname(p), exist_ok=True)
        with open(p, "wb") as fh:
            fh.write(b"x" * sz)

    def delete(self, f):
        try:
            os.remove(self.uni.path(f))
        except OSError:
            pass

    def move(self, f, g):
        p, q = self.uni.path(f), self.uni.path(g)
        os.makedirs(os.path.dirname(q), exist_ok=True)
        os.rename(p, q)

    # ---- projection ----------------------------------------------------------
    def project(self):
        ids = self.uni.ids
        n = len(self.uni.files)
        rec = [-1] * n
        foreign = 0
        for p, r in self.h.records.items():
            i = ids.get(p)
            if i is None:
                foreign += 1
                continue
            rec[i - 1] = int(r.size) if self.has_size else 1
        queue = [[] for _ in range(self.uni.ngroups)]
        # the handler keys queues by (chpath, name); map through the files they contain
        for gk, q in self.h.queues.items():
            for key, p in q:
                i = ids.get(p)
                if i is None:
                    foreign += 1
                    continue
                queue[self.uni.files[i - 1]["group"] - 1].append(i)
        active = int(getattr(self.h, "active_size", 0)) if self.has_size else 0
        return dict(disk=self.uni.disk(), rec=rec, queue=queue, active=active, foreign=foreign)

    # ---- one step ----------------------------------------------------------------
    def step(self, act):
        a = act["a"]
        ev = dict(act)
        if a == "FsWrite":
            self.write(act["f"], act["sz"])
        elif a == "FsDelete":
            self.delete(act["f"])
        elif a == "FsMove":
            if not os.path.exists(self.uni.path(act["f"])) or os.path.exists(self.uni.path(act["g"])):
                return None  # not possible in the current disk state (the handler may have expired the file)
            self.move(act["f"], act["g"])
        else:
            removed = []
            real_remove = os.remove

            def logging_remove(path, *args, **kw):
                # an attempt counts (the file may already have vanished); a retry of the same path is one deletion
                i = self.uni.ids.get(os.fspath(path), 0)
                if not removed or removed[-1] != i:
                    removed.append(i)
                real_remove(path, *args, **kw)

            os.remove = logging_remove
            os.unlink, real_unlink = logging_remove, os.unlink
            try:
                if a == "EvCreated":
                    self.h.dispatch(wev.FileCreatedEvent(self.uni.path(act["f"])))
                elif a == "EvModified":
                    self.h.dispatch(wev.FileModifiedEvent(self.uni.path(act["f"])))
                elif a == "EvDeleted":
                    self.h.dispatch(wev.FileDeletedEvent(self.uni.path(act["f"])))
                elif a == "EvMoved":
                    self.h.dispatch(wev.FileMovedEvent(self.uni.path(act["f"]), self.uni.path(act["g"])))
                elif a == "AddBatch":
                    self.h.add_files([self.uni.path(f) for f in act["S"]])
                elif a == "ModifyBatch":
                    self.h.modify_files([self.uni.path(f) for f in act["S"]])
                elif a == "RemoveBatch":
                    self.h.remove_files([self.uni.path(f) for f in act["S"]])
                elif a == "Rescan":
                    from digital_rf import list_drf

                    order = list(
                        list_drf.ilsdrf(
                            self.uni.root, include_drf=True, include_dmd=True, include_drf_properties=False, include_dmd_properties=False
                        )
                    )
                    ev["ord"] = [self.uni.ids.get(p, 0) for p in order]
                    self.rb._add_existing_files()
                elif a == "Verify":
                    self.rb._verify_ringbuffer_files(set(self.h.records.keys()))
                else:
                    raise ValueError(a)
            finally:
                os.remove = real_remove
                os.unlink = real_unlink
            ev["del"] = removed
            pr = self.project()
            if pr.pop("foreign"):
                ev["del"] = ev["del"] + [0]
            ev.update(pr)
        for k in ("f", "g", "sz"):
            ev.setdefault(k, 0)
        ev.setdefault("S", [])
        self.events.append(ev)
        return ev


def run_history(digital_rf, root, files, base_ms, limits, initial, history, name):
    """Returns a scenario object for RingbufferTrace: header + events."""
    if os.path.exists(root):
        shutil.rmtree(root)
    out_root = os.path.join(os.path.dirname(root), "outside_" + os.path.basename(root))
    if os.path.exists(out_root):
        shutil.rmtree(out_root)
    uni = Universe(root, files, base_ms)
    w = RbWorld(digital_rf, uni, limits)
    for f, sz in initial:
        w.write(f, sz)
    disk0 = uni.disk()
    err = None
    for act in history:
        try:
            w.step(act)
        except Exception as e:  # the handler must not raise on any event sequence
            err = "%s: %s" % (type(e).__name__, e)
            ev = dict(act)
            ev.update(a="Raised", what=err)
            w.events.append(ev)
            break
    shutil.rmtree(root, ignore_errors=True)
    shutil.rmtree(out_root, ignore_errors=True)
    return dict(name=name, cfg=uni.cfg(limits), disk0=disk0, events=w.events, limits=limits, error=err)


# ---------------------------------------------------------------------------------------------------------
# exhaustive exploration of the IMPLEMENTATION's state space over a small universe (E2, bisimulation up to depth D)
# ---------------------------------------------------------------------------------------------------------
def _freeze(pr):
    return (tuple(pr["disk"]), tuple(pr["rec"]), tuple(tuple(q) for q in pr["queue"]), pr["active"])


def restore(w, st):
    """put the real handler and the scratch tree into a previously projected state"""
    import collections

    disk, rec, queue, active = st
    uni = w.uni
    for i, sz in enumerate(disk):
        p = uni.path(i + 1)
        if sz:
            os.makedirs(os.path.dirname(p), exist_ok=True)
            with open(p, "wb") as fh:
                fh.write(b"x" * sz)
        elif os.path.exists(p):
            os.remove(p)
    h = w.h
    h.records.clear()
    h.queues.clear()
    FileRecord = h.FileRecord
    for i, sz in enumerate(rec):
        if sz != -1:
            p = uni.path(i + 1)
            r = h._get_file_record(p) if os.path.exists(p) else None
            grp = r.group if r else _group_of(h, p)
            key = r.key if r else _key_of(h, p)
            h.records[p] = FileRecord(key=key, size=sz, path=p, group=grp)
    for g, q in enumerate(queue):
        for f in q:
            p = uni.path(f)
            r = h.records[p]
            h.queues[r.group].append((r.key, p))
    if w.has_size:
        h.active_size = active
    w.events = []


def _match(h, path):
    for r in h.regexes:
        m = r.match(path)
        if m and "secs" in m.groupdict():
            return m
    return None


def _group_of(h, path):
    m = _match(h, path)
    return (m.group("chpath"), m.group("name"))


def _key_of(h, path):
    m = _match(h, path)
    frac = m.groupdict().get("frac")
    return int(m.group("secs")) * 1000 + (int(frac) if frac else 0)


def explore(digital_rf, root, files, base_ms, limits, initial, actions, depth, max_states, name):
    """BFS over the implementation's projected states; returns one single-event scenario per (state, action)"""
    if os.path.exists(root):
        shutil.rmtree(root)
    uni = Universe(root, files, base_ms)
    w = RbWorld(digital_rf, uni, limits)
    for f, sz in initial:
        w.write(f, sz)
    init = _freeze({k: v for k, v in w.project().items() if k != "foreign"})
    seen = {init}
    frontier = [init]
    scen = []
    cfg = uni.cfg(limits)
    for d in range(depth):
        nxt = []
        for st in frontier:
            for act in actions:
                restore(w, st)
                try:
                    ev = w.step(dict(act))
                except Exception as e:  # noqa: BLE001
                    ev = dict(act)
                    ev.update(a="Raised", what="%s: %s" % (type(e).__name__, e))
                if ev is None:
                    continue
                hdr = dict(name="%s-d%d-%d" % (name, d, len(scen)), cfg=cfg, disk0=list(st[0]), rec0=list(st[1]),
                           queue0=[list(q) for q in st[2]], active0=st[3], events=[ev], limits=limits)
                scen.append(hdr)
                if ev["a"] == "Raised":
                    continue
                pr = w.project()
                pr.pop("foreign")
                ns = _freeze(pr)
                if ns not in seen and len(seen) < max_states:
                    seen.add(ns)
                    nxt.append(ns)
        frontier = nxt
    shutil.rmtree(root, ignore_errors=True)
    out = os.path.join(os.path.dirname(root), "outside_" + os.path.basename(root))
    shutil.rmtree(out, ignore_errors=True)
    return scen, len(seen)
