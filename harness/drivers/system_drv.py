"""Composition run for DrfSystemTrace: real writer (under the interposer) -> watchdog events -> real event filter ->
real ringbuffer handler with a count limit, plus reader passes.  Everything is synchronous: the controller decides
when pending events are handled, so every interleaving point is between two file-system operations of the writer."""
import os

import watchdog.events as wev

from ..fsshim import fsctl
from . import chan_drv as cd
from . import fs_drv


def system_run(env, digital_rf, rng, seed, name, count=2, lose=0.1):
    from digital_rf import ringbuffer

    cc, ops = fs_drv.make_job(rng, seed, nfiles=(3, 5), mode=rng.choice(["gapped", "contC", "contU"]))
    handler = ringbuffer.DigitalRFRingbufferHandler(count=count)
    events = []
    pending = []          # FIFO of (k, j, tmp, path, path2)
    state = dict(lastseq=0)
    firstwin = {}         # window index -> file number 1..nf in creation order
    box = [None]

    def fileno(run, j):
        return firstwin.setdefault(j, len(firstwin) + 1)

    def path_of(run, j, tmp):
        t = cc.t0 + (j - 1) * cc.fc
        sub = cd.subdir_name(t, cc.sc)
        return os.path.join(run.chdir, sub, ("tmp." if tmp else "") + "rf@%d.%03d.h5" % (t // 1000, t % 1000))

    def harvest(run):
        """turn the operations completed since the last call into writer events (+ pending watchdog events)"""
        for e in run.events:
            if e["ev"] != "op" or e["seq"] <= state["lastseq"] or e["res"] == "pending":
                continue
            state["lastseq"] = e["seq"]
            if e["res"] != "ok" or e["cls"] != "tmp":
                continue
            j = fileno(run, e["j"])
            k = {"open": "create", "pwrite": "write", "write": "write", "ftruncate": "write", "close": "close", "rename": "rename"}.get(e["op"])
            if k is None or (e["op"] == "open" and not e["creat"]):
                continue
            delivered = k == "close" or rng.random() >= lose
            events.append(dict(ev="w", k=k, j=j, delivered=bool(delivered)))
            if k != "close" and delivered:
                wk = {"create": "created", "write": "modified", "rename": "moved"}[k]
                pending.append((wk, j, k != "rename", path_of(run, e["j"], True), path_of(run, e["j"], False)))

    def handle_some(run, n):
        while pending and n > 0:
            n -= 1
            wk, j, tmp, p, p2 = pending.pop(0)
            removed = []
            real_remove = os.remove

            def logging_remove(path, *a, **kw):
                k = run.classify(os.fspath(path))
                removed.append((firstwin.get(k["j"], 0) if k["cls"] == "final" else -1, os.fspath(path)))
                real_remove(path, *a, **kw)

            os.remove = logging_remove
            raised = False
            try:
                if wk == "created":
                    handler.dispatch(wev.FileCreatedEvent(p))
                elif wk == "modified":
                    handler.dispatch(wev.FileModifiedEvent(p))
                elif wk == "moved":
                    handler.dispatch(wev.FileMovedEvent(p, p2))
                else:
                    handler.dispatch(wev.FileDeletedEvent(p))
            except Exception:  # noqa: BLE001
                raised = True
            finally:
                os.remove = real_remove
            rbq = []
            for q in handler.queues.values():
                for key, path in q:
                    k = run.classify(path)
                    rbq.append(firstwin.get(k["j"], 0) if k["cls"] == "final" else -1)
            events.append(dict(ev="h", k=wk, j=j if wk != "deleted" else 0, tmp=bool(tmp), **{"del": sorted(x[0] for x in removed)}, rbq=sorted(rbq), raised=raised))
            for num, rpath in removed:
                pending.append(("deleted", 0, False, rpath, rpath))

    def reader_pass(run):
        ev = dict(ev="r", ok=True, listed=[])
        try:
            if box[0] is None:
                try:
                    box[0] = digital_rf.DigitalRFReader(run.top)
                except ValueError:
                    return
            rd = box[0]
            b = rd.get_bounds("ch")
            seen = set()
            if b[0] is not None:
                blocks = rd.get_continuous_blocks(cc.bound[0] + cc.B - 2, cc.bound[-1] + cc.B + 2, "ch")
                r = rd.read(cc.bound[0] + cc.B - 2, cc.bound[-1] + cc.B + 2, "ch")
                for k0, arr in r.items():
                    for idx in (int(k0), int(k0) + len(arr) - 1):
                        pass
                    # every window touched by a returned block
                    a, z = int(k0) - cc.B, int(k0) - cc.B + len(arr) - 1
                    for w in range(1, cc.nw + 1):
                        if cc.bound[w - 1] <= z and a <= cc.bound[w] - 1:
                            seen.add(w)
                    if (cc.vals.classify(arr, int(k0)) == 2).any():
                        ev["ok"] = False
            ev["listed"] = sorted(firstwin[w] for w in seen if w in firstwin)
        except Exception as e:  # noqa: BLE001
            ev.update(ok=False, exc="%s: %s" % (type(e).__name__, str(e)[:80]))
            box[0] = None
        events.append(ev)

    def observe(run, when, op):
        harvest(run)
        r = rng.random()
        if when == "end":
            handle_some(run, 10**6)
            reader_pass(run)
            return
        if r < 0.5:
            handle_some(run, rng.choice([1, 1, 2, 5]))
        if rng.random() < 0.3:
            reader_pass(run)

    run = fsctl.FsRun(env["stage"], env["shim"], env["verif"], env["root"] + "_sys", cc, ops, observe=observe, name=name).run()
    sc = dict(name=name, desc=cc.describe(), nf=max(1, len(firstwin)), count=count, events=events)
    run.cleanup()
    return sc
