"""Call the real index<->time conversions and record arguments/results as limb sequences (C03)."""
import ctypes
import datetime
import glob
import os


def limbs(x):
    x = int(x)
    assert x >= 0
    out = []
    while x:
        out.append(x % 10000)
        x //= 10000
    return out


class Conv:
    def __init__(self, stage_dir):
        so = glob.glob(os.path.join(stage_dir, "digital_rf", "_py_rf_write_hdf5*.so"))[0]
        self.lib = ctypes.CDLL(so)
        u64 = ctypes.c_uint64
        self.has_c = hasattr(self.lib, "digital_rf_get_timestamp_floor") and hasattr(self.lib, "digital_rf_get_sample_ceil")
        if self.has_c:
            self.lib.digital_rf_get_timestamp_floor.argtypes = [u64, u64, u64, ctypes.POINTER(u64), ctypes.POINTER(u64)]
            self.lib.digital_rf_get_sample_ceil.argtypes = [u64, u64, u64, u64, ctypes.POINTER(u64)]
        import digital_rf

        self.drf = digital_rf

    def floor(self, k, n, d):
        s, p = ctypes.c_uint64(), ctypes.c_uint64()
        self.lib.digital_rf_get_timestamp_floor(k, n, d, ctypes.byref(s), ctypes.byref(p))
        return s.value, p.value

    def ceil(self, sec, ps, n, d):
        i = ctypes.c_uint64()
        self.lib.digital_rf_get_sample_ceil(sec, ps, n, d, ctypes.byref(i))
        return i.value

    def conv_event(self, k, n, d):
        sec, ps = self.floor(k, n, d)
        sec2, ps2 = self.floor(k + 1, n, d)
        idx = self.ceil(sec, ps, n, d)
        ev = dict(ev="conv", k=limbs(k), n=limbs(n), d=limbs(d), sec=limbs(sec), ps=limbs(ps), sec2=limbs(sec2), ps2=limbs(ps2),
                  idx=limbs(idx), haspy=False, pysec=[], pyps=[], days=0, sod=0, Y=1970, M=1, D=1, h=0, mi=0, s=0, us=0,
                  raw=[k, n, d])
        if sec < 253402300800:  # before year 10000
            try:
                dt, pyps = self.drf.get_unix_time(k, n, d)
            except Exception as e:  # noqa: BLE001 - an exception of the implementation is an observation
                ev.update(pyerr=True, exc=("%s: %s" % (type(e).__name__, e))[:120])
                return ev
            days = (datetime.date(dt.year, dt.month, dt.day) - datetime.date(1970, 1, 1)).days
            # the Python side is told nothing about the second count: it is reconstructed from the calendar fields
            # with an independent day count, the specification re-derives the calendar from that count
            sod = dt.hour * 3600 + dt.minute * 60 + dt.second
            ev.update(haspy=True, pysec=limbs(days * 86400 + sod), pyps=limbs(pyps), days=days, sod=sod, Y=dt.year, M=dt.month, D=dt.day,
                      h=dt.hour, mi=dt.minute, s=dt.second, us=dt.microsecond)
        return ev

    def ceil_event(self, sec, ps, n, d):
        return dict(ev="ceil", sec=limbs(sec), ps=limbs(ps), n=limbs(n), d=limbs(d), idx=limbs(self.ceil(sec, ps, n, d)), raw=[sec, ps, n, d])
