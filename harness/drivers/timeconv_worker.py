"""Worker process of the C03 check: reads one request per line ("conv k n d" / "ceil sec ps n d") from the file given as
argv[2], calls the real conversion functions of the build in argv[1] and appends one JSON event per line to argv[3]
(flushed), so that the controller knows which input took the process down if native code dies on one."""
import json
import os
import sys


def main():
    stage, fin, fout, skip = sys.argv[1], sys.argv[2], sys.argv[3], int(sys.argv[4])
    sys.path.insert(0, stage)
    sys.path.insert(0, sys.argv[5])
    from harness.drivers import timeconv_drv as tc

    cv = tc.Conv(stage)
    if len(sys.argv) > 6 and sys.argv[6] == "bg":
        # a recording goes on in another thread of the process while the conversions are asked for
        import shutil
        import tempfile
        import threading

        import numpy as np

        tmp = tempfile.mkdtemp(prefix="c03bg", dir=os.path.dirname(fout))
        stop = threading.Event()

        def record():
            k = 0
            while not stop.is_set():
                d = os.path.join(tmp, "ch%d" % (k % 4))
                shutil.rmtree(d, ignore_errors=True)
                os.makedirs(d)
                # a continuous channel fed with packets of short blocks: one call hands over a thousand blocks, each of which
                # makes the writer work out the subdirectory and file of its first sample
                w = cv.drf.DigitalRFWriter(d, np.int16, 3600, 1000, (1500000000 + 7919 * k) * 1000, 1000, 1, "bg", is_complex=False,
                                           is_continuous=True, marching_periods=False)
                nblk, blen = 1000, 4
                data = np.arange(nblk * blen, dtype=np.int16)
                starts = np.arange(0, nblk * blen, blen, dtype=np.uint64)
                pos = 0
                for _ in range(60):
                    if stop.is_set():
                        break
                    w.rf_write_blocks(data, starts + np.uint64(pos), starts)
                    pos += nblk * blen
                w.close()
                k += 1

        th = threading.Thread(target=record, daemon=True)
        th.start()
    with open(fin) as fi, open(fout, "a") as fo:
        for i, line in enumerate(fi):
            if i < skip:
                continue
            p = line.split()
            a = [int(x) for x in p[1:]]
            ev = cv.conv_event(*a) if p[0] == "conv" else cv.ceil_event(*a)
            fo.write(json.dumps(ev) + "\n")
            fo.flush()


if __name__ == "__main__":
    main()
