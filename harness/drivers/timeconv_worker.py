"""Worker process of the C03 check: reads one request per line ("conv k n d" / "ceil sec ps n d") from the file given as
argv[2], calls the real conversion functions of the build in argv[1] and appends one JSON event per line to argv[3]
(flushed), so that the controller knows which input took the process down if native code dies on one."""
import json
import sys


def main():
    stage, fin, fout, skip = sys.argv[1], sys.argv[2], sys.argv[3], int(sys.argv[4])
    sys.path.insert(0, stage)
    sys.path.insert(0, sys.argv[5])
    from harness.drivers import timeconv_drv as tc

    cv = tc.Conv(stage)
    with open(fin) as fi, open(fout, "a") as fo:
        for i, line in enumerate(fi):
            if i < skip:
                continue
            p = line.split()
            a = [int(x) for x in p[1:]]
            ev = cv.conv_event(*a) if p[0] == "conv" else cv.ceil_event(*a)
            fo.write(json.dumps(ev) + "\n")
            fo.flush()


if __name__ == "__main__":
    main()
