"""Controller of a writer subprocess running under the interposer: steps it operation by operation, takes
snapshots / reader passes between operations, kills it or injects faults, and records the DrfFs trace."""
import hashlib
import json
import os
import re
import select
import shutil
import signal
import socket
import subprocess

import h5py
import numpy as np

from ..drivers import chan_drv as cd

RE_FINAL = cd.RE_FINAL


class FsRun:
    """One run of one recording job.  policy(run, opinfo) -> "go" | ("fail", errno) | "kill"; observe(run, when) is
    called before every operation (when="op"), after a kill / exit (when="end")."""

    def __init__(self, stage, shim, verif, root, cc, ops, policy=None, observe=None, name="run"):
        self.stage, self.shim, self.verif, self.root, self.cc, self.ops = stage, shim, verif, root, cc, ops
        self.policy = policy or (lambda run, op: "go")
        self.observe = observe
        self.name = name
        self.events = []
        self.nops = 0
        self.seen = {}  # final file path -> sha1 at first sight
        self.killed = False
        self.exit_code = None
        self.cur_call = -1
        self.start_rel = 0
        self.calls_open = 0     # sessions opened so far (by any process of this run)
        self.calls = {}
        self.top = os.path.join(root, "top")
        self.chdir = os.path.join(self.top, "ch")

    # ---- classification of paths -------------------------------------------------------------------
    def classify(self, path):
        rel = os.path.relpath(path, self.chdir)
        parts = rel.split(os.sep)
        base = parts[-1]
        if rel == ".":
            return dict(cls="chdir", j=0)
        if len(parts) == 1:
            if base == "drf_properties.h5":
                return dict(cls="props", j=0)
            if base == "tmp.drf_properties.h5":
                return dict(cls="tmpprops", j=0)
            if re.match(r"^\d{4}-\d\d-\d\dT\d\d-\d\d-\d\d$", base):
                return dict(cls="dir", j=0, sub=base)
            return dict(cls="other", j=0, name=base)
        m = RE_FINAL.match(base)
        if m and len(parts) == 2:
            t = int(m.group(1)) * 1000 + int(m.group(2))
            return dict(cls="final", j=self.cc.win_of_ms(t))
        if base.startswith("tmp.") and RE_FINAL.match(base[4:]) and len(parts) == 2:
            m = RE_FINAL.match(base[4:])
            t = int(m.group(1)) * 1000 + int(m.group(2))
            return dict(cls="tmp", j=self.cc.win_of_ms(t))
        return dict(cls="other", j=0, name=base)

    # ---- projection ---------------------------------------------------------------------------------------
    def snapshot(self, tag):
        cc = self.cc
        fin, tmp, other = {}, [], []
        props = "none"
        if os.path.isdir(self.chdir):
            for dp, dn, fn in os.walk(self.chdir):
                for f in fn:
                    k = self.classify(os.path.join(dp, f))
                    if k["cls"] == "final":
                        fin[k["j"]] = os.path.join(dp, f)
                    elif k["cls"] == "tmp":
                        tmp.append(k["j"])
                    elif k["cls"] == "props":
                        try:
                            with h5py.File(os.path.join(dp, f), "r") as h:
                                props = "ok" if "sample_rate_numerator" in h.attrs and "digital_rf_version" in h.attrs else "partial"
                        except Exception:
                            props = "unreadable"
                    elif k["cls"] == "tmpprops":
                        pass
                    else:
                        other.append(k.get("name", "?"))
        files, changed = [], []
        for j in sorted(fin):
            p = fin[j]
            try:
                with open(p, "rb") as fh:
                    h = hashlib.sha1(fh.read()).hexdigest()
            except OSError:
                h = "unreadable"
            if p not in self.seen:
                self.seen[p] = h
                files.append(self.inspect(j, p))
            elif self.seen[p] != h:
                changed.append(j)
        for p in self.seen:
            if not os.path.exists(p):
                changed.append(self.classify(p)["j"])
        ev = dict(ev="snap", tag=tag, fin=sorted(fin), tmp=sorted(tmp), props=props, files=files, changed=sorted(set(changed)),
                  other=len(other))
        self.events.append(ev)
        return ev

    def inspect(self, j, path):
        cc = self.cc
        rec = dict(j=j, ok=True, data=[], fill=[], bad=0, rows=0)
        try:
            with h5py.File(path, "r") as f:
                idx = f["rf_data_index"][...]
                arr = f["rf_data"][...]
                dlen = arr.shape[0]
                rec["rows"] = int(len(idx))
                if len(idx) == 0 or dlen == 0:
                    rec["ok"] = False
                ds, fs, bad = [], [], 0
                for i, r in enumerate(idx):
                    off = int(r[1])
                    end = dlen if i + 1 == len(idx) else int(idx[i + 1][1])
                    if end <= off or off >= dlen:
                        continue
                    kinds = cc.vals.classify(arr[off:end], int(r[0]))
                    ds += cd.segs(kinds, int(r[0]) - cc.B, 0)
                    fs += cd.segs(kinds, int(r[0]) - cc.B, 1)
                    bad += int((kinds == 2).sum())
                rec.update(data=cd.merge_runs(ds), fill=cd.merge_runs(fs), bad=bad)
        except Exception as e:
            rec.update(ok=False, err="%s: %s" % (type(e).__name__, str(e)[:80]))
        return rec

    def reader_pass(self, rid, reader_box, digital_rf, fresh, archive=False, archive_last=False):
        """one pass of a (possibly long-lived) DigitalRFReader: bounds + read of everything + listing.
        archive=True: the reader is opened on two top-level directories, an archive holding the same channel (its
        properties file, no data files left) and the live one"""
        cc = self.cc
        tops = self.top
        if archive:
            arch = os.path.join(self.root, "archive")
            prop = os.path.join(self.chdir, "drf_properties.h5")
            aprop = os.path.join(arch, "ch", "drf_properties.h5")
            if os.path.exists(prop) and not os.path.exists(aprop):
                os.makedirs(os.path.join(arch, "ch"), exist_ok=True)
                shutil.copy(prop, aprop)
            if os.path.exists(aprop):
                tops = [self.top, arch] if archive_last else [arch, self.top]
        ev = dict(ev="rpass", r=rid, fresh=fresh, ok=True, nochannel=False, blocks=[], data=[], fill=[], bad=0, has=False, first=0, last=0)
        try:
            if reader_box[0] is None:
                try:
                    reader_box[0] = digital_rf.DigitalRFReader(tops)
                except ValueError as e:
                    # "no channels found": allowed before the channel exists
                    ev["nochannel"] = True
                    self.events.append(ev)
                    return ev
            rd = reader_box[0]
            if "ch" not in rd.get_channels():
                ev["nochannel"] = True
                reader_box[0] = None
                self.events.append(ev)
                return ev
            b = rd.get_bounds("ch")
            if b[0] is not None:
                ev.update(has=True, first=int(b[0]) - cc.B, last=int(b[1]) - cc.B)
                lo, hi = cc.bound[0] + cc.B - 3, cc.bound[-1] + cc.B + 3
                self.npass = getattr(self, "npass", 0) + 1
                if self.npass % 3 == 0:
                    # every third pass asks for a range of far more than a thousand file periods around the recording
                    wide = 1500 * max(cc.bound[i + 1] - cc.bound[i] for i in range(len(cc.bound) - 1))
                    if (self.npass // 3) % 2 or cc.mode != "gapped" or self.calls_open != 1:
                        lo, hi = max(0, lo - wide), hi + wide
                    else:
                        # ... starting at the first sample of the recording (inside its first file, not on a file time)
                        lo, hi = self.start_rel + cc.B, hi + wide
                r = rd.read(lo, hi, "ch")
                blocks, ds, fs, bad = [], [], [], 0
                for k, arr in sorted(r.items(), key=lambda kv: int(kv[0])):
                    k = int(k)
                    blocks.append([k - cc.B, k - cc.B + len(arr) - 1])
                    kinds = cc.vals.classify(arr, k)
                    ds += cd.segs(kinds, k - cc.B, 0)
                    fs += cd.segs(kinds, k - cc.B, 1)
                    bad += int((kinds == 2).sum())
                ev.update(blocks=blocks, data=cd.merge_runs(ds), fill=cd.merge_runs(fs), bad=bad)
        except Exception as e:
            ev.update(ok=False, exc="%s: %s" % (type(e).__name__, str(e)[:100]))
            reader_box[0] = None
        self.events.append(ev)
        return ev

    def listing(self, digital_rf):
        ev = dict(ev="ls", ok=True, fin=[], tmpseen=False)
        try:
            out = digital_rf.lsdrf(self.top, include_drf=True, include_dmd=False, include_drf_properties=False)
            for p in out:
                k = self.classify(p)
                if k["cls"] == "final":
                    ev["fin"].append(k["j"])
                else:
                    ev["tmpseen"] = True
            ev["fin"] = sorted(ev["fin"])
        except Exception as e:
            ev.update(ok=False, exc="%s: %s" % (type(e).__name__, str(e)[:100]))
        self.events.append(ev)
        return ev

    # ---- the run --------------------------------------------------------------------------------------------
    def restart(self, ops):
        """a new writer process on the tree the killed one left behind; the event list goes on"""
        self.ops = ops
        self.killed = False
        self.events.append(dict(ev="restart"))
        return self.run(fresh=False)

    def run(self, fresh=True):
        cc = self.cc
        if fresh:
            if os.path.exists(self.root):
                shutil.rmtree(self.root)
            os.makedirs(self.chdir)
        sp = os.path.join(self.root, "ctl.sock")
        if os.path.exists(sp):
            os.unlink(sp)
        srv = socket.socket(socket.AF_UNIX, socket.SOCK_STREAM)
        srv.bind(sp)
        srv.listen(4)
        job = dict(
            cfg=dict(n=cc.n, d=cc.d, fc=cc.fc, sc=cc.sc, dtype=cc.dtype.str, is_complex=cc.is_complex, nsub=cc.nsub, mode=cc.mode,
                     compression=cc.compression, checksum=cc.checksum, seed=cc.vals.seed, B=cc.B),
            dir=self.chdir, ctl=sp, ops=self.ops, verif=self.verif)
        jf = os.path.join(self.root, "job.json")
        json.dump(job, open(jf, "w"))
        env = dict(os.environ, LD_PRELOAD=self.shim, VERIF_FS_ROOT=self.top, VERIF_FS_CTL=sp, PYTHONPATH=self.stage,
                   PYTHONDONTWRITEBYTECODE="1", HDF5_USE_FILE_LOCKING="FALSE")
        here = os.path.dirname(os.path.abspath(__file__))
        self.proc = subprocess.Popen(["/venv/bin/python", os.path.join(here, "writer_proc.py"), jf], env=env,
                                     stdout=subprocess.DEVNULL, stderr=subprocess.DEVNULL)
        conns = {}
        srv.setblocking(False)
        done = False
        while not done:
            rl, _, _ = select.select([srv] + list(conns), [], [], 30.0 if conns else 0.05)
            if not rl:
                if self.proc.poll() is not None:
                    break
                continue
            for s in rl:
                if s is srv:
                    c, _ = srv.accept()
                    conns[c] = c.makefile("rwb", buffering=0)
                    continue
                f = conns[s]
                line = f.readline()
                if not line:
                    del conns[s]
                    if not conns and self.proc.poll() is not None:
                        done = True
                    continue
                m = json.loads(line)
                if "phase" in m:
                    if m["phase"] == "begin":
                        self.cur_call = m["call"]
                        runs = []
                        if m["op"] == "open":
                            self.start_rel = m["args"][0] - cc.B
                            self.calls_open += 1
                        elif m["op"] == "write":
                            runs = [[self.start_rel + m["args"][0], m["args"][1]]]
                        elif m["op"] == "blocks":
                            runs = [[self.start_rel + a, n] for a, n in m["args"][0]]
                        self.events.append(dict(ev="call", phase="begin", i=m["call"], op=m["op"], runs=runs))
                    elif m["phase"] == "end":
                        self.events.append(dict(ev="call", phase="end", i=m["call"], resp=m["resp"], ret=m.get("ret", -1), exc=m.get("exc", "")))
                        self.calls[m["call"]] = m["resp"]
                    else:
                        self.events.append(dict(ev="call", phase="exit", i=m["call"]))
                    f.write(b"go\n")
                    continue
                if "done" in m:
                    # result of the operation just executed
                    for e in reversed(self.events):
                        if e["ev"] == "op" and e["seq"] == m["seq"]:
                            e["res"] = "ok" if m["res"] >= 0 else "fail"
                            e["errno"] = m["errno"]
                            break
                    continue
                # a mutating operation is about to be executed
                self.nops += 1
                k = self.classify(m["path"])
                k2 = self.classify(m["path2"]) if m["path2"] else dict(cls="none", j=0)
                op = dict(ev="op", seq=m["seq"], n=self.nops, op=m["op"], cls=k["cls"], j=k["j"], cls2=k2["cls"], j2=k2["j"],
                          call=self.cur_call, res="pending", inj=False, creat=bool(m["b"]) if m["op"] == "open" else False)
                if self.observe:
                    self.observe(self, "op", op)
                dec = self.policy(self, op)
                if dec == "kill":
                    self.proc.send_signal(signal.SIGKILL)
                    self.proc.wait()
                    self.killed = True
                    op["res"] = "killed"
                    self.events.append(dict(ev="kill", n=self.nops, op=op["op"], cls=op["cls"], j=op["j"]))
                    done = True
                    break
                if isinstance(dec, tuple) and dec[0] == "fail":
                    self.events.append(dict(ev="inject", n=self.nops, errno=dec[1]))
                self.events.append(op)
                if isinstance(dec, tuple) and dec[0] == "fail":
                    op["inj"] = True
                    f.write(("fail %d\n" % dec[1]).encode())
                else:
                    f.write(b"go\n")
        try:
            self.proc.wait(timeout=30)
        except subprocess.TimeoutExpired:
            self.proc.kill()
            self.proc.wait()
        self.exit_code = self.proc.returncode
        for s in list(conns):
            s.close()
        srv.close()
        self.events.append(dict(ev="exit", code=int(self.exit_code if self.exit_code is not None else -99), killed=self.killed))
        if self.observe:
            self.observe(self, "end", None)
        return self

    def cleanup(self):
        shutil.rmtree(self.root, ignore_errors=True)
