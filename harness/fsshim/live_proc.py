"""Free-running writer / reader processes for C09 (no interposer).  argv: role jobfile"""
import json
import os
import sys
import time

import numpy as np

role, jf = sys.argv[1], sys.argv[2]
job = json.load(open(jf))
sys.path.insert(0, job["verif"])
from harness.drivers import chan_drv as cd  # noqa: E402
import digital_rf  # noqa: E402

c = job["cfg"]
vals = cd.Values(np.dtype(c["dtype"]), c["nsub"], 2 if c["is_complex"] else 1, c["seed"])
top = job["top"]
if role == "writer":
    w = digital_rf.DigitalRFWriter(os.path.join(top, "ch"), np.dtype(c["dtype"]), c["sc"], c["fc"], job["start"], c["n"], c["d"],
                                   compression_level=c["compression"], checksum=c["checksum"], is_complex=c["is_complex"],
                                   num_subchannels=c["nsub"], is_continuous=(c["mode"] != "gapped"), marching_periods=False)
    for ns, n in job["writes"]:
        w.rf_write(vals.array(np.arange(job["start"] + ns, job["start"] + ns + n, dtype=np.uint64)), ns)
        time.sleep(job["pause"])
    w.close()
else:
    rid = int(role[6:])
    out = open(job["out"] % rid, "w")
    rd = None
    B = c["B"]
    lo, hi = job["lo"], job["hi"]
    after = 0
    while after < 3:
        closed = os.path.exists(os.path.join(job["root"], "writer_done"))
        ev = dict(ev="rpass", r=rid, ok=True, blocks=[], data=[], bad=0, afterclose=closed)
        try:
            if rd is None:
                try:
                    rd = digital_rf.DigitalRFReader(top)
                except ValueError:
                    rd = None
            if rd is not None and "ch" in rd.get_channels():
                b = rd.get_bounds("ch")
                if b[0] is not None:
                    r = rd.read(lo, hi, "ch")
                    ds, bad = [], 0
                    for k, arr in r.items():
                        k = int(k)
                        ev["blocks"].append([k - B, k - B + len(arr) - 1])
                        kinds = vals.classify(arr, k)
                        ds += cd.segs(kinds, k - B, 0)
                        bad += int((kinds == 2).sum())
                    ev["data"] = cd.merge_runs(ds)
                    ev["bad"] = bad
            elif rd is not None:
                rd = None
        except Exception as e:  # noqa: BLE001
            ev.update(ok=False, exc="%s: %s" % (type(e).__name__, str(e)[:100]))
            rd = None
        out.write(json.dumps(ev) + "\n")
        out.flush()
        if closed:
            after += 1
        time.sleep(job["rpause"])
