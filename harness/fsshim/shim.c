/* LD_PRELOAD interposer: scheduler / killer / fault injector for a writer subprocess.
 * env: VERIF_FS_ROOT=<dir prefix>  VERIF_FS_CTL=<unix socket path>
 * Before each mutating operation on a path under ROOT (open for writing/creating, write, pwrite, ftruncate, close of
 * such a descriptor, rename, unlink/remove, mkdir, rmdir) it sends one JSON line
 *      {"seq":N,"op":"...","path":"...","path2":"...","a":..,"b":..}
 * and waits for "go" | "fail <errno>"; after the operation it sends {"seq":N,"done":"...","res":..,"errno":..}.
 * A failing close is emulated the way Linux behaves: the descriptor is released and -1 is returned. */
#define _GNU_SOURCE
#include <dlfcn.h>
#include <stdio.h>
#include <stdarg.h>
#include <string.h>
#include <stdlib.h>
#include <fcntl.h>
#include <unistd.h>
#include <errno.h>
#include <sys/types.h>
#include <sys/stat.h>
#include <sys/socket.h>
#include <sys/un.h>
static int ctl = -1; static long seqno = 0; static int busy = 0;
#define MAXFD 4096
static char fdpath[MAXFD][512];
#define REAL(name) static __typeof__(name) *real; if(!real) real = dlsym(RTLD_NEXT, #name)
static const char *root(void){ static const char *r; static int init; if(!init){ r=getenv("VERIF_FS_ROOT"); init=1;} return r; }
static int under(const char *p){ const char *r=root(); return r && p && strncmp(p,r,strlen(r))==0; }
static ssize_t real_write(int fd,const void*b,size_t n){ static ssize_t (*rw)(int,const void*,size_t); if(!rw) rw=dlsym(RTLD_NEXT,"write"); return rw(fd,b,n); }
static void connect_ctl(void){
  const char *p=getenv("VERIF_FS_CTL"); if(!p){ ctl=-2; return; }
  busy=1; ctl=socket(AF_UNIX,SOCK_STREAM|SOCK_CLOEXEC,0); struct sockaddr_un a; memset(&a,0,sizeof a); a.sun_family=AF_UNIX; strncpy(a.sun_path,p,sizeof(a.sun_path)-1);
  if(connect(ctl,(struct sockaddr*)&a,sizeof a)<0){ ctl=-2; } busy=0; }
static int ask(const char *op, const char *path, const char *path2, long a, long b){
  if(busy) return 0; if(ctl==-1) connect_ctl(); if(ctl<0) return 0;
  busy=1; char buf[1600]; int n=snprintf(buf,sizeof buf,"{\"seq\":%ld,\"op\":\"%s\",\"path\":\"%s\",\"path2\":\"%s\",\"a\":%ld,\"b\":%ld}\n",++seqno,op,path,path2?path2:"",a,b);
  real_write(ctl,buf,n);
  char r[64]; int i=0; while(i<63){ char c; if(read(ctl,&c,1)!=1) break; if(c=='\n') break; r[i++]=c; } r[i]=0; busy=0;
  if(strncmp(r,"fail ",5)==0) return atoi(r+5); return 0; }
static void tell(const char *op, long res, int err){ if(busy||ctl<0) return; busy=1; char buf[200]; int n=snprintf(buf,sizeof buf,"{\"seq\":%ld,\"done\":\"%s\",\"res\":%ld,\"errno\":%d}\n",seqno,op,res,err); real_write(ctl,buf,n); busy=0; }
static int do_open(int (*real)(const char*,int,...), const char *path, int flags, mode_t m){
  int track = under(path) && (flags&(O_WRONLY|O_RDWR|O_CREAT|O_TRUNC)) && !busy;
  if(track){ int e=ask("open",path,NULL,flags,(flags&O_CREAT)?1:0); if(e){ errno=e; tell("open",-1,e); return -1; } }
  int fd=real(path,flags,m); int se=errno;
  if(track){ if(fd>=0&&fd<MAXFD) strncpy(fdpath[fd],path,511); tell("open",fd,fd<0?se:0); } errno=se; return fd; }
int open(const char *path,int flags,...){ REAL(open); mode_t m=0; if(flags&(O_CREAT|O_TMPFILE)){va_list ap; va_start(ap,flags); m=va_arg(ap,mode_t); va_end(ap);} return do_open(real,path,flags,m);}
int open64(const char *path,int flags,...){ REAL(open64); mode_t m=0; if(flags&(O_CREAT|O_TMPFILE)){va_list ap; va_start(ap,flags); m=va_arg(ap,mode_t); va_end(ap);} return do_open(real,path,flags,m);}
int creat(const char *path, mode_t m){ REAL(open); return do_open(real,path,O_CREAT|O_WRONLY|O_TRUNC,m); }
#define TRACKED(fd) ((fd)>=0&&(fd)<MAXFD&&fdpath[fd][0]&&!busy)
ssize_t pwrite(int fd,const void*b,size_t n,off_t o){ REAL(pwrite); if(TRACKED(fd)){ int e=ask("pwrite",fdpath[fd],NULL,n,o); if(e){errno=e; tell("pwrite",-1,e); return -1;} ssize_t r=real(fd,b,n,o); tell("pwrite",r,r<0?errno:0); return r;} return real(fd,b,n,o);}
ssize_t pwrite64(int fd,const void*b,size_t n,off_t o){ REAL(pwrite64); if(TRACKED(fd)){ int e=ask("pwrite",fdpath[fd],NULL,n,o); if(e){errno=e; tell("pwrite",-1,e); return -1;} ssize_t r=real(fd,b,n,o); tell("pwrite",r,r<0?errno:0); return r;} return real(fd,b,n,o);}
ssize_t write(int fd,const void*b,size_t n){ if(TRACKED(fd)){ int e=ask("write",fdpath[fd],NULL,n,0); if(e){errno=e; tell("write",-1,e); return -1;} ssize_t r=real_write(fd,b,n); tell("write",r,r<0?errno:0); return r;} return real_write(fd,b,n);}
int ftruncate(int fd,off_t l){ REAL(ftruncate); if(TRACKED(fd)){ int e=ask("ftruncate",fdpath[fd],NULL,l,0); if(e){errno=e; tell("ftruncate",-1,e); return -1;} int r=real(fd,l); tell("ftruncate",r,r<0?errno:0); return r;} return real(fd,l);}
int ftruncate64(int fd,off_t l){ REAL(ftruncate64); if(TRACKED(fd)){ int e=ask("ftruncate",fdpath[fd],NULL,l,0); if(e){errno=e; tell("ftruncate",-1,e); return -1;} int r=real(fd,l); tell("ftruncate",r,r<0?errno:0); return r;} return real(fd,l);}
int close(int fd){ REAL(close); if(TRACKED(fd)){ char p[512]; strcpy(p,fdpath[fd]); int e=ask("close",p,NULL,0,0); fdpath[fd][0]=0; int r=real(fd); if(e){errno=e; tell("close",-1,e); return -1;} tell("close",r,r<0?errno:0); return r;} return real(fd);}
int rename(const char*a,const char*b){ REAL(rename); if(under(a)&&!busy){ int e=ask("rename",a,b,0,0); if(e){errno=e; tell("rename",-1,e); return -1;} int r=real(a,b); tell("rename",r,r<0?errno:0); return r;} return real(a,b);}
int unlink(const char*a){ REAL(unlink); if(under(a)&&!busy){ int e=ask("unlink",a,NULL,0,0); if(e){errno=e; tell("unlink",-1,e); return -1;} int r=real(a); tell("unlink",r,r<0?errno:0); return r;} return real(a);}
int remove(const char*a){ REAL(remove); if(under(a)&&!busy){ int e=ask("unlink",a,NULL,0,0); if(e){errno=e; tell("unlink",-1,e); return -1;} int r=real(a); tell("unlink",r,r<0?errno:0); return r;} return real(a);}
int mkdir(const char*a,mode_t m){ REAL(mkdir); if(under(a)&&!busy){ int e=ask("mkdir",a,NULL,0,0); if(e){errno=e; tell("mkdir",-1,e); return -1;} int r=real(a,m); tell("mkdir",r,r<0?errno:0); return r;} return real(a,m);}
int rmdir(const char*a){ REAL(rmdir); if(under(a)&&!busy){ int e=ask("rmdir",a,NULL,0,0); if(e){errno=e; tell("rmdir",-1,e); return -1;} int r=real(a); tell("rmdir",r,r<0?errno:0); return r;} return real(a);}
