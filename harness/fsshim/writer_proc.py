"""Writer subprocess run under the LD_PRELOAD interposer.  argv[1]: JSON job file.
Job: {"cfg": {n,d,fc,sc,dtype,is_complex,nsub,mode,compression,checksum,seed,B}, "dir": channel dir, "ctl": socket path,
      "ops": [["open", start_abs], ["write", ns, len], ["blocks", [[gs,len],...]], ["close"]]}
Every API call is bracketed on the control socket: {"call":i,"phase":"begin",...} / {"call":i,"phase":"end","resp":..,"ret":..}."""
import json
import os
import socket
import sys

import numpy as np

job = json.load(open(sys.argv[1]))
sys.path.insert(0, job["verif"])
from harness.drivers import chan_drv as cd  # noqa: E402
import digital_rf  # noqa: E402

c = job["cfg"]
vals = cd.Values(np.dtype(c["dtype"]), c["nsub"], 2 if c["is_complex"] else 1, c["seed"])
sock = socket.socket(socket.AF_UNIX, socket.SOCK_STREAM)
sock.connect(job["ctl"])
f = sock.makefile("rwb", buffering=0)


def tell(**kw):
    f.write((json.dumps(kw) + "\n").encode())
    f.readline()


w = None
start = 0
kept = []
for i, op in enumerate(job["ops"]):
    tell(call=i, phase="begin", op=op[0], args=op[1:])
    resp, ret = "ok", -1
    try:
        if op[0] == "open":
            start = op[1]
            w = digital_rf.DigitalRFWriter(
                job["dir"], np.dtype(c["dtype"]), c["sc"], c["fc"], start, c["n"], c["d"], uuid_str="feedc0de", compression_level=c["compression"],
                checksum=c["checksum"], is_complex=c["is_complex"], num_subchannels=c["nsub"], is_continuous=(c["mode"] != "gapped"),
                marching_periods=False)
        elif op[0] == "write":
            ns, n = op[1], op[2]
            arr = vals.array(np.arange(start + ns, start + ns + n, dtype=np.uint64))
            ret = int(w.rf_write(arr, ns))
        elif op[0] == "blocks":
            runs = op[1]
            arr = np.concatenate([vals.array(np.arange(start + a, start + a + n, dtype=np.uint64)) for a, n in runs])
            gl = np.array([a for a, n in runs], dtype=np.uint64)
            off = np.cumsum([0] + [n for a, n in runs[:-1]]).astype(np.uint64)
            ret = int(w.rf_write_blocks(arr, gl, off))
        elif op[0] == "past":
            # a call the writer has to refuse (a write into the past); the application goes on afterwards
            ret = int(w.rf_write(vals.array(np.arange(start, start + 2, dtype=np.uint64)), 0))
        elif op[0] == "close":
            w.close()
    except Exception as e:  # noqa: BLE001
        resp = "err"
        ret = -1
        exc = "%s: %s" % (type(e).__name__, str(e)[:120])
        kept.append(e)      # an application's error log: the exception (and what its traceback refers to) stays alive
        tell(call=i, phase="end", resp=resp, ret=ret, exc=exc)
        continue
    tell(call=i, phase="end", resp=resp, ret=ret)
tell(call=len(job["ops"]), phase="exit")
os._exit(0)
