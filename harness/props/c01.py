"""C01 - RF write/read round-trip fidelity (DrfChannel: RoundTrip / CleanCloseComplete / InWindow)."""
from . import chan_common as cc

PREFIXES = ("C01-", "final-file-set", "C09-reader-raised", "C02-tmp-files", "C04-file-outside")


def run(ctx):
    cc.run(ctx, PREFIXES, nsim=ctx.pick(40, 700), nrand=ctx.pick(70, 1400), sim_depth=ctx.pick(12, 16),
           what="E2: TLC-simulated behaviours of MCDrfChannel executed on DigitalRFWriter/Reader at three realisations of the "
                "model's file partition; E3: random configurations (all integer/float widths, real/complex, both byte orders, "
                "1-5 subchannels, rates n/d incl. x/3, x/7, x/1001 and primes near 2^32, cadences down to 1-2 samples per file, "
                "gapped / continuous / compressed, start 1980-2100) x rf_write / rf_write_blocks histories x reads on all "
                "file, block and gap edges; values are a keyed PRF of the absolute index over the full element range",
           observe_pairs=ctx.pick(30, 45), capi_every=3,
           # several channels of one rate and different cadences written and read by one process
           extra=lambda c, drf: cc.multi_writer_histories(c, drf, c.pick(12, 150), npairs=8, nvec=2)[0]
           + cc.fragmented_histories(c, drf, c.pick(4, 60)))
