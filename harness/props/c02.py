"""C02 - kill-safe publication of data files (DrfFs protocol + snapshots at every operation + real kills)."""
from ..core import quiet_stderr
from ..drivers import fs_drv
from . import fs_common as fc

PREFIXES = ("C02-", "pub-", "C04-file-outside", "C07-fill-outside", "C09-reader-failed", "C09-reader-differs", "C09-reader-returned")


def run(ctx):
    fc.e1(ctx)
    env, drf = fc.env(ctx)
    rng = ctx.rng
    scen = []
    nkills = 0
    with quiet_stderr():
        for i in range(ctx.pick(5, 60)):
            cc, ops = fs_drv.make_job(rng, ctx.seed * 977 + i, restart=("backfill" if i % 4 == 3 else i % 2 == 1), digits=(i == 2))
            s = fs_drv.stepped(fc.env_for(env, i), drf, cc, ops, "step%d%s" % (i, "-backfill" if i % 4 == 3 else ("-restart" if i % 2 == 1 else "")), rng)
            scen.append(s)
            n = s["nops"]
            # a real SIGKILL while the writer is blocked before operation k: always some inside the creation of the channel
            # (properties file), right before / after the first finalizing rename, and a random sample of the rest
            opl = [e for e in s["events"] if e["ev"] == "op"]
            first_rename = next((e["n"] for e in opl if e["op"] == "rename" and e["cls"] == "tmp"), n)
            forced = {2, 4, 6, first_rename, min(n, first_rename + 1)}
            ks = range(1, n + 1) if (not ctx.quick and i < 10) else sorted(
                {k for k in forced if 1 <= k <= n} | set(rng.sample(range(1, n + 1), min(n, ctx.pick(4, 12)))))
            for kn, k in enumerate(ks):
                # after two of three kills a new recorder process is started on the tree the dead one left behind
                rs = [None, "same", "go-on", "same", "later", "same"][(kn + i) % 6]
                scen.append(fs_drv.stepped(fc.env_for(env, i), drf, cc, ops, "kill%d@%d%s" % (i, k, "+restart-" + rs if rs else ""), rng, kill_at=k,
                                           every=ctx.pick(4, 2), restart=rs))
                nkills += 1
    fc.account(ctx, scen, "recordings (gapped / continuous / compressed, multi-file writes, blocks, subdirectory change) stepped one "
               "file-system operation at a time with a tree snapshot (raw h5py decode of every final file, tmp names, properties file), "
               "reader passes and listings between operations; real SIGKILLs at sampled (quick) / all (thorough, first 10 jobs) stops "
               "followed by a post-mortem snapshot, a fresh reader and a listing, and (two of three) by a new recorder process on the "
               "same tree whose write falls into the file period that was in progress at the kill (then closes, or goes on to a free "
               "period first) or into a later one")
    ctx.extra["restarts_after_kill"] = sum(1 for s in scen for e in s["events"] if e["ev"] == "restart")
    ctx.extra["real_kills"] = nkills
    ctx.extra["crash_points"] = sum(1 for s in scen for e in s["events"] if e["ev"] == "snap")
    ctx.validate("DrfFsTrace", "DrfFsTrace.cfg", scen, label="stepped recording", relevant=fc.relevance(PREFIXES))
