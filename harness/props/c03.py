"""C03 - exact sample-index <-> time conversion (TimeConv: FloorAlg/CeilAlg = definitions on a scaled machine; TimeConvTrace on limbs)."""
from ..core import Machinery
from ..drivers import timeconv_drv as tc

PRIMES = [4294967291, 4294967279, 4294967231, 2147483647, 65537, 65521]


def draw(rng):
    fam = rng.random()
    if fam < 0.25:
        n = rng.choice([1, 2, 3, 7, 10, 50, 100, 999, 1000, 1001, 44100, 48000, 96000, 65535, 65536, 65537, 10**6, 25 * 10**6, 122880000,
                        30000000, 2**31, 2**32 - 1, 10**9])
    elif fam < 0.5:
        n = rng.choice(PRIMES + [2**32 - 1, 2**32 - 2, 2**32 - 5])
    elif fam < 0.75:
        n = rng.randint(1, 2**32 - 1)
    else:
        n = rng.randint(1, 2000)
    dmax = min(10**9, (2**64 - 1) // n)
    d = rng.choice([1, 1, 1, 3, 7, 10, 11, 1001, 1000, rng.randint(1, dmax), rng.randint(1, min(dmax, 100)), dmax])
    d = max(1, min(d, dmax))
    # resulting time before year 9999: k*d/n < 2.5e11 s ; and k < 2^63
    kmax = min(2**63 - 2, (253402300799 * n) // d - 1)
    if kmax < 1:
        kmax = 1
    r = rng.random()
    if r < 0.3:
        k = rng.randint(0, kmax)
    elif r < 0.55:
        q = rng.randint(0, kmax // n)
        k = min(kmax, q * n + rng.choice([0, 1, n - 1, n // 2, rng.randint(0, n - 1)]))
    elif r < 0.7:
        k = kmax - rng.randint(0, min(kmax, 1000))
    elif r < 0.85:
        # near the present / the 2038 boundary
        t = rng.choice([1700000000, 2**31 - 1, 2**31, 2**32, 4102444800, rng.randint(0, 4102444800)])
        k = min(kmax, t * n // d + rng.randint(0, 3))
    else:
        k = rng.randint(0, min(kmax, 10**6))
    return k, n, d


def run_worker(ctx, stage, reqs, bg=False, tag=""):
    """the requests through harness/drivers/timeconv_worker.py; returns (events, number of inputs that killed the worker)
    bg: a recording goes on in another thread of the worker meanwhile"""
    import json
    import os
    import subprocess
    import sys

    from ..core import VERIF

    fin, fout = os.path.join(ctx.work, "c03_in%s.txt" % tag), os.path.join(ctx.work, "c03_out%s.ndjson" % tag)
    with open(fin, "w") as fh:
        for r in reqs:
            fh.write(" ".join(str(x) for x in r) + "\n")
    open(fout, "w").close()
    skip, crashes, evs = 0, 0, []
    while skip < len(reqs):
        p = subprocess.run([sys.executable, os.path.join(VERIF, "harness", "drivers", "timeconv_worker.py"), stage, fin, fout, str(skip), VERIF]
                           + (["bg"] if bg else []),
                           stdout=subprocess.DEVNULL, stderr=subprocess.PIPE)
        with open(fout) as fh:
            lines = fh.read().splitlines()
        done = len(lines)
        if p.returncode == 0:
            if done != len(reqs) - crashes:
                raise Machinery("conversion worker returned %d of %d records" % (done, len(reqs) - crashes))
            break
        if p.returncode > 0:
            raise Machinery("conversion worker failed: %s" % p.stderr.decode(errors="replace")[-800:])
        # killed by a signal: the request after the last record is the one native code died on
        bad = done + crashes
        crashes += 1
        ctx.violation("the conversion functions killed the calling process (signal %d) on input %s" % (-p.returncode, " ".join(str(x) for x in reqs[bad])),
                      {"request": list(reqs[bad]), "signal": -p.returncode})
        skip = bad + 1
        if crashes >= 5:
            break
    with open(fout) as fh:
        evs = [json.loads(l) for l in fh if l.strip()]
    return evs, crashes


def run(ctx):
    ctx.model_check("MCTimeConv", "MCTimeConv.cfg" if not ctx.quick else "MCTimeConv_quick.cfg", coverage=False)
    ctx.model_check("MCTimeConv", "MCTimeConv_witness.cfg", expect_violated=("W_AlwaysOnGrid",), coverage=False, tag="w")
    st = ctx.stage()
    cv = tc.Conv(st)
    if not cv.has_c:
        raise Machinery("digital_rf_get_timestamp_floor / digital_rf_get_sample_ceil are not exported by the built extension")
    rng = ctx.rng
    # the inputs first; the real functions are called in a worker process, so that an input on which native code dies
    # (a division by zero, say) is named instead of taking the check down
    reqs = []
    # (a) the complete small scope at the real unit constants
    K, N, D = ctx.pick((96, 40, 12), (512, 40, 12))
    for n in range(1, N):
        for d in range(1, D):
            for k in range(K):
                reqs.append(("conv", k, n, d))
    nsmall = len(reqs)
    # (b) biased random draws at full magnitude
    for _ in range(ctx.pick(12000, 600000)):
        reqs.append(("conv",) + draw(rng))
    nconv = len(reqs)
    # (c) ceil on arbitrary timestamps (not on the sample grid), incl. 1..999 ps after an exact sample instant
    for _ in range(ctx.pick(8000, 300000)):
        k, n, d = draw(rng)
        sec, ps = (k * d) // n, ((k * d) % n) * 10**12 // n       # the definition (the real floor is under test elsewhere)
        r = rng.random()
        if r < 0.4:
            ps2 = ps + rng.choice([1, 2, 999, 1000, 1001, rng.randint(1, 10**6)])
        elif r < 0.6:
            ps2 = max(0, ps - rng.choice([1, 2, 999, 1000]))
        elif r < 0.8:
            ps2 = rng.randint(0, 10**12 - 1)
        else:
            ps2 = rng.choice([0, 1, 10**12 - 1, 999999999000, 500000000000])
        if ps2 >= 10**12:
            sec, ps2 = sec + 1, ps2 - 10**12
        sec = rng.choice([sec, sec, rng.randint(0, 253402300799)])
        if (sec * 10**12 + ps2) * n // (d * 10**12) >= 2**63:
            continue
        reqs.append(("ceil", sec, ps2, n, d))
    evs, crashes = run_worker(ctx, st, reqs)
    # (d) the same conversions while a recording goes on in another thread of the process (the calendar step must not share
    # state with the writer's naming of subdirectories)
    breqs = [("conv",) + draw(rng) for _ in range(ctx.pick(40000, 200000))]
    bevs, bcr = run_worker(ctx, st, breqs, bg=True, tag="_bg")
    evs += bevs
    crashes += bcr
    per = 400
    scen = [dict(name="batch%d" % i, events=evs[i:i + per]) for i in range(0, len(evs), per)]
    ctx.evaluations = len(evs)
    ctx.extra.update(
        small_scope_records=nsmall, random_conv_records=nconv - nsmall, ceil_records=len(reqs) - nconv, inputs_that_killed_the_worker=crashes,
        conversions_beside_a_recording_thread=len(bevs),
        rule="complete small scope k<%d, n<%d, d<%d through the real C functions and get_unix_time, plus random draws biased to "
             "k mod n in {0,1,n-1}, k near 2^63 / year 9999, n near 2^32, d up to 10^9 with n*d<2^64, and ceil on timestamps 1-999 ps "
             "off the sample grid; every record is decided by TLC with exact limb arithmetic" % (K, N, D))
    ctx.sample({k: v for k, v in evs[nsmall].items()})
    ctx.sample(evs[-1])
    ctx.validate("TimeConvTrace", "TimeConvTrace.cfg", scen, label="conversion batch")
