"""C04 - deterministic time-partitioned file layout (Placement.tla on a scaled machine; PlacementTrace on limbs)."""
import os

from ..core import quiet_stderr
from ..drivers import chan_gen as cg
from ..drivers import place_drv as pd
from . import chan_common as cc

PREFIXES = ("C04-",)


def run(ctx):
    ctx.model_check("MCPlacement", "MCPlacement.cfg", coverage=False)
    ctx.model_check("MCPlacement", "MCPlacement_witness.cfg", expect_violated=("W_AllFilesSameSize",), coverage=False, tag="w")
    ctx.model_check("MCDrfChannel", "MCDrfChannel_quick.cfg" if ctx.quick else "MCDrfChannel_thorough.cfg", coverage=False, timeout=7200)
    ctx.stage()
    import digital_rf

    rng = ctx.rng
    evs = []
    # (a) every file of random channel histories (same generator as C01)
    with quiet_stderr():
        scen, recs = cc.e3(ctx, digital_rf, ctx.pick(40, 1500), observe_pairs=2, nvec=0)
        nfiles_a = 0
        for cfg, rr in []:
            byd = {}
            for r in rr:
                ov = any(not (r["last"] < a or r["first"] > b) for a, b in byd.get(r["d"], [])) and cfg.mode != "contU"
                byd.setdefault(r["d"], []).append((r["first"], r["last"]))
                evs.append(pd.rf_record(cfg.n, cfg.d, cfg.fc, cfg.sc, r["name_ms"], r["sub"], r["first"], r["last"], cfg.mode == "contU", ov,
                                        tag=cfg.describe()))
                nfiles_a += 1
        # (a2) back-fill: a later session starts earlier and records forward into a subdirectory that already exists
        nback = 0
        want_back = ctx.pick(12, 300)
        for i in range(40 * want_back):
            if nback >= want_back:
                break
            import numpy as np
            from ..drivers import chan_drv as cd
            import shutil
            n, d, fc = cg.random_rate(rng, 400)
            k = rng.choice([2, 3])
            sc_ms = fc * k
            while sc_ms % 1000:
                sc_ms += fc * k
            nw = 3 * (sc_ms // fc) if sc_ms // fc <= 6 else 0
            if not nw:
                continue
            per = sc_ms // fc  # windows per subdirectory
            t0 = (rng.randint(315532800, 4102444800) * 1000) // sc_ms * sc_ms
            cfg = cd.ChanConfig(n, d, fc, sc_ms // 1000, np.dtype("<i2"), False, 1, rng.choice(["gapped", "contU", "contC"]), t0, nw, seed=i)
            root = os.path.join(ctx.work, "chan")
            shutil.rmtree(root, ignore_errors=True)
            os.makedirs(root)
            ch = cd.Channel(digital_rf, root, cfg, [cfg.params()])
            b = cfg.bound
            # session 1: somewhere in the second (or third) subdirectory
            w1 = per + rng.randint(1, per - 1) if per > 1 else per + 1
            ch.open(1, b[w1], 1)
            ch.write([[b[w1], max(1, (b[w1 + 1] - b[w1]))]])
            ch.close()
            # session 2: starts in the first subdirectory and records forward across the subdirectory boundary
            s2 = b[rng.randint(0, per - 1)]
            ch.open(1, s2, 1)
            ch.write([[s2, b[w1] - s2]])
            ch.close()
            ch.observe([1], rng, npairs=3, nvec=0)
            scen.append(ch.scenario("backfill%d" % i))
            recs.append((cfg, ch.file_records))
            shutil.rmtree(root, ignore_errors=True)
            nback += 1
        ctx.extra["backfill_histories"] = nback
        # (a3) several channels of one rate but different cadences recorded by one process at the same time (the layout of a
        # file depends on its own channel's cadences only, whatever other writer objects the process holds or held)
        s3, r3 = cc.multi_writer_histories(ctx, digital_rf, ctx.pick(10, 250))
        scen += s3
        recs += r3
        for cfg, rr in recs:
            byd = {}
            for r in rr:
                ov = any(not (r["last"] < a or r["first"] > b) for a, b in byd.get(r["d"], [])) and cfg.mode != "contU"
                byd.setdefault(r["d"], []).append((r["first"], r["last"]))
                evs.append(pd.rf_record(cfg.n, cfg.d, cfg.fc, cfg.sc, r["name_ms"], r["sub"], r["first"], r["last"], cfg.mode == "contU", ov,
                                        tag=cfg.describe()))
                nfiles_a += 1
        # (b) boundary sweep: samples within one sample period of a file / subdirectory boundary
        ntrip = 0
        # rates whose long double value rounds upward (x/3 with x a power of two times 5^k), file boundaries that fall exactly
        # on a sample, crossed by one contiguous write: always part of the sweep
        fixed = [(n3, 3, fcx, cont) for n3 in (1000000, 500000, 250000, 125000, 2000000, 100000) for fcx in (3, 6, 1000, 30)
                 for cont in (True, False)]
        rng.shuffle(fixed)
        fixed = fixed[:ctx.pick(24, 48)]
        for it in range(ctx.pick(250, 15000)):
            n, d, fc = cg.random_rate(rng, 10**7)
            forced = None
            if it < len(fixed):
                n, d, fc, forced = fixed[it]
            k = rng.choice([1, 2, 5, 10, 60])
            sc_ms = fc * k
            while sc_ms % 1000:
                sc_ms += fc * k
            sc = sc_ms // 1000
            y = rng.randint(1980, 2099)
            import calendar
            t_s = calendar.timegm((y, rng.randint(1, 12), rng.randint(1, 28), rng.randint(0, 23), rng.randint(0, 59), rng.randint(0, 59)))
            if rng.random() < 0.3:
                # calendar corners of the subdirectory name: leap days, the non-leap century year 2100, year ends
                Y, M, D = rng.choice([(2000, 2, 29), (2024, 2, 29), (2096, 2, 29), (2024, 2, 28), (2024, 3, 1), (2100, 2, 28), (2100, 3, 1),
                                      (1999, 12, 31), (2000, 1, 1), (2038, 1, 19), (2099, 12, 31), (1980, 2, 29), (2023, 2, 28), (2023, 3, 1),
                                      (1970, 1, 1), (1970, 1, 1), (2001, 9, 9)])
                t_s = calendar.timegm((Y, M, D, rng.choice([0, 0, 12, 23]), rng.choice([0, 30, 59]), rng.choice([0, 59])))
                if Y == 1970:
                    t_s = rng.choice([0, 1, 2, 59, 3599])        # the first subdirectory periods after the epoch
                elif Y == 2001:
                    t_s = 10**9 - rng.choice([0, 1, 2])          # the second count of the file names gains a digit
            j = t_s * 1000 // fc
            if rng.random() < 0.5:
                j = ((t_s // sc) * sc * 1000) // fc  # a subdirectory boundary
            mode = rng.choice(["gapped", "gapped", "contC", "contU"])
            if mode == "contU" and fc * n / (1000.0 * d) > 20000:
                mode = "gapped"
            if forced is not None:
                j = (j // 3) * 3 + 3              # with d = 3 every third file boundary (in ms) falls exactly on a sample
            rr, nf = pd.boundary_triple(digital_rf, os.path.join(ctx.work, "bt"), rng, n, d, fc, sc, j, mode, contig=forced)
            evs += rr
            ntrip += 1
    per = 300
    tscen = [dict(name="files%d" % i, events=evs[i:i + per]) for i in range(0, len(evs), per)]
    ctx.evaluations = len(evs)
    ctx.extra.update(files_from_histories=nfiles_a, boundary_triples=ntrip, file_records=len(evs),
                     rule="one record per rf@*.h5 produced (name time, subdirectory name, first/last stored index from the raw index) from "
                          "random C01-style histories and from three one-sample writes at FileStart(j*fc)+{-1,0,+1} for random rates, cadences "
                          "and file numbers j in 1980-2100 (half of them on a subdirectory boundary)")
    if evs:
        ctx.sample(evs[0]["raw"])
        ctx.sample(evs[-1]["raw"])
    # the structural half (InWindow / no index in two files / file names) is judged on the channel traces themselves
    ctx.validate("DrfChannelTrace", "DrfChannelTrace.cfg", scen, label="channel history", relevant=cc.relevance(PREFIXES))
    ctx.validate("PlacementTrace", "PlacementTrace.cfg", tscen, label="file placement records", relevant=cc.relevance(PREFIXES))
