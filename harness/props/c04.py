"""C04 - deterministic time-partitioned file layout (Placement.tla on a scaled machine; PlacementTrace on limbs)."""
import os

from ..core import quiet_stderr
from ..drivers import chan_gen as cg
from ..drivers import place_drv as pd
from . import chan_common as cc

PREFIXES = ("C04-",)


def run(ctx):
    ctx.model_check("MCPlacement", "MCPlacement.cfg", coverage=False)
    ctx.model_check("MCPlacement", "MCPlacement_witness.cfg", expect_violated=("W_AllFilesSameSize",), coverage=False, tag="w")
    ctx.model_check("MCDrfChannel", "MCDrfChannel_quick.cfg" if ctx.quick else "MCDrfChannel_thorough.cfg", coverage=False, timeout=7200)
    ctx.stage()
    import digital_rf

    rng = ctx.rng
    evs = []
    # (a) every file of random channel histories (same generator as C01)
    with quiet_stderr():
        scen, recs = cc.e3(ctx, digital_rf, ctx.pick(40, 1500), observe_pairs=2, nvec=0)
        nfiles_a = 0
        for cfg, rr in recs:
            byd = {}
            for r in rr:
                ov = any(not (r["last"] < a or r["first"] > b) for a, b in byd.get(r["d"], [])) and cfg.mode != "contU"
                byd.setdefault(r["d"], []).append((r["first"], r["last"]))
                evs.append(pd.rf_record(cfg.n, cfg.d, cfg.fc, cfg.sc, r["name_ms"], r["sub"], r["first"], r["last"], cfg.mode == "contU", ov,
                                        tag=cfg.describe()))
                nfiles_a += 1
        # (b) boundary sweep: samples within one sample period of a file / subdirectory boundary
        ntrip = 0
        for _ in range(ctx.pick(250, 15000)):
            n, d, fc = cg.random_rate(rng, 10**7)
            k = rng.choice([1, 2, 5, 10, 60])
            sc_ms = fc * k
            while sc_ms % 1000:
                sc_ms += fc * k
            sc = sc_ms // 1000
            y = rng.randint(1980, 2099)
            import calendar
            t_s = calendar.timegm((y, rng.randint(1, 12), rng.randint(1, 28), rng.randint(0, 23), rng.randint(0, 59), rng.randint(0, 59)))
            j = t_s * 1000 // fc
            if rng.random() < 0.5:
                j = ((t_s // sc) * sc * 1000) // fc  # a subdirectory boundary
            mode = rng.choice(["gapped", "gapped", "contC", "contU"])
            if mode == "contU" and fc * n / (1000.0 * d) > 20000:
                mode = "gapped"
            rr, nf = pd.boundary_triple(digital_rf, os.path.join(ctx.work, "bt"), rng, n, d, fc, sc, j, mode)
            evs += rr
            ntrip += 1
    per = 300
    tscen = [dict(name="files%d" % i, events=evs[i:i + per]) for i in range(0, len(evs), per)]
    ctx.evaluations = len(evs)
    ctx.extra.update(files_from_histories=nfiles_a, boundary_triples=ntrip, file_records=len(evs),
                     rule="one record per rf@*.h5 produced (name time, subdirectory name, first/last stored index from the raw index) from "
                          "random C01-style histories and from three one-sample writes at FileStart(j*fc)+{-1,0,+1} for random rates, cadences "
                          "and file numbers j in 1980-2100 (half of them on a subdirectory boundary)")
    if evs:
        ctx.sample(evs[0]["raw"])
        ctx.sample(evs[-1]["raw"])
    # the structural half (InWindow / no index in two files / file names) is judged on the channel traces themselves
    ctx.validate("DrfChannelTrace", "DrfChannelTrace.cfg", scen, label="channel history", relevant=cc.relevance(PREFIXES))
    ctx.validate("PlacementTrace", "PlacementTrace.cfg", tscen, label="file placement records", relevant=cc.relevance(PREFIXES))
