"""C05 - write-once, forward-only recording with atomic rejection (DrfChannel: AppendOnly, RejectAtomic)."""
from . import chan_common as cc

PREFIXES = ("C05-", "C04-file-outside", "final-file-set", "C01-stored-values", "C01-read-values", "C01-read-blocks",
            "C11-write-into-finalized-period-accepted")      # write-once: what is finalized is never written again


def run(ctx):
    cc.run(ctx, PREFIXES, nsim=ctx.pick(40, 700), nrand=ctx.pick(60, 1200), sim_depth=ctx.pick(12, 16),
           what="valid rf_write / rf_write_blocks calls interleaved with every malformed kind (past index, first offset not 0, "
                "non-increasing offsets / indices, overlapping blocks, offset past the end, mismatched lengths) and zero-length "
                "writes; a byte-level hash of the whole channel directory and the writer getters are taken around every "
                "rejected call; final files are hashed after every later call",
           bad_rate=0.35, empty_rate=0.08, observe_pairs=10, nvec=2, capi_every=2,
           # a later session that runs into a period finalized earlier (also from a hole between two finalized files):
           # refused, nothing changed, and the finalized files keep their bytes
           extra=lambda c, drf: cc.refusal_histories(c, drf, c.pick(12, 200)))
