"""C06 - self-describing data files and recoverable channel properties (DrfChannelTrace: FileClauses, RegenProps)."""
from . import chan_common as cc

PREFIXES = ("C06-", "C11-valid-session-refused", "C11-mismatched-session-accepted")


def killed_and_restarted(ctx):
    """every finalized file is interpretable on its own - also the ones that appear when a recorder is killed and a new
    recorder process is started on the same tree (DrfFs: a tmp. file of a dead process is never published)"""
    from ..core import quiet_stderr
    from ..drivers import fs_drv
    from . import fs_common as fc

    env, drf = fc.env(ctx)
    rng = ctx.rng
    scen = []
    with quiet_stderr():
        for i in range(ctx.pick(3, 25)):
            job, ops = fs_drv.make_job(rng, ctx.seed * 613 + i)
            base = fs_drv.stepped(env, drf, job, ops, "k-base%d" % i, rng, every=1000)
            opl = [e for e in base["events"] if e["ev"] == "op" and e["cls"] == "tmp" and e["op"] in ("pwrite", "write", "close", "rename")]
            ks = sorted({e["n"] for e in rng.sample(opl, min(len(opl), ctx.pick(3, 6)))})
            for kn, k in enumerate(ks):
                scen.append(fs_drv.stepped(env, drf, job, ops, "kill%d@%d+restart" % (i, k), rng, kill_at=k, every=1000,
                                           restart=["same", "go-on", "same"][kn % 3]))
    ctx.extra["kill_and_restart_runs"] = len(scen)
    ctx.validate("DrfFsTrace", "DrfFsTrace.cfg", scen, label="recorder killed and restarted",
                 relevant=fc.relevance(("pub-published-a-tmp-file-of-a-dead-session", "pub-final-file-unreadable",
                                        "pub-final-file-holds-values-never-written", "pub-wrote-to-a-tmp-file-of-a-dead-session")))


def run(ctx):
    killed_and_restarted(ctx)
    cc.run(ctx, PREFIXES, nsim=ctx.pick(40, 500), nrand=ctx.pick(60, 900), sim_depth=ctx.pick(13, 17),
           what="every finalized rf@*.h5 of every history is opened with raw h5py: index rows, dataset length, the 14 stored "
                "attributes (as strings), uuid, sequence number; TLC judges them against the window capacity, the written samples "
                "and the session parameters. Regeneration: drf_properties.h5 is deleted and recreate_properties_file is pointed at "
                "a view of the channel holding exactly one data file (each file in turn), after which bounds, reads and vector "
                "reads are repeated and a new session with the original parameters is opened",
           regen=ctx.pick(3, 8), bad_rate=0.03, empty_rate=0.0, observe_pairs=12, nvec=3,
           extra=lambda c, drf: cc.refusal_histories(c, drf, c.pick(12, 300))
           + cc.multi_writer_histories(c, drf, c.pick(16, 150), npairs=2, nvec=0)[0]
           + cc.fragmented_histories(c, drf, c.pick(3, 40), npairs=3, nvec=0))
