"""C06 - self-describing data files and recoverable channel properties (DrfChannelTrace: FileClauses, RegenProps)."""
from . import chan_common as cc

PREFIXES = ("C06-", "C11-valid-session-refused", "C11-mismatched-session-accepted")


def run(ctx):
    cc.run(ctx, PREFIXES, nsim=ctx.pick(40, 500), nrand=ctx.pick(60, 900), sim_depth=ctx.pick(13, 17),
           what="every finalized rf@*.h5 of every history is opened with raw h5py: index rows, dataset length, the 14 stored "
                "attributes (as strings), uuid, sequence number; TLC judges them against the window capacity, the written samples "
                "and the session parameters. Regeneration: drf_properties.h5 is deleted and recreate_properties_file is pointed at "
                "a view of the channel holding exactly one data file (each file in turn), after which bounds, reads and vector "
                "reads are repeated and a new session with the original parameters is opened",
           regen=ctx.pick(3, 8), bad_rate=0.03, empty_rate=0.0, observe_pairs=12, nvec=3,
           extra=lambda c, drf: cc.refusal_histories(c, drf, c.pick(12, 300)))
