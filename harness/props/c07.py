"""C07 - continuous-mode gap fill semantics (DrfChannelTrace: C07-* clauses, Den/FillSemantics of DrfChannel)."""
import os
import shutil

import numpy as np

from ..core import quiet_stderr
from ..drivers import chan_drv as cd
from . import chan_common as cc

PREFIXES = ("C07-", "C01-stored-values", "C01-read-values", "final-file-set")

LAYOUTS = ["gap-inside-file", "head-of-first-file", "tail-of-last-file", "whole-files-skipped", "combination",
           "blocks-short-gaps", "blocks-skip-one-file"]


def sweep_case(digital_rf, root, rng, seed, dtype, order, cplx, nsub, mode, layout, name, rate):
    n, d, fc, sc, t0 = rate
    cfg = cd.ChanConfig(n, d, fc, sc, np.dtype(dtype if dtype.endswith("1") else order + dtype), cplx, nsub, mode, t0, 6,
                        compression=(rng.choice([0, 3]) if mode == "contC" else 0), checksum=(mode == "contC"), seed=seed)
    if os.path.exists(root):
        shutil.rmtree(root)
    os.makedirs(root)
    ch = cd.Channel(digital_rf, root, cfg, [cfg.params()])
    b = cfg.bound
    cap = [b[i + 1] - b[i] for i in range(len(b) - 1)]
    start = b[0]
    if layout in ("head-of-first-file", "combination") and cap[0] > 1:
        start = b[0] + rng.randint(1, cap[0] - 1)
    ch.open(1, start, 1)
    pos = start
    if layout == "gap-inside-file":
        k = next((i for i in range(len(cap)) if cap[i] >= 3), 0)
        a = b[k]
        ch.write([[max(pos, a), 1]])
        if cap[k] >= 3:
            ch.write([[b[k] + 2, max(1, cap[k] - 2)]])
        ch.write([[b[k + 1], cap[k + 1]]])
    elif layout == "head-of-first-file":
        ch.write([[start, b[2] - start]])
    elif layout == "tail-of-last-file":
        ch.write([[b[0], cap[0] + max(1, cap[1] // 2)]])
    elif layout == "whole-files-skipped":
        ch.write([[b[0], cap[0]]])
        ch.write([[b[3], cap[3] + 1]])
    elif layout == "blocks-short-gaps":
        # one rf_write_blocks call whose blocks are separated by gaps shorter than a file: inside a file and across a boundary
        k = next((i for i in range(len(cap) - 2) if cap[i] >= 4), 0)
        a = max(pos, b[k])
        runs = [[a, 1], [a + 2, max(1, cap[k] - 3 - (a - b[k]))]]
        nxt = b[k + 1] + (1 if cap[k + 1] > 2 else 0)
        if nxt > runs[-1][0] + runs[-1][1]:
            runs.append([nxt, max(1, cap[k + 1] // 2)])
        ch.write(runs)
    elif layout == "blocks-skip-one-file":
        # one call: a block that ends on a file's last slot, the next one starts on the first slot of the file after next
        k = 1 if start <= b[1] else 2
        ch.write([[max(start, b[k]), b[k + 1] - max(start, b[k])], [b[k + 2], max(1, cap[k + 2] // 2)]])
    else:
        ch.write([[start, 1]])
        ch.write([[b[1] + (1 if cap[1] > 1 else 0), 1], [b[4], max(1, cap[4] - 1)]])
    ch.close()
    ch.observe([1], rng, npairs=10, nvec=3)
    sc_ = ch.scenario(name)
    shutil.rmtree(root, ignore_errors=True)
    return sc_


def run(ctx):
    cc.e1(ctx)
    ctx.stage()
    import digital_rf

    rng = ctx.rng
    rates = [(10, 3, 1000, 2, 1700000001000 // 3000 * 3000), (200, 3, 60, 3, 2145916800000 // 180 * 180), (48000, 1, 1, 1, 946684800000)]
    product = [(dt, o, c, ns, m, lay) for dt in ["i1", "i2", "i4", "i8", "u1", "u2", "u4", "u8", "f4", "f8"] for o in "<>" for c in (False, True)
               for ns in (1, 3) for m in ("contU", "contC") for lay in LAYOUTS]
    if ctx.quick:
        # every dtype x byte order x real/complex in contU at least once, the rest sampled
        must = [p for p in product if p[4] == "contU" and p[3] == 1 and p[5] in ("combination", "blocks-short-gaps")]
        must += [p for p in product if p[4] == "contU" and p[3] == 1 and p[5] == "blocks-skip-one-file" and p[1] == "<" and not p[2]]
        rest = [p for p in product if p not in must]
        rng.shuffle(rest)
        product = must + rest[:60]
    scen = []
    with quiet_stderr():
        for i, (dt, o, c, ns, m, lay) in enumerate(product):
            scen.append(sweep_case(digital_rf, os.path.join(ctx.work, "chan"), rng, ctx.seed * 31 + i, dt, o, c, ns, m, lay,
                                   "sweep%d:%s%s%s x%d %s %s" % (i, o, dt, "c" if c else "", ns, m, lay), rates[i % len(rates)]))
        nsweep = len(scen)
        s2, _ = cc.e3(ctx, digital_rf, ctx.pick(30, 700), mode="contU")
        s3, _ = cc.e3(ctx, digital_rf, ctx.pick(15, 350), mode="contC")
    scen += s2 + s3
    cc.account(ctx, scen, 0, "product sweep {i1..u8,f4,f8} x {<,>} x {real,complex} x {1,3 subchannels} x {contU, contC} x gap layouts "
               "{inside a file, head of first file, tail of last file, whole files skipped, combination}, plus random continuous-mode "
               "histories; every stored element is classified data / fill / bad by bit comparison, TLC decides where fill is required")
    ctx.extra["sweep_cases"] = nsweep
    ctx.validate("DrfChannelTrace", "DrfChannelTrace.cfg", scen, label="continuous-mode history", relevant=cc.relevance(PREFIXES))
