"""C08 - reader query coherence (DrfChannel: Coherent, observation functions ReadBlocks/ReadData/BoundsOf/VectorOK)."""
from . import chan_common as cc

PREFIXES = ("C08-", "C09-reader-raised")


def run(ctx):
    cc.run(ctx, PREFIXES, nsim=ctx.pick(30, 600), nrand=ctx.pick(60, 1200), sim_depth=ctx.pick(12, 16),
           what="read, get_continuous_blocks, read(sub_channel), get_bounds, read_vector / read_vector_raw / read_vector_1d on "
                "all interesting points (file, block, gap edges +-1, session starts, outside the data), random split points, "
                "vector lengths 1, 2, nsub and random",
           bad_rate=0.02, empty_rate=0.0, observe_pairs=ctx.pick(32, 70), nvec=ctx.pick(18, 40),
           # a channel spread over two top-level directories whose periods interleave (the reader is given them in either order)
           extra=lambda c, drf: two_directories(c, drf)
           # channels of one rate and different file cadences read by one process, coarse cadence first
           + cc.multi_writer_histories(c, drf, c.pick(12, 150), npairs=12, nvec=6)[0])


def two_directories(ctx, digital_rf):
    scen, _ = cc.e3(ctx, digital_rf, ctx.pick(14, 300), nd=2, nsessions=4, bad_rate=0.0, empty_rate=0.0,
                    observe_pairs=ctx.pick(20, 50), nvec=ctx.pick(10, 30))
    for s in scen:
        s["name"] = "twodir-" + s["name"]
    return scen
