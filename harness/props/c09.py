"""C09 - concurrent reader isolation and monotone visibility (DrfFs + reader passes at every writer operation)."""
from ..core import quiet_stderr
from ..drivers import fs_drv
from . import fs_common as fc

PREFIXES = ("C09-", "pub-", "C02-accepted-samples-unreadable-after-clean-close")     # "once the writer is closed the reader sees everything"


def run(ctx):
    fc.e1(ctx)
    env, drf = fc.env(ctx)
    rng = ctx.rng
    scen = []
    with quiet_stderr():
        for i in range(ctx.pick(14, 150)):
            cc, ops = fs_drv.make_job(rng, ctx.seed * 1117 + i, nfiles=(2, 5), digits=(i == 1))
            scen.append(fs_drv.stepped(fc.env_for(env, i), drf, cc, ops, "step%d" % i, rng))
        # one recording of many small files: the long-lived readers have read from more than sixteen distinct files before it ends
        for i in range(ctx.pick(1, 4)):
            cc, _ = fs_drv.make_job(rng, ctx.seed * 1117 + 500 + i, nfiles=(19, 21), mode="gapped")
            b = cc.bound
            ops = [["open", b[0] + cc.B]]
            for j in range(len(b) - 2):
                ops.append(["write", b[j] - b[0], min(2, b[j + 1] - b[j])])
            ops.append(["close"])
            scen.append(fs_drv.stepped(env, drf, cc, ops, "manyfiles%d" % i, rng, every=5))
    fc.account(ctx, scen, "a pool of long-lived DigitalRFReader objects created at different operations of the recording (before the "
               "channel exists, while the properties file is written, mid-file, after close) each run a pass (bounds, read of everything) "
               "between every two file-system operations of the writer; TLC requires every pass to succeed, to equal exactly the content "
               "of the files finalized at that moment and never to shrink")
    ctx.extra["reader_passes"] = sum(1 for s in scen for e in s["events"] if e["ev"] == "rpass")
    ctx.validate("DrfFsTrace", "DrfFsTrace.cfg", scen, label="stepped recording with readers", relevant=fc.relevance(PREFIXES))
    # ---- free-running writer and reader processes (no common clock) -------------------------------------------
    ctx.model_check("MCDrfLive", "MCDrfLive.cfg", coverage=False)
    ctx.model_check("MCDrfLive", "MCDrfLive_W.cfg", expect_violated=("W_AlwaysPrefix",), coverage=False, tag="W_live")
    live = []
    with quiet_stderr():
        for i in range(ctx.pick(4, 40)):
            live.append(fs_drv.free_running(env, drf, rng, ctx.seed * 733 + i, "live%d" % i))
    ctx.extra["free_running_runs"] = len(live)
    ctx.extra["free_running_distinct_passes"] = sum(s["passes"] for s in live)
    if live:
        ctx.sample({"name": live[0]["name"], "config": live[0]["desc"], "files": live[0]["files"][:3], "events": live[0]["events"][:4]})
    ctx.validate("DrfLiveTrace", "DrfLiveTrace.cfg", live, label="free-running readers", relevant=fc.relevance(PREFIXES))
