"""C10 - I/O fault containment in the writer (DrfFs + single-fault schedules through the interposer)."""
import errno

from ..core import quiet_stderr
from ..drivers import fs_drv
from . import fs_common as fc

PREFIXES = ("C10-", "pub-", "C09-reader-failed")


def run(ctx):
    fc.e1(ctx)
    env, drf = fc.env(ctx)
    rng = ctx.rng
    scen = []
    with quiet_stderr():
        njobs = ctx.pick(3, 8)
        import random

        jobs = []
        for i in range(njobs):
            jr = random.Random(ctx.seed * 7919 + i)
            if i == njobs - 1:
                cc, ops = fs_drv.make_big_job(jr, ctx.seed * 1301 + i)      # failures inside H5Dwrite
            else:
                # every second job: many calls alternating between the two write entry points, in the mode in which they differ
                cc, ops = fs_drv.make_job(jr, ctx.seed * 1301 + i, nfiles=(2, 3), many_calls=i % 2 == 1,
                                          mode="gapped" if i % 2 == 1 else None)
            jobs.append(dict(config=cc.describe(), calls=ops))
            base = fs_drv.faulted(fc.env_for(env, i), drf, cc, ops, "nofault%d" % i, -1, 0, False)
            scen.append(base)
            n = base["nops"]
            sched = [(k, e, st) for k in range(1, n + 1) for e in (errno.ENOSPC, errno.EIO) for st in (False, True)]
            if ctx.quick:
                # every operation fails at least once (ENOSPC once); the rest sampled
                must = [(k, errno.ENOSPC, False) for k in range(1, n + 1)]
                rest = [x for x in sched if x not in must]
                rng.shuffle(rest)
                sched = must[:: 2 if (i and i % 2 == 0 and i != njobs - 1) else 1] + rest[:25]
            for k, e, st in sched:
                scen.append(fs_drv.faulted(fc.env_for(env, i), drf, cc, ops, "job%d-op%d-%s-%s" % (i, k, errno.errorcode[e], "sticky" if st else "once"), k, e, st))
    fc.account(ctx, scen, "every single-fault schedule of a recording: operation number k (open/create, write, truncate, close, rename, "
               "mkdir, unlink) fails with ENOSPC or EIO, once or persistently for that kind of operation from then on; logged: every "
               "operation with its real or injected result, the API call results, exit status, final snapshot (raw h5py), fresh reader")
    ctx.extra["jobs"] = jobs
    ctx.extra["fault_schedules"] = sum(1 for s in scen if s.get("fault") and s["fault"]["at"] > 0)
    ctx.validate("DrfFsTrace", "DrfFsTrace.cfg", scen, label="fault schedule", relevant=fc.relevance(PREFIXES))
