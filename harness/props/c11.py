"""C11 - multi-session / multi-directory continuity without overwrite (DrfChannel: FinalGrows, FinalFrozen, Place refusal)."""
from . import chan_common as cc

PREFIXES = ("C11-", "C05-final-file-changed", "final-file-set")


def run(ctx):
    cc.run(ctx, PREFIXES, nsim=ctx.pick(40, 1200), nrand=ctx.pick(60, 2500), sim_depth=ctx.pick(14, 18),
           what="2-4 sessions per channel with starts later than, earlier than and inside recorded periods, in 1-2 top-level "
                "directories; single-parameter mismatches (12 stored parameters) must be refused with the directory "
                "byte-identical; final files of earlier sessions are hashed after every later call; reader over one or "
                "several directories against the union of the specification's truth",
           nsessions=None, bad_rate=0.03, empty_rate=0.0, observe_pairs=14, nvec=2)
