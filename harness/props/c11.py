"""C11 - multi-session / multi-directory continuity without overwrite (DrfChannel: FinalGrows, FinalFrozen, Place refusal)."""
from ..core import quiet_stderr
from . import chan_common as cc

PREFIXES = ("C11-", "C05-final-file-changed", "final-file-set", "C08-bounds", "C01-read-", "C01-stored-values", "C01-valid-write-refused")

WHAT = ("2-4 sessions per channel with starts later than, earlier than and inside recorded periods, in 1-2 top-level directories whose "
        "recorded periods interleave (one directory holds the first and last third, the other the middle); single-parameter mismatches "
        "(12 stored parameters) must be refused with the directory byte-identical; final files of earlier sessions are hashed after every "
        "later call; readers over one or several directories against the union of the specification's truth")


def run(ctx):
    cc.e1(ctx)
    ctx.stage()
    import digital_rf

    with quiet_stderr():
        s1, r1 = cc.e2(ctx, digital_rf, ctx.pick(40, 700), ctx.pick(14, 18))
        kw = dict(bad_rate=0.03, empty_rate=0.0, observe_pairs=14, nvec=2)
        s2, _ = cc.e3(ctx, digital_rf, ctx.pick(30, 600), **kw)
        s3, _ = cc.e3(ctx, digital_rf, ctx.pick(40, 700), nd=2, nsessions=4, **kw)
        s4 = cc.refusal_histories(ctx, digital_rf, ctx.pick(16, 200))
        ctx.extra["refusal_then_continue_histories"] = len(s4)
    scen = s1 + s2 + s3 + s4
    cc.account(ctx, scen, len(s1), WHAT)
    ctx.extra["two_directory_histories"] = sum(1 for s in scen if s["cfg"]["nd"] == 2)
    ctx.validate("DrfChannelTrace", "DrfChannelTrace.cfg", scen, label="multi-session history", relevant=cc.relevance(PREFIXES))
