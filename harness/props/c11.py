"""C11 - multi-session / multi-directory continuity without overwrite (DrfChannel: FinalGrows, FinalFrozen, Place refusal)."""
from ..core import quiet_stderr
from . import chan_common as cc

PREFIXES = ("C11-", "C05-final-file-changed", "final-file-set", "C08-bounds", "C01-read-", "C01-stored-values", "C01-valid-write-refused")

WHAT = ("2-4 sessions per channel with starts later than, earlier than and inside recorded periods, in 1-2 top-level directories whose "
        "recorded periods interleave (one directory holds the first and last third, the other the middle); single-parameter mismatches "
        "(12 stored parameters) must be refused with the directory byte-identical; final files of earlier sessions are hashed after every "
        "later call; readers over one or several directories against the union of the specification's truth")


def run(ctx):
    cc.e1(ctx)
    ctx.stage()
    import digital_rf

    with quiet_stderr():
        s1, r1 = cc.e2(ctx, digital_rf, ctx.pick(40, 1200), ctx.pick(14, 18))
        kw = dict(bad_rate=0.03, empty_rate=0.0, observe_pairs=14, nvec=2)
        s2, _ = cc.e3(ctx, digital_rf, ctx.pick(30, 1200), **kw)
        s3, _ = cc.e3(ctx, digital_rf, ctx.pick(40, 1500), nd=2, nsessions=4, **kw)
        # refusal-then-continue: a later session runs into a period finalized by an earlier one, is refused (once or
        # twice), and must remain usable for the following free period
        import os
        import shutil
        import numpy as np
        from ..drivers import chan_drv as cd
        from ..drivers import chan_gen as cg
        s4 = []
        rng = ctx.rng
        for i in range(ctx.pick(16, 400)):
            n, d, fc = cg.random_rate(rng, 300)
            sc_ms = fc * rng.choice([1, 2, 5])
            while sc_ms % 1000:
                sc_ms += fc
            t0 = (rng.randint(315532800, 4102444800) * 1000) // fc * fc
            mode = ["gapped", "contU", "contC"][i % 3]
            cfg = cd.ChanConfig(n, d, fc, sc_ms // 1000, np.dtype(rng.choice(["<i2", ">f4", "<u1", ">i8"])), bool(i % 2), 1 + i % 2, mode, t0, 6, seed=i)
            root = os.path.join(ctx.work, "chan")
            shutil.rmtree(root, ignore_errors=True)
            os.makedirs(root)
            ch = cd.Channel(digital_rf, root, cfg, [cfg.params()])
            b = cfg.bound
            k = rng.choice([2, 3])           # window finalized by session 1 (1-based)
            ch.open(1, b[k - 1], 1)
            ch.write([[b[k - 1], max(1, (b[k] - b[k - 1]) - rng.choice([0, 0, 1]))]])
            ch.close()
            s0 = b[k - 2] + rng.randint(0, b[k - 1] - b[k - 2] - 1)
            ch.open(1, s0, 1)
            if rng.random() < 0.7:
                ch.write([[s0, b[k - 1] - s0 + rng.choice([1, 1, 2])]])   # contiguous into the finalized period: refused part-way
            else:
                ch.write([[s0, 1]])
                ch.write([[b[k - 1], 1]])                                  # directly into the finalized period
            for _ in range(rng.choice([0, 1, 1])):
                ch.write([[b[k - 1] + rng.randint(0, b[k] - b[k - 1] - 1), 1]])   # a second attempt
            a1 = b[k] + rng.choice([0, 0, 1]) * min(1, b[k + 1] - b[k] - 1)
            n1 = rng.choice([1, 2])
            ch.write([[a1, n1]])                                           # the next free period
            ch.write([[max(b[k + 1], a1 + n1), 1]])
            ch.close()
            ch.observe([1], rng, npairs=6, nvec=1)
            s4.append(ch.scenario("refusal%d" % i))
            shutil.rmtree(root, ignore_errors=True)
        ctx.extra["refusal_then_continue_histories"] = len(s4)
    scen = s1 + s2 + s3 + s4
    cc.account(ctx, scen, len(s1), WHAT)
    ctx.extra["two_directory_histories"] = sum(1 for s in scen if s["cfg"]["nd"] == 2)
    ctx.validate("DrfChannelTrace", "DrfChannelTrace.cfg", scen, label="multi-session history", relevant=cc.relevance(PREFIXES))
