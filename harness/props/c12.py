"""C12 - Digital Metadata round trip (Metadata.tla: ReadExact / FfillExact / BoundsExact / LatestIsMax / WriteOnce).

E1: TLC exhausts every ascending write history over indices 0..9 in files of 3 (calls of <= 3 samples in the three forms, with
    the dict form's distribution rule both ways, duplicate attempts incl. partially stored ones); in every reachable state every
    inclusive range with both fill methods, the bounds and the latest sample computed file by file equal the declarative
    function of what was written.
E2: behaviours simulated by TLC are executed on DigitalMetadataWriter / DigitalMetadataReader at rate / cadence combinations that
    realise the model's partition (1 Hz x 3 s, 3 Hz x 1 s, 3/2 Hz x 2 s, 3/7 Hz x 7 s, 6/4 Hz x 2 s; 1980 - 2099).
E3: real-scale configurations and value shapes; every call is one event, TLC decides every answer."""
from . import md_common as mc

PREFIXES = ("C12-", "C20-tree-changed-after-a-call-had-returned")
replay = mc.replay


def run(ctx):
    mc.run(ctx, "c12", "MCMetadata_c12_quick.cfg" if ctx.quick else "MCMetadata_c12.cfg", mc.W_C12, PREFIXES, (),
           nsim=ctx.pick(50, 1500), nrand=ctx.pick(50, 2500), depth=ctx.pick(22, 30),
           rule="E2: TLC -simulate behaviours of MCMetadata replayed on the real writer/readers. E3: random rates n/d (integers, x/3, x/7, "
                "x/1001, small fractions, below 1 Hz), file cadences 1-3600 s, subdirectory cadences 1-1000 files, 1980-2100, a "
                "subdirectory boundary inside the modelled windows in 60% of the cases; ascending histories of single / dict-of-arrays / "
                "list-of-dicts calls whose indices sit on file boundaries and their neighbours, next to each other and far apart; "
                "values: ints, floats, bools, complex, strings (also exactly as long as the batch), lists of strings, 1-D/2-D/3-D arrays "
                "whose first dimension does / does not equal the batch length, nested dicts; duplicate attempts (existing index first, or "
                "the call repeats its own last index); reads on every stored index +-1, file boundaries +-1 and between two stored "
                "samples, method None / ffill, columns None / string / list, read / read_flatdict, get_bounds, read_latest, get_fields "
                "by readers created before the first write, midway and at the end")
