"""C13 - metadata file placement agrees between writer and reader (Placement.tla metadata half; PlacementTrace on limbs).

E1: MCMdPlacement - on a small scope the writer's and the reader's way to the file are the same function, the file second T is
    the unique multiple of the cadence with T*n <= k*d < (T+fc)*n, k = ceil(T*n/d) is the first index of its file;
    MCMetadata (PlacementExact: every stored sample is in the file of its window and in no other).
E3: for random (n, d, file cadence, subdirectory cadence) and every file number j of a window in 1980-2100 the indices
    ceil(j*fc*n/d) + {-1, 0, +1} are written singly with the real writer; the path it chose (found with raw h5py), whether
    read(k, k) returns the sample and whether read_latest returns it are one `md` record each, all magnitudes as base-10^4
    limbs; TLC checks T*n <= k*d < (T+fc)*n, the subdirectory and that the reader found the sample.  The protocol half
    (C13-* clauses of MetadataTrace) rides on a few E2/E3 histories of the metadata model."""
import os

from ..core import quiet_stderr
from ..drivers import metadata_drv as md
from ..drivers import place_drv as pd
from ..drivers.timeconv_drv import limbs
from . import md_common as mc

PREFIXES = ("C13-",)
replay = mc.replay

YEARS = [1980, 1999, 2023, 2038, 2069, 2099]


def draw_config(rng, fam=None):
    fam = fam or rng.choice(["third", "third", "seventh", "seventh", "int", "x1001", "prime", "small", "small", "small", "slow", "big7", "huge"])
    if fam == "huge":
        # index * denominator beyond 2^64: any fixed-width intermediate in the file computation wraps
        n, d = rng.choice([30000000000, 12000000000, 10**10 + 1, 2**33 + 7, 10**11, 24000000000]), rng.choice([1001, 1001, 3, 7, 11])
        fc = rng.choice([1, 2, 60, 3600])
        return n, d, fc, fc * rng.choice([1, 2, 60])
    if fam == "third":
        n, d = rng.choice([10**6, 10**7, 10, 13, 26, rng.randint(1, 10**9)]), 3
    elif fam == "seventh":
        n, d = rng.choice([10**8, 10**6, rng.randint(1, 10**9)]), 7
    elif fam == "big7":
        n, d = 10**8, 7
    elif fam == "int":
        n, d = rng.choice([1, 100, 48000, 10**6, 25 * 10**6, 10**9, 2**32 - 1, rng.randint(1, 2**32 - 1)]), 1
    elif fam == "x1001":
        n, d = rng.choice([30000, 60000, 24000, rng.randint(1, 2**32 - 1)]), 1001
    elif fam == "prime":
        n, d = rng.choice([4294967291, 4294967279, 2147483647, 65537]), rng.choice([1, 3, 11, 1000, 999983])
    elif fam == "small":
        n, d = rng.randint(1, 400), rng.randint(2, 60)
    else:
        n, d = rng.randint(1, 5), rng.choice([7, 10, 60, 3600, rng.randint(2, 10**4)])
    fc = rng.choice([1, 1, 2, 3, 10, 60, 60, 600, 3600, rng.randint(1, 5000)])
    if d > 1 and d <= 5000 and rng.random() < 0.5:
        fc = d * rng.choice([1, 1, 2, 5, 10, 60])      # every file boundary falls exactly on an index
    sc = fc * rng.choice([1, 2, 3, 10, 60, 600])
    return n, d, fc, sc


def _sweep_one(args):
    import digital_rf
    work, n, d, fc, sc, js, sc2 = args
    recs = md.placement_sweep(digital_rf, os.path.join(work, "md", "c13-%d" % os.getpid()), n, d, fc, sc, js, limbs, pd.sub_fields)
    if sc2:
        # a second channel of the same rate, file cadence and time but another subdirectory cadence, written and read by the
        # same process right afterwards (nothing one channel's writer or reader worked out may be reused for the other)
        recs2 = md.placement_sweep(digital_rf, os.path.join(work, "md", "c13b-%d" % os.getpid()), n, d, fc, sc2, js, limbs, pd.sub_fields)
        return recs, recs2
    return recs, None


def run(ctx):
    ctx.model_check("MCMdPlacement", "MCMdPlacement.cfg", coverage=False)
    mc.witnesses(ctx, "MCMdPlacement", ["NoEmptyFile", "BoundaryOnGrid"])
    ctx.model_check("MCMetadata", "MCMetadata_c20_quick.cfg" if ctx.quick else "MCMetadata_c20.cfg", coverage=False, timeout=3600)
    mc.witnesses(ctx, "MCMetadata", mc.W_C13)
    ctx.stage()
    import calendar

    import digital_rf

    rng = ctx.rng
    evs, tscen = [], []
    nidx = ctx.pick(600, 50000)
    jobs = []
    nhuge = ctx.pick(2, 12)     # configurations in which index * denominator really exceeds 2^64
    while sum(3 * len(j[5]) for j in jobs) < nidx:     # (j[5]: the file numbers of a job)
        n, d, fc, sc = draw_config(rng, "huge" if len(jobs) < nhuge else None)
        y = rng.choice(YEARS + [rng.randint(1980, 2099)])
        t = calendar.timegm((y, rng.randint(1, 12), rng.randint(1, 28), rng.randint(0, 23), rng.randint(0, 59), rng.randint(0, 59)))
        j0 = t // fc
        if rng.random() < 0.5:
            j0 = ((t // sc) * sc) // fc - rng.randint(0, 3)     # the window of file numbers crosses a subdirectory boundary
        if rng.random() < 0.5:
            j0 = (j0 // d) * d - rng.randint(0, 2)                 # ... contains a boundary that falls exactly on an index
        nj = rng.randint(4, 12)
        if (j0 + nj) * fc * n // d >= 2**62 or j0 < 1:
            continue
        if len(jobs) < nhuge and (j0 * fc * n // d) * d < 2**64:
            continue
        jobs.append((ctx.work, n, d, fc, sc, range(j0, j0 + nj), sc * rng.choice([2, 3, 24]) if len(jobs) % 3 == 2 else None))
    # a recording that starts at the epoch: index 0 is a boundary index too (file number 0 of 1970-01-01T00-00-00)
    n0, d0, fc0, sc0 = draw_config(rng, None)
    if 8 * fc0 * n0 // d0 < 2**62:
        jobs.append((ctx.work, n0, d0, fc0, sc0, range(0, 6), None))
    nconf = len(jobs)
    with quiet_stderr():
        with mc._pool(nconf) as ex:
            for (_, n, d, fc, sc, js, sc2), (recs, recs2) in zip(jobs, ex.map(_sweep_one, jobs, chunksize=2)):
                tscen.append(dict(name="mdplace%d" % len(tscen), events=recs,
                                  desc="%d/%d Hz, %d s files, %d s subdirs, files %d..%d" % (n, d, fc, sc, js[0], js[-1])))
                evs += recs
                if recs2:
                    tscen.append(dict(name="mdplace%d" % len(tscen), events=recs2,
                                      desc="%d/%d Hz, %d s files, %d s subdirs, files %d..%d (second channel of the process)"
                                           % (n, d, fc, sc2, js[0], js[-1])))
                    evs += recs2
        # protocol half: histories of the metadata model (files found on disk against the partition of the specification)
        s1, bad = mc.e2(ctx, digital_rf, ctx.pick(15, 400), ctx.pick(18, 26), deep=False)
        s2 = mc.e3(ctx, digital_rf, ctx.pick(20, 600), "c12")
        # write calls in any order (back-filling earlier periods and new earlier subdirectories, indices of one call unsorted)
        # interleaved with reads by long-lived readers: the reader has to look where the writer put every sample
        s2 += mc.e3(ctx, digital_rf, ctx.pick(16, 400), "c20")
    ctx.evaluations = len(evs) + sum(1 for s in s1 + s2 for e in s["events"] if e["ev"] == "write")
    ctx.extra.update(configurations=nconf, placement_records=len(evs), spec_behaviours_replayed=len(s1), random_histories=len(s2),
                     records_not_found_by_reader=sum(1 for e in evs if not e["found"]),
                     rule="(n, d) from x/3, x/7 (incl. 10^8/7), integers up to 2^32-1, x/1001, primes near 2^32 over small and large d, small "
                          "fractions and rates far below 1 Hz; file cadence 1-5000 s, subdirectory cadence 1-600 files; for 4-12 consecutive "
                          "file numbers j (half of the windows cross a subdirectory boundary, half contain a file boundary that falls exactly on an index, 1980-2100): write ceil(j*fc*n/d)+{-1,0,+1} singly, "
                          "locate the group with raw h5py, read(k,k) and read_latest alternately by a reader created before any write and a "
                          "fresh one")
    if evs:
        ctx.sample(evs[0]["raw"])
        ctx.sample(evs[len(evs) // 2]["raw"])
        bad_ev = [e["raw"] for e in evs if not e["found"]][:1]
        for b in bad_ev:
            ctx.sample(b)
    ctx.validate("PlacementTrace", "PlacementTrace.cfg", tscen, label="metadata placement records", relevant=mc.relevance(PREFIXES))
    mc.validate(ctx, s1 + s2, PREFIXES, (), bad)
