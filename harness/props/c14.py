"""C14 - listing is sound, complete, ordered and window-exact.

E1: TLC checks theorems of the functional specification Listing.tla on bounded universes of abstract trees (the
    repaired subdirectory walk satisfies the set-theoretic specification for every tree x options, reverse changes
    only the order, window monotonicity, forward fill adds at most one - the latest - file per metadata channel,
    listing lists only finalized files of reachable channels, EventFilter!Deliver consistent with the listing),
    with witnesses (F05 / F06 are distinguishable, look-back across an empty subdirectory is reached, pruning needs
    time-consistent trees, mixed channels are reached).
E3 with exhaustive generation: abstract trees of a bounded grammar are materialised on tmpfs, the real lsdrf is run
    forwards and reversed for option combinations and windows on / just before / just after every file and
    subdirectory time, vanishing subdirectories are produced by a patched listdir; ListingTrace (TLC) judges set,
    per-channel order, property files, forward fill, reverse-set equality and 'never raises'."""
import json
import os

from ..core import Machinery
from ..drivers import listing_drv as drv
from .list_common import one_event, selfcheck

WITNESSES = ("W_NoLookBackAcrossEmptySubdir", "W_JudgeBlindToF05", "W_F05SameSet", "W_F06NeverRaises",
             "W_PruningRightOnAnyTree", "W_NoMixedChannel")
ACTIONS = ("SetFlags", "SetStart", "SetEnd", "StartEarlier", "DropStart", "EndLater", "DropEnd")

CORE_FLAGS = {  # the flag combinations that matter for a one-kind channel; the random trees use all 36
    "dmd": [(True, True, 2, 2), (False, True, 0, 0)],
    "drf": [(True, True, 2, 2), (True, False, 2, 1)],
    "legacy": [(True, True, 2, 2), (False, True, 2, 2)],
    "both": [(True, True, 2, 2), (False, True, 1, 0)],
}


def e1(ctx):
    for cfg in (["MCListing_quick.cfg"] if ctx.quick else ["MCListing_quick.cfg", "MCListing_deep.cfg", "MCListing_wide.cfg",
                                                            "MCListing_flags.cfg"]):
        ctx.model_check("MCListing", cfg, coverage=False, timeout=1500)
    # TLC's -coverage does not terminate on this module: every step of the model is shown reachable by witnesses instead
    ctx.model_check("MCListing", "MCListing_actions.cfg", expect_violated=tuple("W_Never" + a for a in ACTIONS), coverage=False,
                    extra=["-continue"], tag="actions", timeout=600)
    for w in WITNESSES:
        ctx.model_check("MCListing", "MCListing_%s.cfg" % w, expect_violated=(w,), coverage=False, tag=w, timeout=600)


def check_precondition(t):
    """generator self-check (a precondition of the property, DESIGN.md section 6.2): trees are time-consistent"""
    if not t.time_consistent():
        raise Machinery("generator produced a tree that is not time-consistent: %s" % t.names())


def tree_cases(ctx, tree, kind, rng, nopt, flags_pool, count):
    """events for one materialised tree"""
    from digital_rf import list_drf

    pts = tree.points()
    wins = drv.windows(pts)
    rels = sorted({""} | {c["path"] for c in tree.chans} | {os.path.dirname(c["path"]) for c in tree.chans})
    evs = []
    if nopt is None:  # the full product windows x flags for the systematic family
        combos = [(fl, True, rel, w) for fl in flags_pool for rel in rels[:2] for w in wins]
    else:
        combos = []
        for _ in range(nopt):
            combos.append((rng.choice(flags_pool), rng.random() < 0.7, rng.choice(rels), rng.choice(wins)))
    for j, (fl, rec, rel, (s, e)) in enumerate(combos):
        o = drv.make_opts(fl, rec, s, e)
        evs.append(drv.ls_event(list_drf, tree, rel, o, naive=(j % 3 == 2)))
        count["ls"] += 2
    # vanishing subdirectories
    oksubs = [i + 1 for i, sdir in enumerate(tree.subs) if sdir["ok"]]
    if oksubs:
        for _ in range(1 if nopt is None else max(1, nopt // 12)):
            fl, rec, rel, (s, e) = rng.choice(flags_pool), True, "", rng.choice(wins)
            gone = sorted(rng.sample(oksubs, rng.choice([1, 1, min(2, len(oksubs))])))
            evs.append(drv.ls_event(list_drf, tree, rel, drv.make_opts(fl, rec, s, e), gone=gone))
            count["vanish"] += 1
            count["ls"] += 2
    count["raised"] += sum(1 for e in evs if e["f"]["raised"] or e["r"]["raised"])
    count[kind] += 1
    return evs


def e3(ctx):
    ctx.stage()
    import digital_rf  # noqa: F401

    rng = ctx.rng
    root = os.path.join(ctx.work, "ls", "t")
    scen = []
    count = dict(ls=0, vanish=0, raised=0, core=0, random=0)
    allflags = drv.flag_combos()
    # ---- systematic family ------------------------------------------------------------------
    core = list(drv.enum_core(3))
    if ctx.quick:
        core = [c for c in core if len(c[1]) <= 2 or all(p in ("E", "A", "B", "AB", "T") for p in c[1])]
        must = [c for c in core if c[0] in ("dmd", "legacy") and c[1] in (("B", "E", "A"), ("AB", "T", "B"), ("A", "E", "E"), ("B", "T", "AB"))]
        core = must + rng.sample([c for c in core if c not in must], 36)
    else:
        core = [c for c in core if len(c[1]) <= 2 or all(p in ("E", "A", "B", "AB", "T") for p in c[1])]
    for n, (ckind, pats) in enumerate(core):
        base_s = drv.BASES[n % len(drv.BASES)]
        cad = (10, 3600, 4)[n % 3]
        base_s -= base_s % cad
        t = drv.core_tree(base_s, ("ch", "", "grp/ch")[n % 3], ckind, pats, cad)
        check_precondition(t)
        t.materialise(root)
        evs = tree_cases(ctx, t, "core", rng, 50 if ctx.quick else None, CORE_FLAGS[ckind], count)
        scen += drv.ls_scenarios("core%d" % n, t, evs, desc="%s channel, subdirs %s" % (ckind, "/".join(pats)))
    # ---- random rich trees --------------------------------------------------------------------
    for n in range(ctx.pick(60, 2000)):
        t = drv.random_tree(rng)
        check_precondition(t)
        t.materialise(root)
        evs = tree_cases(ctx, t, "random", rng, ctx.pick(48, 100), allflags, count)
        scen += drv.ls_scenarios("rand%d" % n, t, evs, desc="random tree")
    return scen, count


def corrupted(scen, verdicts):
    """corrupt one logged field of accepted traces: (label, scenario, clause TLC must name)"""
    import copy

    out = {}
    for s, v in zip(scen, verdicts):
        if v["v"] != "ACCEPT":
            continue
        files = s["tree"]["files"]
        isdata = lambda i: files[i - 1]["kind"] in ("rf", "md")
        for i, e in enumerate(s["events"]):
            if e["ev"] != "ls" or e["gone"] or e["f"]["raised"] or e["r"]["raised"]:
                continue
            res = e["f"]["res"]
            data = [x for x in res if isdata(x)]
            o = e["o"]

            def put(label, clause, mod):
                if label not in out:
                    e2 = copy.deepcopy(e)
                    mod(e2)
                    out[label] = (label, one_event(s, i, e2), clause)

            if data and not o["hs"] and not o["he"]:
                put("in-window file removed from the result", "C14-misses-file-in-window",
                    lambda e2: e2["f"]["res"].remove(data[0]))
            bad = [j + 1 for j, f in enumerate(files) if f["tmp"] and f["kind"] in ("rf", "md")]
            if bad:
                put("tmp. file added to the result", "C14-lists-tmp-stray-or-malformed-name", lambda e2: e2["f"]["res"].append(bad[0]))
            pair = [(a, b) for a in data for b in data if a != b and files[a - 1]["ch"] == files[b - 1]["ch"] and files[a - 1]["t"] != files[b - 1]["t"]]
            if pair:
                a, b = pair[0]

                def swap(e2):
                    r = e2["f"]["res"]
                    ia, ib = r.index(a), r.index(b)
                    r[ia], r[ib] = r[ib], r[ia]
                put("two files of a channel swapped", "C14-order-within-channel", swap)
            if e["r"]["res"]:
                put("reversed result lost a file", "C14-reverse-changes-the-set", lambda e2: e2["r"]["res"].pop())
            put("call logged as raised", "C14-listing-raised", lambda e2: e2["f"].update(raised=True, res=[]))
            if res:
                put("a file listed twice", "C14-lists-a-file-twice", lambda e2: e2["f"]["res"].append(res[0]))
            ff = [x for x in data if o["hs"] and files[x - 1]["t"] < o["s"] and files[x - 1]["kind"] == "md"]
            if ff and not any(files[x - 1]["kind"] == "rf" for x in data) and not any(files[x - 1]["t"] == o["s"] for x in data) \
                    and not any(f["kind"] in ("legacy", "drfprop") for f in files):
                put("forward-fill file removed from the result", "C14-misses-forward-fill-file", lambda e2: e2["f"]["res"].remove(ff[0]))
            listed_in = {(files[x - 1]["ch"], files[x - 1]["kind"]) for x in data}
            out_of = [j + 1 for j, f in enumerate(files) if f["kind"] in ("rf", "md") and o["he"] and f["t"] > o["e"] and (j + 1) not in res
                      and not f["tmp"] and f["ext"] and f["tok"] and f["depth"] and (f["ch"], f["kind"]) in listed_in]
            if out_of and data:
                put("file after the window added to the result", "C14-lists-file-outside-window", lambda e2: e2["f"]["res"].append(out_of[0]))
        if len(out) >= 8:
            break
    return list(out.values())


def run(ctx):
    e1(ctx)
    scen, count = e3(ctx)
    ctx.evaluations = count["ls"]
    ctx.extra.update(
        trees_systematic=count["core"], trees_random=count["random"], lsdrf_calls=count["ls"],
        events_with_vanishing_subdirs=count["vanish"], events_where_lsdrf_raised=count["raised"],
        rule="systematic family: one channel (dmd/drf/legacy/both) x <= 3 subdirectories each E(mpty)/A(file at subdir time)/"
        "B(later file)/AB/T(only tmp.)/X(only near misses)/BB x every window with ends on file and subdir times -1/0/+1 ms "
        "(full product in thorough, 50 sampled per tree in quick) x 2 flag sets x 2 listing roots; random trees: <= 2 channels "
        "(+nested), every property-file kind incl. near misses, <= 3 subdirs (10% malformed names), <= 3 files each from "
        "{valid, tmp., wrong extension, malformed time, other prefix, other kind}, files directly in the channel dir, stray "
        "dirs x sampled (36 flag combos, recursive, root, window); every case is listed forwards and reversed; "
        "1 in 12 cases removes 1-2 subdirectories just before the listing reads them",
    )
    for s in scen[:1] + scen[-1:]:
        ctx.sample(dict(name=s["name"], desc=s["desc"], tree=s["tree"], names=s["names"], events=s["events"][:2]))
    verdicts = ctx.validate("ListingTrace", "ListingTrace.cfg", scen, label="listing", relevant=lambda c: c.startswith("C14-"))
    if not ctx.violations:   # (with violations the binding is evidently not vacuous; never let the self-check mask them)
        selfcheck(ctx, "ListingTrace", "ListingTrace.cfg", corrupted(scen, verdicts), need=5)


def replay(ctx, path):
    """re-execute the stored options on a re-materialised tree and validate again"""
    obj = json.load(open(path))["replay"]
    sc = obj["scenario"]
    ctx.stage()
    from digital_rf import list_drf

    nm, ab = sc["names"], sc["tree"]
    t = drv.Tree(nm["base_s"])
    t.chans = [dict(path=p, root=(p == "")) for p in nm["chans"]]
    t.subs = [dict(s, name=n) for s, n in zip(ab["subs"], nm["subs"])]
    t.files = [dict(f, rel=r) for f, r in zip(ab["files"], nm["files"])]
    t.materialise(os.path.join(ctx.work, "ls", "replay"))
    evs = [drv.ls_event(list_drf, t, e.get("rel", ""), e["o"], gone=e.get("gone", ())) for e in sc["events"] if e["ev"] == "ls"]
    if not evs:
        raise Machinery("nothing to replay in %s" % path)
    ctx.evaluations = 2 * len(evs)
    ctx.validate("ListingTrace", "ListingTrace.cfg", drv.ls_scenarios(sc["name"], t, evs, chunk=len(evs), desc=sc.get("desc", "")),
                 label="replay", relevant=lambda c: c.startswith("C14-"))
