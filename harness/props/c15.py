"""C15 - the live event filter agrees with the listing; the finalizing rename is a creation.

E1: TLC checks on a bounded universe of abstract trees that EventFilter!Deliver (defined from Listing!Listable) delivers the
    creation of a path exactly when the reference listing lists it (forward-fill file aside), that a move from a
    non-matching name (tmp.x -> x) is the creation of the destination and a move to a non-matching name the deletion of the
    source, that directory events are ignored; witnesses: the window-split move corner and a finalizing rename are reached.
E3, exhaustive over the bounded path grammar in the thorough tier: every event kind x every source (x every destination for
    moves) x every include-flag combination (incl. None defaults) x windows at and around the file time is dispatched as a
    real watchdog event object through the real DigitalRFEventHandler.dispatch with recording on_* methods; for every
    descriptor the same question is put to the real lsdrf on a materialised one-path tree.  ListingTrace (TLC) judges
    every record against Deliver, and the filter against the listing."""
import os

from ..core import Machinery
from ..drivers import listing_drv as drv
from .list_common import one_event, selfcheck

WITNESSES = ("W_NoWindowSplitMove", "W_NoFinalizingRename")


def e1(ctx):
    ctx.model_check("MCListing", "MCListing_filter.cfg" if ctx.quick else "MCListing_filter_thorough.cfg", coverage=False, timeout=1500)
    ctx.model_check("MCListing", "MCListing_actions.cfg", coverage=False, extra=["-continue"], tag="actions", timeout=600,
                    expect_violated=tuple("W_Never" + a for a in ("SetFlags", "SetStart", "SetEnd", "StartEarlier", "DropStart",
                                                                  "EndLater", "DropEnd")))
    for w in WITNESSES:
        ctx.model_check("MCListing", "MCListing_%s.cfg" % w, expect_violated=(w,), coverage=False, tag=w, timeout=600)


def single_path_trees(ctx, tree, descs, tag=""):
    """one materialised tree per descriptor: the path alone in a channel directory of the matching kind"""
    roots = []
    for i, d in enumerate(descs):
        root = os.path.join(ctx.work, "c15", "%sd%d" % (tag, i))
        p = os.path.join(root, d["rel"])
        os.makedirs(os.path.dirname(p), exist_ok=True)
        chdir = os.path.join(root, tree.chans[d["ch"] - 1]["path"])
        if d["kind"] not in ("drfprop", "dmdprop", "legacy"):
            open(os.path.join(chdir, drv.PROPNAME[{"drf": "drfprop", "dmd": "dmdprop", "legacy": "legacy"}[d["ck"]]]), "wb").close()
        open(p, "wb").close()
        roots.append((root, p))
    return roots


def e3(ctx):
    ctx.stage()
    import digital_rf
    import watchdog.events as wev
    from digital_rf import list_drf

    rng = ctx.rng
    count = dict(disp=0, moves=0, single=0, dir=0, lsq=0, delivered=0, refused_constructions=0, scenarios=0)
    scen = []
    all_descs = []

    def universe(base_s, windows, flags, tag):
        tree, descs, T0 = drv.descriptors(base_s)
        nd = len(descs)
        base_ms = tree.base_s * 1000
        root = os.path.join(ctx.work, "c15", "events" + tag)  # paths of events need not exist
        ids = {os.path.join(root, d["rel"]): i + 1 for i, d in enumerate(descs)}
        keys = ("kind", "pfx", "t", "tmp", "ext", "tok", "depth")
        adescs = [{k: d[k] for k in keys} for d in descs]
        singles = single_path_trees(ctx, tree, descs, tag)
        tmp_ids = [i + 1 for i, d in enumerate(descs) if d["tmp"]]
        valid_ids = [i + 1 for i, d in enumerate(descs) if d["kind"] in ("rf", "md") and not d["tmp"] and d["ext"] and d["tok"] and d["depth"]]
        for fl in flags:
            for (ws, we) in windows:
                o = drv.make_opts(fl, True, None if ws is None else T0 + ws, None if we is None else T0 + we)
                try:
                    h = drv.make_handler(digital_rf, base_ms, o)
                except ValueError:
                    count["refused_constructions"] += 1   # no file type included: the handler refuses to exist (not part of C15)
                    continue
                evs = []
                # single-path events
                cases = [(k, False, s, 0) for k in ("created", "modified", "deleted") for s in range(1, nd + 1)]
                dirs = [(k, True, s, (s % nd) + 1 if k == "moved" else 0) for k in ("created", "modified", "deleted", "moved")
                        for s in rng.sample(range(1, nd + 1), 3)]
                moves = [("moved", False, s, d) for s in range(1, nd + 1) for d in range(1, nd + 1) if s != d]
                if ctx.quick:
                    cases = rng.sample(cases, 30)
                    pick = rng.sample(moves, 28)
                    # the pairs the property names: finalizing renames and renames of valid files to non-matching names
                    pick += [("moved", False, rng.choice(tmp_ids), rng.choice(valid_ids)) for _ in range(6)]
                    pick += [("moved", False, rng.choice(valid_ids), rng.choice(tmp_ids)) for _ in range(6)]
                    # renames between two finalized names (of different times: one end may lie outside the window)
                    pick += [("moved", False, a, b) for a, b in (rng.sample(valid_ids, 2) for _ in range(10))]
                    moves = pick
                    dirs = dirs[:4]
                for (k, isdir, s, d) in cases + dirs + moves:
                    e = drv.dispatch_event(h, wev, root, descs, ids, k, isdir, s, d)
                    evs.append(e)
                    count["disp"] += 1
                    count["moves" if k == "moved" and not isdir else ("dir" if isdir else "single")] += 1
                    count["delivered"] += len(e["outs"])
                # the same question to the real listing
                qs = range(nd) if not ctx.quick else rng.sample(range(nd), 12)
                for i in qs:
                    r, p = singles[i]
                    kw = drv._kwargs(tree, o, False)
                    try:
                        listed = p in list_drf.lsdrf(r, **kw)
                        raised = False
                    except Exception:
                        listed, raised = False, True
                    e = drv.dispatch_event(h, wev, r, descs, {p: i + 1}, "created", False, i + 1, 0)
                    # dispatch_event joins root and rel: same path as p
                    evs.append(dict(ev="lsq", d=i + 1, ck=descs[i]["ck"], raised=raised, listed=listed,
                                    dlv=bool(e["outs"]) and e["outs"][0]["k"] == "created" and e["outs"][0]["p"] == i + 1))
                    count["lsq"] += 1
                name = "%sf%d%d%d%d_w%s_%s" % (tag, fl[0], fl[1], fl[2], fl[3], ws, we)
                for c in range(0, len(evs), 500):
                    scen.append(dict(name="%s.%d" % (name, c // 500), desc="flags drf=%s dmd=%s drfprops=%s dmdprops=%s window %s..%s ms around T"
                                     % (fl[0], fl[1], {0: False, 1: True, 2: None}[fl[2]], {0: False, 1: True, 2: None}[fl[3]], ws, we),
                                     descs=adescs, o=o, base_s=tree.base_s, events=evs[c:c + 500]))
                count["scenarios"] += 1

        all_descs.append(descs)

    universe(None, drv.C15_WINDOWS if not ctx.quick else drv.C15_WINDOWS[:7], drv.flag_combos(), "")
    # the same grammar in the first hour after the epoch: window bounds that fall exactly on 1970-01-01T00:00:00Z
    T0 = 600000
    universe(0, [(None, -T0), (-T0, None), (-T0, -T0), (-T0, 0)], [(True, True, 2, 2), (True, False, 1, 0), (False, True, 0, 1)], "epoch-")
    descs = all_descs[0]
    return scen, count, descs


def corrupted(scen, verdicts, descs):
    import copy

    out = {}
    valid = lambda i: descs[i - 1]["kind"] in ("rf", "md") and not descs[i - 1]["tmp"] and descs[i - 1]["ext"] and descs[i - 1]["tok"] \
        and descs[i - 1]["depth"]
    for s, v in zip(scen, verdicts):
        if v["v"] != "ACCEPT":
            continue
        for i, e in enumerate(s["events"]):
            def put(label, clause, mod):
                if label not in out:
                    e2 = copy.deepcopy(e)
                    mod(e2)
                    out[label] = (label, one_event(s, i, e2), clause)

            if e["ev"] == "disp" and not e["dir"]:
                if e["k"] != "moved" and e["outs"] and valid(e["s"]):
                    put("delivery removed from the log", "C15-drops-event-for-listable-path", lambda e2: e2.update(outs=[]))
                if e["k"] != "moved" and not e["outs"] and descs[e["s"] - 1]["tmp"]:
                    put("delivery of a tmp. path added to the log", "C15-delivers-event-for-path-the-listing-would-not-list",
                        lambda e2: e2.update(outs=[dict(k=e["k"], p=e["s"], q=0)]))
                if e["k"] == "moved" and descs[e["s"] - 1]["tmp"] and e["outs"] and e["outs"][0]["k"] == "created":
                    put("finalizing rename logged as a move", "C15-finalizing-rename-is-not-a-creation",
                        lambda e2: e2.update(outs=[dict(k="moved", p=e["s"], q=e["d"])]))
                if e["k"] == "moved" and descs[e["d"] - 1]["tmp"] and e["outs"] and e["outs"][0]["k"] == "deleted":
                    put("rename to a tmp. name logged as nothing", "C15-rename-to-non-matching-name-is-not-a-deletion",
                        lambda e2: e2.update(outs=[]))
                if e["outs"]:
                    put("delivered twice", "C15-more-than-one-delivery", lambda e2: e2["outs"].append(e2["outs"][0]))
            if e["ev"] == "disp" and e["dir"] and valid(e["s"]) and e["k"] != "moved":
                put("directory event delivered", "C15-delivers-directory-event", lambda e2: e2.update(outs=[dict(k=e["k"], p=e["s"], q=0)]))
            if e["ev"] == "lsq" and e["listed"] and e["dlv"] and descs[e["d"] - 1]["kind"] == "rf":
                put("filter says no where the listing says yes", "C15-filter-and-listing-disagree", lambda e2: e2.update(dlv=False))
        if len(out) >= 7:
            break
    return list(out.values())


def run(ctx):
    e1(ctx)
    scen, count, descs = e3(ctx)
    if count["delivered"] == 0:
        raise Machinery("no event was delivered at all - the recording handler is not bound")
    ctx.evaluations = count["disp"] + count["lsq"]
    ctx.extra.update(
        descriptors=len(descs), descriptor_labels=[d["label"] + " (" + d["rel"] + ")" for d in descs][:60],
        flag_window_scenarios=count["scenarios"], dispatches=count["disp"], single_path_events=count["single"],
        directory_events=count["dir"], move_events=count["moves"], listing_questions=count["lsq"],
        on_calls_recorded=count["delivered"], handler_constructions_refused=count["refused_constructions"],
        rule="path grammar: valid RF (.000/.001/.500, T-1s..T+1s) and metadata names, tmp. of both, other prefixes, wrong "
        "extension, 2/4-digit fraction, non-numeric / missing time, no '@', malformed or plain subdirectory, file directly in "
        "the channel dir, the three property names and their near misses, other .h5, in a top-level and a nested channel; x "
        "created/modified/deleted + all ordered pairs as moves + directory events x 36 include-flag combinations (incl. None) "
        "x windows (none, start=T, start=T+1ms, end=T, end=T-1ms, [T-1,T+1], [T+1,T+2s], ...); thorough: the full product; "
        "quick: all flag x window scenarios with sampled events (the tmp->final and final->tmp pairs always included)",
    )
    ctx.sample(dict(name=scen[0]["name"], desc=scen[0]["desc"], o=scen[0]["o"], events=scen[0]["events"][:3]))
    mv = [e for e in scen[0]["events"] if e["ev"] == "disp" and e["k"] == "moved" and e["outs"]]
    if mv:
        ctx.sample(dict(name=scen[0]["name"], src=descs[mv[0]["s"] - 1]["rel"], dst=descs[mv[0]["d"] - 1]["rel"], event=mv[0]))
    verdicts = ctx.validate("ListingTrace", "ListingTrace.cfg", scen, label="event filter", relevant=lambda c: c.startswith("C15-"))
    if not ctx.violations:   # never let the self-check mask a violation
        selfcheck(ctx, "ListingTrace", "ListingTrace.cfg", corrupted(scen, verdicts, descs), need=5)


def replay(ctx, path):
    """re-dispatch the stored events through a freshly constructed real handler and validate again"""
    import json

    obj = json.load(open(path))["replay"]
    sc = obj["scenario"]
    ctx.stage()
    import digital_rf
    import watchdog.events as wev

    tree, descs, T0 = drv.descriptors(sc.get("base_s"))
    root = os.path.join(ctx.work, "c15", "events")
    ids = {os.path.join(root, d["rel"]): i + 1 for i, d in enumerate(descs)}
    h = drv.make_handler(digital_rf, tree.base_s * 1000, sc["o"])
    evs = [drv.dispatch_event(h, wev, root, descs, ids, e["k"], e["dir"], e["s"], e["d"]) for e in sc["events"] if e["ev"] == "disp"]
    ctx.evaluations = len(evs)
    sc2 = dict(sc, events=evs)
    sc2.pop("known", None)
    ctx.validate("ListingTrace", "ListingTrace.cfg", [sc2], label="replay", relevant=lambda c: c.startswith("C15-"))
