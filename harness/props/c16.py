"""C16 - Ringbuffer deletes only what it must, oldest first, with exact accounting.

E1: exhaustive TLC on MCRingbuffer (all event/batch/rescan interleavings up to a depth, all limit kinds).
E2: behaviours simulated by TLC from the specification are executed on a real DigitalRFRingbuffer handler
    over real files and the recorded trace is validated against the specification.
E3: long random event histories at real scale (real file times, sizes, several channels and kinds, every
    limit combination, duplicated / dropped / reordered events, batches, re-scans) validated by TLC."""
import os

from .. import tlc
from ..core import Machinery
from ..drivers import ringbuffer_drv as drv

BASE_MS = 1700000000000


def _model_universe():
    # realises U4 of MCRingbuffer: groups 1,2 RF channels, group 3 a metadata channel, file 8 a tmp. file
    group = [1, 1, 1, 2, 2, 3, 3, 1]
    key = [1, 2, 5, 1, 4, 2, 3, 3]
    files = []
    for i, (g, k) in enumerate(zip(group, key)):
        ch = {1: "chA", 2: "chB", 3: "chA/metadata"}[g]
        kind = "tmp" if i == 7 else ("md" if g == 3 else "rf")
        files.append(dict(ch=ch, kind=kind, t_ms=BASE_MS + k * 1000))
    extras = [
        dict(ch="chA", kind="drfprop"),
        dict(ch="chB", kind="drfprop"),
        dict(ch="chA/metadata", kind="dmdprop"),
        dict(ch="chA", kind="outside", t_ms=BASE_MS + 1000),
    ]
    return files + extras


def _acts_from_behaviour(beh, scale):
    hist = []
    for act, st in beh[1:]:
        last = tlc.tla_to_py(st["last"])
        a = last["a"]
        if a == "FsWrite":
            hist.append(dict(a=a, f=last["f"], sz=last["g"] * scale))
        elif a in ("FsDelete", "EvCreated", "EvModified", "EvDeleted"):
            hist.append(dict(a=a, f=last["f"]))
        elif a in ("FsMove", "EvMoved"):
            hist.append(dict(a=a, f=last["f"], g=last["g"]))
        elif a in ("AddBatch", "ModifyBatch", "RemoveBatch"):
            hist.append(dict(a=a, S=sorted(last["S"]["$set"])))
        elif a in ("Rescan", "Verify"):
            hist.append(dict(a=a))
        else:
            raise Machinery("unknown action in behaviour: %s" % a)
    return hist


def _limits_of(cfg, scale):
    c = tlc.tla_to_py(cfg)
    return dict(
        count=None if c["count"] == -1 else c["count"],
        duration=None if c["dur"] == -1 else c["dur"] * 1000,
        size=None if c["size"] == -1 else c["size"] * scale,
    )


def _random_scenario(rng, digital_rf, root, name):
    nch = rng.randint(1, 3)
    files = []
    chans = []
    for c in range(nch):
        ch = "ch%d" % c
        chans.append((ch, "rf"))
        files.append(dict(ch=ch, kind="drfprop"))
        if rng.random() < 0.5:
            chans.append((ch + "/metadata", "md"))
            files.append(dict(ch=ch + "/metadata", kind="dmdprop"))
    cad = rng.choice([1000, 400, 2500, 60000])
    start = BASE_MS + rng.randrange(0, 10**9) // cad * cad
    if rng.random() < 0.12:
        start = 0          # a recording that starts at the epoch: the oldest file has time 0 (rf@0.000.h5, metadata@0.h5)
    data_ids = []
    for ch, kind in chans:
        n = rng.randint(2, 6)
        ts = sorted(rng.sample(range(0, 12), n))
        for t in ts:
            tm = start + t * cad
            if kind == "md":
                tm = tm // 1000 * 1000
                if any(f["ch"] == ch and f.get("t_ms") == tm for f in files):
                    continue
            files.append(dict(ch=ch, kind=kind, t_ms=tm))
            data_ids.append(len(files))
    # near-miss files the ringbuffer must never touch
    files.append(dict(ch=chans[0][0], kind="tmp", t_ms=start + cad))
    tmp_id = len(files)
    files.append(dict(ch=chans[0][0], kind="stray", t_ms=start))
    files.append(dict(ch=chans[0][0], kind="outside", t_ms=start))
    base = min(f.get("t_ms", start) for f in files if "t_ms" in f)
    maxsz = 400
    limits = {}
    combo = rng.randint(1, 7)
    if combo & 1:
        limits["count"] = rng.randint(1, 4)
    if combo & 2:
        limits["duration"] = rng.choice([0, cad, 2 * cad, 5 * cad])
    if combo & 4:
        # at least one largest file per group (the property's assumption), often exactly that
        limits["size"] = len(chans) * maxsz + rng.choice([0, 0, 0, maxsz // 2, maxsz, rng.randint(0, 3 * maxsz)])
    initial = [(i + 1, 64) for i, f in enumerate(files) if f["kind"] in ("drfprop", "dmdprop", "outside", "stray")]
    hist = []
    on_disk = set()
    nsteps = rng.randint(20, 60)
    for _ in range(nsteps):
        r = rng.random()
        f = rng.choice(data_ids)
        if r < 0.30:
            # the natural flow: a file appears and is reported (sometimes twice, sometimes never)
            sz = rng.choice([maxsz, maxsz, maxsz // 2, rng.randint(50, maxsz)])
            hist.append(dict(a="FsWrite", f=f, sz=sz))
            on_disk.add(f)
            k = rng.choice([0, 1, 1, 1, 2])
            for _ in range(k):
                hist.append(dict(a="EvCreated", f=f))
        elif r < 0.40:
            hist.append(dict(a="EvCreated", f=rng.choice(data_ids + [tmp_id])))
        elif r < 0.50:
            if f in on_disk and rng.random() < 0.7:
                hist.append(dict(a="FsWrite", f=f, sz=rng.randint(50, maxsz)))
            hist.append(dict(a="EvModified", f=f))
        elif r < 0.58:
            if rng.random() < 0.6:
                hist.append(dict(a="FsDelete", f=f))
                on_disk.discard(f)
            if rng.random() < 0.8:
                hist.append(dict(a="EvDeleted", f=f))
        elif r < 0.64:
            # finalising rename tmp -> data file, reported as a move
            hist.append(dict(a="FsWrite", f=tmp_id, sz=rng.randint(50, maxsz)))
            hist.append(dict(a="FsDelete", f=f))
            hist.append(dict(a="FsMove", f=tmp_id, g=f))
            hist.append(dict(a="EvMoved", f=tmp_id, g=f))
        elif r < 0.72:
            # a tracked file is renamed to another data-file name of the same group and reported as a move
            same = [g for g in data_ids if g != f and files[g - 1]["ch"] == files[f - 1]["ch"] and g not in on_disk]
            if f in on_disk and same and rng.random() < 0.8:
                g = rng.choice(same)
                hist.append(dict(a="FsMove", f=f, g=g))
                on_disk.discard(f)
                on_disk.add(g)
                hist.append(dict(a="EvMoved", f=f, g=g))
            else:
                g = rng.choice(data_ids)
                if g != f:
                    hist.append(dict(a="EvMoved", f=f, g=g))
        elif r < 0.78:
            S = sorted(set(rng.sample(data_ids, min(len(data_ids), rng.randint(1, 4)))))
            hist.append(dict(a="AddBatch", S=S))
        elif r < 0.82:
            S = sorted(set(rng.sample(data_ids, min(len(data_ids), rng.randint(1, 4)))))
            hist.append(dict(a="ModifyBatch", S=S))
        elif r < 0.87:
            S = sorted(set(rng.sample(data_ids, min(len(data_ids), rng.randint(1, 3)))))
            hist.append(dict(a="RemoveBatch", S=S))
        elif r < 0.93:
            hist.append(dict(a="Rescan"))
        else:
            hist.append(dict(a="Verify"))
    return drv.run_history(digital_rf, root, files, base, limits, initial, hist, name)


def _long_scenario(rng, digital_rf, root, name, kind):
    """one channel over a long time: kind "deep" - more than forty tracked files and repeated reports of files far behind the
    newest one; kind "churn" - a size limit that holds ten files while a hundred and forty come and go"""
    files = [dict(ch="ch0", kind="drfprop")]
    cad = 1000
    start = BASE_MS + rng.randrange(0, 10**9) // cad * cad
    nfile = 46 if kind == "deep" else 142
    for t in range(nfile):
        files.append(dict(ch="ch0", kind="rf", t_ms=start + t * cad))
    data_ids = list(range(2, nfile + 2))
    sz = 100
    limits = dict(count=44) if kind == "deep" else dict(size=10 * sz)
    initial = [(1, 64)]
    hist = []
    for k, f in enumerate(data_ids):
        hist.append(dict(a="FsWrite", f=f, sz=sz))
        hist.append(dict(a="EvCreated", f=f))
        if kind == "deep" and k >= 36 and k % 3 == 0:
            # a file far behind the newest is reported again (a duplicate event, a re-scan)
            old = data_ids[rng.randint(0, 3)]
            hist.append(dict(a="EvCreated", f=old) if rng.random() < 0.5 else dict(a="AddBatch", S=[old]))
        if kind == "churn" and k % 37 == 5:
            hist.append(dict(a="Verify"))
    return drv.run_history(digital_rf, root, files, start, limits, initial, hist, name)


def run(ctx):
    q = ctx.quick
    # ---- E1 -----------------------------------------------------------------
    acts = ["NFsWrite", "NFsDelete", "NFsMove", "NEvCreated", "NEvModified", "NEvDeleted", "NEvMoved",
            "NAddBatch", "NModifyBatch", "NRemoveBatch", "Rescan", "Verify"]
    ctx.model_check("MCRingbuffer", "MCRingbuffer_quick.cfg" if q else "MCRingbuffer_thorough.cfg", coverage=False, timeout=7200)
    ctx.model_check("MCRingbuffer", "MCRingbuffer_cov.cfg", required_actions=acts, tag="cov")
    ctx.witnesses("MCRingbuffer", "MCRingbuffer_W_%s.cfg", ["NeverDeletes", "NeverTwoDeletions", "NeverCrossGroup", "NeverStaleRecord", "NeverMisSized"])

    # ---- stage the implementation ----------------------------------------------
    ctx.stage()
    import digital_rf

    scen = []
    # ---- E2: behaviours generated by TLC, executed on the real handler ------------
    nbeh = ctx.pick(150, 3000)
    behs, cmd = tlc.simulate("MCRingbuffer", "MCRingbuffer_sim.cfg", ctx.work, num=nbeh, depth=ctx.pick(14, 22), seed=ctx.seed + 1)
    ctx.extra["simulate_cmd"] = cmd
    scale = 100
    files = _model_universe()
    for i, beh in enumerate(behs):
        if len(beh) < 2:
            continue
        limits = _limits_of(beh[0][1]["cfg"], scale)
        hist = _acts_from_behaviour(beh, scale)
        initial = [(9, 64), (10, 64), (11, 64), (12, 64)]
        scen.append(drv.run_history(digital_rf, os.path.join(ctx.work, "rb", "t"), files, BASE_MS, limits, initial, hist, "sim%d" % i))
    nsim = len(scen)
    # ---- E2 (exhaustive): breadth-first exploration of the IMPLEMENTATION over the quick universe U2, every
    # (reached state, action) pair executed once on the real handler and judged by TLC as a one-step trace
    nexh = 0
    reached = 0
    u2files = [dict(ch="chA", kind="rf", t_ms=BASE_MS + 1000), dict(ch="chA", kind="rf", t_ms=BASE_MS + 3000),
               dict(ch="chB", kind="rf", t_ms=BASE_MS + 1000), dict(ch="chB", kind="rf", t_ms=BASE_MS + 2000),
               dict(ch="chA", kind="tmp", t_ms=BASE_MS + 2000),
               dict(ch="chA", kind="drfprop"), dict(ch="chB", kind="drfprop")]
    data = [1, 2, 3, 4]
    acts = []
    for f in [1, 2, 3, 4, 5]:
        acts += [dict(a="FsWrite", f=f, sz=100), dict(a="FsWrite", f=f, sz=200), dict(a="FsDelete", f=f),
                 dict(a="EvCreated", f=f), dict(a="EvModified", f=f), dict(a="EvDeleted", f=f)]
    acts += [dict(a="FsMove", f=f, g=g) for f in data for g in data if f != g and (f <= 2) == (g <= 2)]
    acts += [dict(a="FsMove", f=5, g=1), dict(a="EvMoved", f=5, g=1), dict(a="EvMoved", f=5, g=2)]
    acts += [dict(a="EvMoved", f=f, g=g) for f in data for g in data if f != g and (f <= 2) == (g <= 2)]
    for S in [[1], [2], [3], [1, 2], [1, 3], [2, 4], [3, 4], [1, 2, 3, 4]]:
        acts += [dict(a="AddBatch", S=S), dict(a="ModifyBatch", S=S), dict(a="RemoveBatch", S=S)]
    acts += [dict(a="Rescan"), dict(a="Verify")]
    for lim in [dict(count=2), dict(duration=1000), dict(size=400), dict(count=2, duration=2000, size=500)]:
        sc, ns = drv.explore(digital_rf, os.path.join(ctx.work, "rb", "x"), u2files, BASE_MS, lim, [(6, 64), (7, 64)], acts,
                             depth=ctx.pick(2, 4), max_states=ctx.pick(150, 4000), name="bfs")
        scen += sc
        nexh += len(sc)
        reached += ns
    ctx.extra.update(exhaustive_transitions_on_implementation=nexh, implementation_states_reached=reached)
    # ---- E3: random real-scale histories ---------------------------------------------
    nrand = ctx.pick(250, 6000)
    for i in range(nrand):
        scen.append(_random_scenario(ctx.rng, digital_rf, os.path.join(ctx.work, "rb", "t"), "rand%d" % i))
    # two long histories of one channel: many tracked files with repeated reports of old ones; a hundred and more removals
    for kind in ("deep", "churn"):
        scen.append(_long_scenario(ctx.rng, digital_rf, os.path.join(ctx.work, "rb", "t"), "long-" + kind, kind))
    ctx.evaluations = sum(len(s["events"]) for s in scen)
    ctx.extra.update(
        spec_behaviours_replayed=nsim,
        random_histories=nrand,
        handler_events=sum(1 for s in scen for e in s["events"] if e["a"] not in ("FsWrite", "FsDelete", "FsMove")),
        deletions_observed=sum(len(e.get("del", [])) for s in scen for e in s["events"]),
        rule="E2: TLC -simulate behaviours of MCRingbuffer(U4) replayed on a real handler; E3: random histories over 1-3 RF "
        "channels (+metadata channels), all 7 limit combinations with size >= one largest file per group; every handler call "
        "is one event with the full projected state (records, queues, active_size, disk, deletion order)",
    )
    ctx.sample({k: scen[0][k] for k in ("name", "cfg", "limits")} | {"events": scen[0]["events"][:6]})
    if nrand:
        ctx.sample({k: scen[-1][k] for k in ("name", "cfg", "limits")} | {"events": scen[-1]["events"][:6]})
    ctx.validate("RingbufferTrace", "RingbufferTrace.cfg", scen, label="ringbuffer history")

    # ---- the composition: live writer -> file events -> event filter -> ringbuffer (+ reader), DrfSystem.tla ----------
    ctx.model_check("MCDrfSystem", "MCDrfSystem.cfg", coverage=False)
    ctx.model_check("MCDrfSystem", "MCDrfSystem_brokenfilter.cfg", expect_violated=("RbTracksOnlyFinal",), coverage=False, tag="sys_brokenfilter")
    ctx.model_check("MCDrfSystem", "MCDrfSystem_W1.cfg", expect_violated=("W_NeverExpires",), coverage=False, tag="sys_w1")
    ctx.model_check("MCDrfSystem", "MCDrfSystem_W2.cfg", expect_violated=("W_ReaderNeverSkips",), coverage=False, tag="sys_w2")
    from ..drivers import system_drv
    from .. import stage as stage_mod
    from ..core import VERIF, quiet_stderr
    try:
        shim = stage_mod.build_shim(ctx.work)
    except stage_mod.BuildError as e:
        raise Machinery(str(e))
    env = dict(stage=ctx.stage(), shim=shim, verif=VERIF, root=os.path.join(ctx.work, "fsrun"))
    sysscen = []
    with quiet_stderr():
        for i in range(ctx.pick(8, 150)):
            sysscen.append(system_drv.system_run(env, digital_rf, ctx.rng, ctx.seed * 389 + i, "sys%d" % i, count=ctx.rng.choice([1, 2, 3]),
                                                 lose=ctx.rng.choice([0.0, 0.1, 0.3])))
    ctx.extra["system_runs"] = len(sysscen)
    ctx.extra["system_events"] = sum(len(s["events"]) for s in sysscen)
    ctx.extra["system_ringbuffer_deletions"] = sum(len(e.get("del", [])) for s in sysscen for e in s["events"] if e["ev"] == "h")
    if sysscen:
        ctx.sample({"name": sysscen[0]["name"], "config": sysscen[0]["desc"], "events": sysscen[0]["events"][:10]})
    ctx.validate("DrfSystemTrace", "DrfSystemTrace.cfg", sysscen, label="live recording with ringbuffer and reader")
