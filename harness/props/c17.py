"""C17 - Mirror fidelity, staged publication and no loss in move mode.

E1: exhaustive TLC on MCMirror: one properties file, two RF files, two metadata files; every event delivered up to
    twice in any order (late / repeated / stale deliveries), a crash between any two operations of the mirror with a
    restart, a vanishing source file; copy / link / move / move+link, one or two file systems.  Witnesses show the
    bounded model reaches a crash between copy and rename, a half-copied tmp. file, stale events, expiry, ...
E2: behaviours simulated by TLC from MCMirror (which event is delivered when, where the crash falls, what vanishes)
    are executed on a real DigitalRFMirror over a real recording of the model's shape and the recorded operations
    are validated against the specification.
E3: real recordings (1-2 channels, RF + metadata) x methods x event histories derived from them (duplicated,
    reordered, late, stale, events for vanished files) x crash points (move: every point between two operations of
    the mirror; copy / link: sampled; always the points inside a data copy = half-copied tmp.) x EXDEV; every wrapped
    file-system call of the real mirror is one event with the projection of both trees, validated by TLC."""
import os

from .. import tlc
from ..core import Machinery, quiet_stderr
from ..drivers import mirror_drv as drv

ACTIONS = ["NDeliver", "NSkip", "NVanish", "NCrash", "Restart", "EndHandler", "MkDirs", "Cmp", "RmTmp", "CopyBegin", "CopyEnd",
           "Link", "MvRename", "Unlink", "Rename", "RmDirSrc", "RbRemove"]
QUICK_WITNESSES = ["NoCrashBetweenCopyAndRename", "NoHalfCopyAfterCrash", "NoStaleEvent", "NoStaleEventOfNewest", "NoRemirrorAfterConsume", "NeverTwoCopies", "NoExpiry",
                   "NoRepeatedEvent", "NoExpiryOnOlderEvent", "NoRecopyOverHalf"]
MORE_WITNESSES = ["NoStuckTmp", "NeverQuiescentAfterCrash"]

COMBOS = [  # method, link, exdev
    ("copy", False, False), ("copy", False, True), ("link", True, False), ("link", True, True),
    ("move", False, False), ("move", False, True), ("move", True, False), ("move", True, True),
]


def relevant(clause):
    if clause.startswith("harness-") or clause == "unknown-event":
        raise Machinery("the harness produced an invalid history: " + clause)
    return clause.startswith("C17-")


# ---------------------------------------------------------------------------------------------------
# event histories derived from a recording
# ---------------------------------------------------------------------------------------------------
def base_events(rec, rng):
    """what a watcher reports while the recording is made, in the writers' order"""
    ev = []
    for i, f in enumerate(rec.files):
        fid = i + 1
        if f["kind"] == "rf":
            ev.append(("ev", "moved" if rng.random() < 0.7 else "created", fid))   # finalizing rename tmp.x -> x
        elif f["kind"] == "md":
            ev.append(("ev", "created", fid))
            if rng.random() < 0.6:
                ev.append(("ev", "modified", fid))
        else:
            ev.append(("ev", "created", fid))
    return ev


def derive_history(rec, rng, method):
    ev = base_events(rec, rng)
    # duplication: a copy of an event somewhere later
    for e in list(ev):
        if rng.random() < 0.3:
            ev.insert(rng.randint(ev.index(e) + 1, len(ev)), e)
    # reordering
    r = rng.random()
    if r < 0.25:
        rng.shuffle(ev)
    elif r < 0.45:
        ev.reverse()
    elif r < 0.75:
        for _ in range(rng.randint(1, 4)):
            i = rng.randrange(len(ev) - 1)
            ev[i], ev[i + 1] = ev[i + 1], ev[i]
    # late / stale events: everything may be reported again after it was handled (in move mode the file is gone then)
    for _ in range(rng.randint(0, 4)):
        fid = rng.randint(1, len(rec.files))
        ev.append(("ev", rng.choice(["created", "modified", "moved" if rec.files[fid - 1]["kind"] == "rf" else "created"]), fid))
    # files that vanish (removed by something else) before or after their event is handled
    newest = rec.newest_md()
    cand = rec.ids("rf") + [f for f in rec.ids("md") if f not in newest]
    for _ in range(rng.choice([0, 0, 1, 1, 2])):
        fid = rng.choice(cand)
        pos = rng.randint(0, len(ev))
        ev.insert(pos, ("vanish", fid))
        ev.insert(rng.randint(pos + 1, len(ev)), ("ev", "created", fid))
        if rng.random() < 0.7:
            ev.insert(rng.randint(pos + 1, len(ev)), ("ev", "deleted", fid))
    # the newest metadata file of a channel is removed by something else: its deletion is reported in order, stale
    # created / modified events of it arrive later (the newest file that is still there has to stay)
    if newest and rng.random() < 0.35:
        fid = rng.choice(sorted(newest))
        pos = rng.randint(1, len(ev))
        ev.insert(pos, ("vanish", fid))
        ev.insert(pos + 1, ("ev", "deleted", fid))
        for _ in range(rng.randint(1, 2)):
            ev.insert(rng.randint(pos + 2, len(ev)), ("ev", rng.choice(["created", "modified"]), fid))
    # somebody downstream takes mirrored files out of the destination (and prunes emptied directories) while events of
    # other files of the same directories are still to come
    if rng.random() < 0.55:
        data = rec.ids("rf") + rec.ids("md")
        firsts = {}
        for i, e in enumerate(ev):
            if e[0] == "ev" and e[1] in ("created", "moved", "modified") and e[2] in data:
                firsts.setdefault(e[2], i)
        dirof = lambda f: os.path.dirname(rec.files[f - 1]["rel"])
        # a file that is the only one of its directory in the destination when it is taken away, with another file of
        # that directory still to come
        pairs = [(a, b) for a in firsts for b in firsts if a != b and dirof(a) == dirof(b) and firsts[a] < firsts[b]
                 and not any(c not in (a, b) and dirof(c) == dirof(a) and firsts[c] < firsts[b] for c in firsts)]
        if pairs:
            a, b = rng.choice(pairs)
            ev.insert(rng.randint(firsts[a] + 1, firsts[b]), ("consume", a))
        elif firsts:
            a = rng.choice(sorted(firsts))
            ev.insert(rng.randint(firsts[a] + 1, len(ev)), ("consume", a))
    # deletions reported for files the mirror itself moved away / expired
    for _ in range(rng.randint(0, 3)):
        ev.insert(rng.randint(len(ev) // 2, len(ev)), ("ev", "deleted", rng.randint(1, len(rec.files))))
    return [("start", rng.random() < 0.5)] + ev


def straight_history(rec):
    return [("start", False)]


def window_opts(rec, rng):
    """selection variants: a time window on file boundaries, or one kind only"""
    rf = sorted(f["ms"] for f in rec.files if f["kind"] == "rf")
    r = rng.random()
    sub = [t for t in rf[1:] if t % 1000]
    if sub and r < 0.6:
        # a bound that is not a whole second, exactly on a file time (the file is inside the inclusive window)
        t = rng.choice(sub)
        if rng.random() < 0.6:
            return dict(starttime_ms=rng.choice([None, rf[0]]), endtime_ms=t)
        return dict(starttime_ms=t, endtime_ms=None)
    if r < 0.5 and len(rf) >= 2:
        i = rng.randrange(1, len(rf))
        j = rng.randrange(i, len(rf))
        return dict(starttime_ms=rf[i], endtime_ms=rf[j] if rng.random() < 0.5 else None)
    if r < 0.75:
        return dict(include_drf=False)
    return dict(include_dmd=False)


def crash_points(sc, nops, rng, budget):
    """sampled operations of a crash-free run to die in front of: inside data copies, before renames, random others"""
    ops = [e for e in sc["events"] if e["ev"] == "op"]
    inside = [e["n"] for e in ops if e["fn"] == "copye"]          # half-copied tmp.
    before_rename = [e["n"] for e in ops if e["fn"] == "rename"]    # staged, not yet published
    rng.shuffle(inside)
    rng.shuffle(before_rename)
    must = inside[: max(1, budget // 2)] + before_rename[: max(1, budget // 4)]
    rest = [n for n in range(1, nops + 1) if n not in must]
    rng.shuffle(rest)
    return sorted(set(must + rest[: max(0, budget - len(must))]))


# ---------------------------------------------------------------------------------------------------
# E2: behaviours of the specification executed on the real mirror
# ---------------------------------------------------------------------------------------------------
def model_recording(digital_rf, root):
    """a recording of the shape of MCMirror's universe U: properties, two RF files, two metadata files"""
    for seed in range(200):
        rec = drv.Recording(digital_rf, root, seed, nch=1, name="model-U")
        kinds = sorted(f["kind"] for f in rec.files)
        subs = sorted(f["sub"] for f in rec.files if f["kind"] == "pr")
        if kinds == ["md", "md", "pr", "pr", "rf", "rf"] and subs == ["dmd", "drf"]:
            return rec
    raise Machinery("could not produce a recording of the model's shape")


def history_from_behaviour(beh, rec):
    """The environment choices of a behaviour of MCMirror as a history for the real mirror.  MCMirror has one properties
    file (1), RF files 2 3 and metadata files 4 5; the recording has two properties files, both stand for model file 1.
    Returns (opts, steps, crash_rule)."""
    c0 = tlc.tla_to_py(beh[0][1]["cfg"])
    rf = sorted(rec.ids("rf"), key=lambda f: rec.files[f - 1]["key"])
    md = sorted(rec.ids("md"), key=lambda f: rec.files[f - 1]["key"])
    fmap = {1: rec.ids("pr"), 2: [rf[0]], 3: [rf[1]], 4: [md[0]], 5: [md[1]]}
    opts = dict(method=c0["method"], link=bool(c0["link"]) and c0["method"] == "move", exdev=not c0["samefs"])
    steps = [("start", True)]
    crash_rule = None
    changing = 0
    for act, st in beh[1:]:
        last = tlc.tla_to_py(st["last"])
        a = last["a"]
        if a == "Deliver":
            for f in fmap[last["f"]]:
                steps.append(("ev", "created", f))
            changing = 0
        elif a == "Vanish":
            steps.append(("vanish", fmap[last["f"]][0]))
            changing = 0
        elif a == "Consume":
            steps.append(("consume", fmap[last["f"]][0]))
            changing = 0
        elif a == "VanishNewest":     # the deletion is reported in order
            steps.append(("vanish", fmap[last["f"]][0]))
            steps.append(("ev", "deleted", fmap[last["f"]][0]))
            changing = 0
        elif a in ("copyb", "copye", "link", "mvrename", "unlink", "rename", "rbremove", "rmtmp"):
            changing += 1
        elif a == "Crash" and crash_rule is None:
            # the mirror dies while it handles the event delivered last (after `changing` tree-changing operations),
            # or idle: then the crash falls in front of the next operation
            crash_rule = (len(steps) - 1, changing if last["f"] != 0 else 10**6)
    return opts, steps, crash_rule


def replay_behaviour(digital_rf, rec, work, name, beh):
    opts, steps, crash_rule = history_from_behaviour(beh, rec)
    sc, _ = drv.run_history(digital_rf, rec, work, name, opts, steps, crash_rule=crash_rule,
                            desc="behaviour of MCMirror on the real mirror, %s%s" % (opts["method"], ", crash" if crash_rule else ""))
    return sc


# ---------------------------------------------------------------------------------------------------
# binding self-check: corrupted copies of accepted traces must be rejected with the right clause
# ---------------------------------------------------------------------------------------------------
def corrupted_traces(scen, verdicts):
    import copy

    ok = [s for s, v in zip(scen, verdicts) if v["v"] == "ACCEPT" and not s["crash_at"]]
    out = []

    def pick(pred):
        for s in ok:
            if pred(s):
                return copy.deepcopy(s)
        return None

    def first_op(s, fn, a_tree, b_cls):
        for i, e in enumerate(s["events"]):
            if e["ev"] == "op" and e["fn"] == fn and e["res"] == "ok" and e["a"][0] == a_tree and e["b"][1] == b_cls:
                return i, e
        return None, None

    # 1. the destination file is incomplete right after the publishing rename
    s = pick(lambda s: s["opts"]["method"] == "copy")
    if s:
        i, e = first_op(s, "rename", "dst", "final")
        if e:
            e["dstF"][e["b"][2] - 1] = 2
            out.append((s, "C17-Staged-final-name-with-incomplete-content", "content of the final name after rename set to 'partial'"))
    # 2. the second half of a data copy is missing from the log: the rename then comes while the copy is in progress
    s = pick(lambda s: s["opts"]["method"] == "copy")
    if s:
        i, e = first_op(s, "copye", "src", "tmp")
        if e:
            del s["events"][i]
            out.append((s, "C17-operation-outside-the-handler-program-rename", "copye event deleted"))
    # 3. a moved data file is nowhere after the move
    s = pick(lambda s: s["opts"]["method"] == "move" and not s["opts"].get("exdev"))
    if s:
        i, e = first_op(s, "rename", "src", "tmp")
        if e:
            e["dstT"][e["b"][2] - 1] = 0
            out.append((s, "C17-NoLossMove-data-file-intact-nowhere", "tmp. name after the moving rename set to 'absent'"))
    # 4. the newest metadata file is gone from the source at the end; 5. a selected file is missing in the destination
    novanish = lambda s: not any(e["ev"] in ("vanish", "consume") for e in s["events"])
    s = pick(lambda s: s["opts"]["method"] == "move" and "md" in s["cfg"]["kind"] and novanish(s))
    if s:
        c = s["cfg"]
        md = [f for f in range(len(c["kind"])) if c["kind"][f] == "md"]
        newest = max(md, key=lambda f: (c["grp"][f] == c["grp"][md[0]], c["key"][f]))
        s["events"][-1]["src"][newest] = 0
        out.append((s, "C17-NewestMdStays", "newest metadata file set to 'absent' in the source at quiescence"))
    s = pick(lambda s: all(s["cfg"]["sel"]) and novanish(s))
    if s:
        s["events"][-1]["dstF"][len(s["cfg"]["kind"]) - 1] = 0
        out.append((s, "C17-Fidelity-selected-file-missing-or-different-in-destination", "a destination file set to 'absent' at quiescence"))
    # 6. the reader on the destination returns other data
    s = pick(lambda s: s["events"][-1].get("has_rd") and s["events"][-1]["rd"] and len(s["events"][-1]["rd"][0]) == 5)
    if s:
        s["events"][-1]["rd"][0][4] = "0" * 40
        out.append((s, "C17-Fidelity-reader-on-destination-differs-from-source-truth", "digest of the data read from the destination changed"))
    return out


def selfcheck(ctx, scen, verdicts):
    cases = corrupted_traces(scen, verdicts)
    if len(cases) < 4:
        return
    for i, (s, _, _) in enumerate(cases):
        s["name"] = "corrupted%d" % i
    try:
        vs, st = tlc.validate_traces("MirrorTrace", "MirrorTrace.cfg", [c[0] for c in cases], ctx.work, shards=4, tag="selfcheck")
    except tlc.TLCError as e:
        raise Machinery(str(e))
    res = []
    for (s, clause, what), v in zip(cases, vs):
        if v["v"] != "REJECT" or clause not in v["why"]:
            raise Machinery("binding self-check: a corrupted trace (%s) was not rejected with %s but %s" % (what, clause, v))
        res.append({"corruption": what, "rejected_with": v["why"], "at_event": v["line"]})
    ctx.extra["corrupted_traces_rejected"] = res


def replay(ctx, path):
    """write the stored recording again, re-execute the stored history on a fresh real mirror and validate again"""
    import json

    obj = json.load(open(path))["replay"]
    sc = obj["scenario"]
    if obj.get("module") != "MirrorTrace" or "rerun" not in sc:
        # a trace of the composition (DrfPipelineTrace): re-validated as recorded
        from ..core import replay_generic
        return replay_generic(ctx, path)
    ctx.stage()
    import digital_rf

    rr = sc["rerun"]
    work = os.path.join(ctx.work, "mir")
    os.makedirs(work, exist_ok=True)
    rec = drv.Recording(digital_rf, os.path.join(work, "rec"), rr["rec"]["seed"], nch=rr["rec"]["nch"], name=rr["rec"]["name"],
                        fc_ms=rr["rec"].get("fc_ms"))
    sc2, _ = drv.run_history(digital_rf, rec, work, sc["name"], sc["opts"], [tuple(x) for x in rr["steps"]],
                             crash_at=rr.get("crash_at"), crash_rule=tuple(rr["crash_rule"]) if rr.get("crash_rule") else None,
                             desc=sc.get("desc", ""))
    ctx.evaluations = len(sc2["events"])
    ctx.sample({"name": sc2["name"], "desc": sc2["desc"], "events": len(sc2["events"])})
    ctx.validate("MirrorTrace", "MirrorTrace.cfg", [sc2], label="replay", relevant=relevant)


# ---------------------------------------------------------------------------------------------------
# beyond the list: the live recording moved to an archive while it goes on (DrfPipeline.tla)
# ---------------------------------------------------------------------------------------------------
PIPE_WITNESSES = [("W1", "W_NeverCrashMidMove"), ("W2", "W_NeverArchivedWhileRecording"), ("W3", "W_CopyNeverOverlapsWriter"),
                  ("W4", "W_DirNeverRemoved")]


def pipeline(ctx, digital_rf):
    import copy

    from .. import stage as stage_mod
    from ..core import VERIF
    from ..drivers import pipeline_drv

    ctx.model_check("MCDrfPipeline", "MCDrfPipeline_main.cfg" if ctx.quick else "MCDrfPipeline_thorough.cfg", coverage=False, tag="pipe_main")
    ctx.model_check("MCDrfPipeline", "MCDrfPipeline_normdir.cfg", coverage=False, tag="pipe_normdir")
    ctx.model_check("MCDrfPipeline", "MCDrfPipeline_live.cfg", coverage=False, tag="pipe_live")
    # observation O1: with the mirror removing emptied source subdirectories the writer can be disturbed
    ctx.model_check("MCDrfPipeline", "MCDrfPipeline_O1.cfg", expect_violated=("WriterUndisturbed",), coverage=False, tag="pipe_O1")
    ctx.model_check("MCDrfPipeline", "MCDrfPipeline_brokenfilter.cfg", expect_violated=("WriterUndisturbed",), coverage=False, tag="pipe_bf")
    ctx.model_check("MCDrfPipeline", "MCDrfPipeline_brokenfilter2.cfg", expect_violated=("NoTmpNameArchived",), coverage=False, tag="pipe_bf2")
    for c, inv in PIPE_WITNESSES:
        ctx.model_check("MCDrfPipeline", "MCDrfPipeline_%s.cfg" % c, expect_violated=(inv,), coverage=False, tag="pipe_" + c)
    try:
        shim = stage_mod.build_shim(ctx.work)
    except stage_mod.BuildError as e:
        raise Machinery(str(e))
    env = dict(stage=ctx.stage(), shim=shim, verif=VERIF, root=os.path.join(ctx.work, "fsrun"))
    scen = []
    with quiet_stderr():
        for i in range(ctx.pick(12, 160)):
            scen.append(pipeline_drv.pipeline_run(env, digital_rf, ctx.rng, ctx.seed * 433 + i, "pipe%d" % i, lose=[0.0, 0.1, 0.3][i % 3],
                                                  exdev=bool(i % 2), crash=i % 4 >= 2, race=i % 3 == 0))
    ctx.extra["pipeline"] = dict(
        runs=len(scen), events=sum(len(s["events"]) for s in scen),
        mirror_activations=sum(1 for s in scen for e in s["events"] if e["ev"] == "m"),
        mirror_crashes=sum(1 for s in scen for e in s["events"] if e["ev"] == "c"),
        archive_reader_passes=sum(1 for s in scen for e in s["events"] if e["ev"] == "r"),
        observation_O1_reproduced=sum(s["o1"] for s in scen),
        what="live recording under the interposer -> watchdog events (some lost) -> real event filter -> real DigitalRFMirror in "
             "move mode (one or two file systems, killed once between two of its operations and restarted) -> DigitalRFReader on "
             "the archive; both trees projected after every handler activation; TLC validates against DrfPipeline.tla")
    if scen:
        ctx.sample({"name": scen[0]["name"], "config": scen[0]["desc"], "events": scen[0]["events"][:8]})
    vs = ctx.validate("DrfPipelineTrace", "DrfPipelineTrace.cfg", scen, label="live recording moved to an archive")
    # binding self-check: an accepted run with one observation changed must be rejected by the matching clause
    ok = [s for s, v in zip(scen, vs) if v["v"] == "ACCEPT" and any(e["ev"] == "m" and e["k"] == "moved" for e in s["events"])]
    if ok:
        cases = []
        a = copy.deepcopy(ok[0])
        e = [x for x in a["events"] if x["ev"] == "m" and x["k"] == "moved"][0]
        e["dst"][e["j"] - 1][1] = "part"
        cases.append((a, "C17-pipeline-ArchiveFinalComplete-final-archive-name-with-incomplete-content"))
        b = copy.deepcopy(ok[0])
        e = [x for x in b["events"] if x["ev"] == "m" and x["k"] == "moved"][0]
        e["dst"][e["j"] - 1][1] = "none"
        cases.append((b, "C17-pipeline-NoLoss-finalized-file-intact-nowhere"))
        c = copy.deepcopy(ok[0])
        e = [x for x in c["events"] if x["ev"] == "m" and x["tmp"]]
        if e:
            e[0]["stmp"][e[0]["j"] - 1] = 0
            cases.append((c, "C15-pipeline-WriterUndisturbed-mirror-took-a-file-in-progress"))
        for i, (s, _) in enumerate(cases):
            s["name"] = "pipe-corrupted%d" % i
        try:
            cv, _ = tlc.validate_traces("DrfPipelineTrace", "DrfPipelineTrace.cfg", [x[0] for x in cases], ctx.work, shards=2, tag="pipe_selfcheck")
        except tlc.TLCError as e:
            raise Machinery(str(e))
        for (s, clause), v in zip(cases, cv):
            if v["v"] != "REJECT" or clause not in (v["why"] + v.get("first", [])):
                raise Machinery("binding self-check (pipeline): a corrupted trace was not rejected with %s but %s" % (clause, v))
        ctx.extra["pipeline"]["binding_selfcheck"] = [c for _, c in cases]


# ---------------------------------------------------------------------------------------------------
def run(ctx):
    q = ctx.quick
    # ---- E1 -------------------------------------------------------------------
    if q:
        ctx.model_check("MCMirror", "MCMirror_quick.cfg", coverage=False, timeout=600)
        ctx.model_check("MCMirror", "MCMirror_quick_vanish.cfg", coverage=False, timeout=600, tag="quick_vanish")
    else:
        ctx.model_check("MCMirror", "MCMirror_thorough.cfg", coverage=False, timeout=3000)
    ctx.model_check("MCMirror", "MCMirror_cov.cfg", required_actions=ACTIONS, tag="cov", timeout=600)
    for w in QUICK_WITNESSES + ([] if q else MORE_WITNESSES):
        ctx.model_check("MCMirror", "MCMirror_W_%s.cfg" % w, expect_violated=("W_" + w,), coverage=False, tag="W_" + w,
                        timeout=900)

    # ---- the implementation ---------------------------------------------------------
    ctx.stage()
    import digital_rf

    pipeline(ctx, digital_rf)

    rng = ctx.rng
    work = os.path.join(ctx.work, "mir")
    os.makedirs(work, exist_ok=True)
    scen = []
    kinds = {}

    def add(sc, kind):
        scen.append(sc)
        kinds[kind] = kinds.get(kind, 0) + 1

    # ---- E2 ---------------------------------------------------------------------------
    nbeh = ctx.pick(60, 600)
    mrec = model_recording(digital_rf, os.path.join(work, "model_rec"))
    behs, cmd = tlc.simulate("MCMirror", "MCMirror_sim.cfg", ctx.work, num=nbeh, depth=ctx.pick(60, 90), seed=ctx.seed + 17)
    ctx.extra["simulate_cmd"] = cmd
    for i, beh in enumerate(behs):
        if len(beh) < 2:
            continue
        add(replay_behaviour(digital_rf, mrec, work, "sim%d" % i, beh), "spec-behaviour")
    nsim = len(scen)

    # ---- E3 ---------------------------------------------------------------------------
    nrec = ctx.pick(3, 5)
    recs = []
    for i in range(nrec):
        nch = 1 if i % 3 != 2 else 2
        # (the first recording has half-second files: file names and window bounds that are not whole seconds)
        recs.append(drv.Recording(digital_rf, os.path.join(work, "rec%d" % i), rng.randrange(2**31), nch=nch, name="rec%d" % i,
                                  fc_ms=500 if i == 0 else None))
    ctx.extra["recordings"] = [r.desc for r in recs]
    nrand = ctx.pick(2, 4)
    sample_n = ctx.pick(4, 10)
    for ri, rec in enumerate(recs):
        for ci, (method, link, exdev) in enumerate(COMBOS):
            opts = dict(method=method, link=link and method == "move", exdev=exdev)
            tag = "%s-%s%s%s" % (rec.name, method, "+link" if opts["link"] else "", "-exdev" if exdev else "")
            hists = [("replay", straight_history(rec))]
            for k in range(nrand):
                hists.append(("hist%d" % k, derive_history(rec, rng, method)))
            for hi, (hname, steps) in enumerate(hists):
                sc, nops = drv.run_history(digital_rf, rec, work, "%s-%s" % (tag, hname), opts, steps)
                add(sc, "crash-free")
                # crash sweeps.  move: every point between two operations - quick: on the start() replay of the first
                # recording (all four move variants) and on a derived history of the second (two variants); thorough: on
                # the replay and two derived histories of every recording.  Everything else: sampled points, always
                # including the points inside a data copy (half-copied tmp.) and between staging and publishing.
                if method == "move":
                    if q:
                        every = (ri == 0 and hi == 0) or (ri == 1 and hi == 1 and not opts["link"])
                    else:
                        every = hi <= 2
                else:
                    every = False
                if every:
                    pts = list(range(1, nops + 1))
                elif hi <= 1 or not q:
                    pts = crash_points(sc, nops, rng, sample_n)
                else:
                    pts = []
                for cp in pts:
                    s2, _ = drv.run_history(digital_rf, rec, work, "%s-%s-crash%d" % (tag, hname, cp), opts, steps, crash_at=cp)
                    add(s2, "crash+restart")
        # selections: time window / kinds
        for k in range(ctx.pick(3, 10)):
            method, link, exdev = rng.choice(COMBOS)
            opts = dict(method=method, link=link and method == "move", exdev=exdev)
            opts.update(window_opts(rec, rng))
            steps = derive_history(rec, rng, method)
            rf_sub = [f["ms"] for f in rec.files if f["kind"] == "rf" and f["ms"] % 1000]
            if ri == 0 and k == 0 and rf_sub:
                # always once: a window whose end is a file time that is not a whole second, every file first seen through a
                # live event (the files that exist at the start are ignored)
                opts.update(starttime_ms=None, endtime_ms=sorted(rf_sub)[len(rf_sub) // 2], include_drf=True, include_dmd=True)
                steps = [("start", True)] + base_events(rec, rng)       # (nothing vanishes here)
            seldesc = "%s %s selection %s" % (rec.name, method, {k2: v for k2, v in opts.items() if k2 not in ("method", "link", "exdev")})
            sc, nops = drv.run_history(digital_rf, rec, work, "%s-sel%d" % (rec.name, k), opts, steps, desc=seldesc)
            add(sc, "selection")
            for cp in crash_points(sc, nops, rng, 3):
                s2, _ = drv.run_history(digital_rf, rec, work, "%s-sel%d-crash%d" % (rec.name, k, cp), opts, steps, crash_at=cp,
                                        desc=seldesc)
                add(s2, "crash+restart")

    evs = [e for s in scen for e in s["events"]]
    ops = {}
    for e in evs:
        if e["ev"] == "op":
            k = e["fn"] + ("" if e["res"] == "ok" else "(failed)")
            ops[k] = ops.get(k, 0) + 1
    ctx.evaluations = len(evs)
    ctx.extra.update(
        spec_behaviours_replayed=nsim, scenarios_by_kind=kinds, scenarios=len(scen),
        events_by_kind={k: sum(1 for e in evs if e["ev"] == k) for k in sorted({e["ev"] for e in evs})},
        operations_by_kind=ops,
        crash_scenarios=sum(1 for s in scen if s["crash_at"]),
        half_copied_tmp_crashes=sum(1 for s in scen for e in s["events"] if e["ev"] == "crash" and 2 in e["dstT"]),
        reader_comparisons=sum(1 for s in scen if s["events"][-1].get("has_rd")),
        tracebacks_printed_by_the_mirror=sum(s["tracebacks"] for s in scen),
        rule="recordings by the tree-built writers (1-2 channels: 10/100/250 Hz, 0.5-2 s files, 2-5 RF files with an optional "
        "skipped period, 2-4 metadata files under <ch>/metadata); DigitalRFMirror with a stub observer: real start() replay and "
        "real handlers via dispatch(); histories = writer-order events (moved tmp->final / created / modified) with duplication, "
        "reordering (shuffle, reversal, swaps), late repeats, vanished files with their stale created/deleted events; methods "
        "copy, link, move, move+link, each on one file system and with EXDEV forced; crash before operation i for every i (move) "
        "or sampled incl. every point inside a data copy (copy/link), then a new mirror with a full replay; selections by time "
        "window on file boundaries and by kind.  One event per wrapped file-system call with the projection (sha1 per path) of both trees.",
        level_note="content identity is decided by sha1 of whole files in the projection; real inotify delivery and the concurrency "
        "between start() and the observer thread are not exercised (events are dispatched synchronously); crash = process death "
        "between two Python-level file-system calls, the data copy is split in two halves",
    )
    for s in (scen[:1] + scen[nsim:nsim + 1] + [x for x in scen if x["crash_at"]][:1]):
        ctx.sample({"name": s["name"], "desc": s["desc"], "files": s["files"], "opts": s["opts"], "crash_at": s["crash_at"],
                    "events": [{k: v for k, v in e.items() if k != "srcT"} for e in s["events"][:14]]})
    verdicts = ctx.validate("MirrorTrace", "MirrorTrace.cfg", scen, label="mirror history", relevant=relevant)
    selfcheck(ctx, scen, verdicts)
