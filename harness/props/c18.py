"""C18 - drf cp / mv / ln transfer exactly the listed set.

E1: TLC exhausts every sequence of up to three (thorough: four) cp / mv / ln commands (option sets, windows, channel lists, two destinations)
    over a two-channel abstract tree with the transferred set given by the reference listing of the present source: nothing
    is ever lost, the source changes only by mv and by exactly the transferred set, destinations grow by exactly that set,
    tmp./stray files never move, a moved set is gone for the same listing; witnesses show each command, a partial window, a
    forward-fill transfer and an emptied channel are reached.
E3: trees of C14 (systematic and random) and real recordings (RF + metadata channel written by the real writers) are
    materialised; sequences of real `drf cp|mv|ln` commands run through digital_rf.drf_command.main([...]) with sampled
    options (channel lists incl. comma form, --only, -R, window as ISO or float, include flags, --symbolic); source and
    destination are projected before and after (paths, sha1, inode, link target); TransferTrace (TLC) requires the new
    destination files = the relocated listing (twice: the real lsdrf with the same options, and Listing.tla through
    Transfer!Cp/Mv/Ln), byte identity, links that share the inode / point to the source, source unchanged (cp, ln) or
    reduced by exactly that set (mv); on recordings a DigitalRFReader / DigitalMetadataReader on the destination must
    return the source's data for the transferred period."""
import json
import os
import shutil

from ..core import Machinery, quiet_stderr
from ..drivers import listing_drv as drv
from .list_common import selfcheck

WITNESSES = ("W_NeverEmptiesAChannel", "W_NeverPartialWindow", "W_NeverForwardFill", "W_NeverLn", "W_NeverCp", "W_NeverMv")


def e1(ctx):
    ctx.model_check("MCTransfer", "MCTransfer.cfg" if ctx.quick else "MCTransfer_thorough.cfg", coverage=False, timeout=1500)
    ctx.model_check("MCTransfer", "MCTransfer_guard.cfg", coverage=False, timeout=900, tag="guard")
    # (-coverage does not terminate on modules that use Listing.tla: reachability of the actions is shown by witnesses)
    ctx.model_check("MCTransfer", "MCTransfer_witnesses.cfg", expect_violated=WITNESSES, coverage=False, extra=["-continue"],
                    tag="witnesses", timeout=600)


def pick_channels(rng, tree):
    """a channel list for -c: distinct directories none of which contains another"""
    tops = sorted({c["path"].split("/")[0] for c in tree.chans if c["path"]})
    full = sorted({c["path"] for c in tree.chans if c["path"]})
    r = rng.random()
    if r < 0.45 or not tops:
        return []
    if r < 0.7:
        if len(tops) > 1 and rng.random() < 0.5:
            return rng.sample(tops, len(tops))      # every channel, in either order
        return rng.sample(tops, rng.randint(1, len(tops)))
    one = rng.choice(full)
    return [one]


def commands(ctx, rng, world, count, ncmd, truth=None, np=None, digital_rf=None, sync=False):
    tree = world.tree
    wins = drv.windows(tree.points())
    flags = drv.flag_combos()
    evs = []
    for _ in range(ncmd):
        fl = rng.choice(flags) if rng.random() < 0.6 else (True, True, 2, 2)
        s, e = rng.choice(wins) if rng.random() < 0.75 else (None, None)
        o = drv.make_opts(fl, rng.random() < 0.75, s, e)
        o["rev"] = rng.random() < 0.3
        cmd = rng.choice(["cp", "cp", "mv", "ln", "ln"])
        sym = cmd == "ln" and rng.random() < 0.5
        chs = pick_channels(rng, tree)
        if sync and rng.random() < 0.7:
            # a multi-channel recording transferred channel by channel, often without the properties files
            tops = sorted({c["path"] for c in tree.chans if c["path"]})
            chs = rng.sample(tops, len(tops))
            if rng.random() < 0.6:
                o.update(dp=0, mp=0)
        ev = world.run(cmd, o, chs=chs, symbolic=sym, comma=rng.random() < 0.4, float_time=rng.random() < 0.4,
                       rel_end=rng.random() < 0.25, spelling=rng.choice([0, 0, 0, 1, 2, 3]),
                       via_link=rng.random() < (0.5 if sym else 0.15), live=cmd == "mv" and rng.random() < 0.6)
        evs.append(ev)
        if cmd == "ln" and not ev["raised"] and ev["new"] and rng.random() < 0.5:
            evs.append(drv.relink(world, ev["d"], sym))
            count["relinks"] = count.get("relinks", 0) + 1
        count[cmd + ("-s" if sym else "")] = count.get(cmd + ("-s" if sym else ""), 0) + 1
        count["files_transferred"] += len(ev["new"])
        count["raised"] += ev["raised"]
        if truth is not None and not ev["raised"]:
            rd = drv.reader_events(digital_rf, np, world, truth, ev)
            evs += rd
            count["reader_comparisons"] += len(rd)
    return evs


def scenario(name, desc, world, evs):
    return dict(name=name, desc=desc, tree=world.tree.abstract(), names=world.tree.names(), ndst=max(1, world.nd), events=evs)


def e3(ctx):
    ctx.stage()
    import digital_rf
    import numpy as np

    rng = ctx.rng
    base = os.path.join(ctx.work, "xfer")
    count = dict(files_transferred=0, raised=0, reader_comparisons=0, trees=0, recordings=0)
    scen = []
    core = list(drv.enum_core(3))
    ntree = ctx.pick(100, 6400)
    for n in range(ntree):
        if n % 3 == 0:
            ckind, pats = rng.choice(core)
            cad = rng.choice([10, 3600, 4])
            b = rng.choice(drv.BASES)
            t = drv.core_tree(b - b % cad, rng.choice(["ch", "", "grp/ch"]), ckind, pats, cad)
            desc = "%s channel, subdirs %s" % (ckind, "/".join(pats))
        elif n % 3 == 1 and n % 2 == 0:
            t = drv.sync_tree(rng)
            desc = "synchronised channels"
        else:
            t = drv.random_tree(rng)
            desc = "random tree"
        if not t.time_consistent():
            raise Machinery("generator produced a tree that is not time-consistent: %s" % t.names())
        if os.path.exists(base):
            shutil.rmtree(base)
        w = drv.TransferWorld(t, base)
        evs = commands(ctx, rng, w, count, 3, sync=desc == "synchronised channels")
        scen.append(scenario("tree%d" % n, desc, w, evs))
        count["trees"] += 1
    for n in range(ctx.pick(12, 300)):
        with quiet_stderr():
            t, truth = drv.make_recording(digital_rf, np, rng, base)
            w = drv.TransferWorld(t, base, materialise=False)
            evs = commands(ctx, rng, w, count, 4, truth=truth, np=np, digital_rf=digital_rf)
        scen.append(scenario("rec%d" % n, "recording made by DigitalRFWriter + DigitalMetadataWriter", w, evs))
        count["recordings"] += 1
    return scen, count


def corrupted(scen, verdicts):
    """corrupt one logged field of the FIRST command of accepted scenarios (later events are dropped)"""
    import copy

    out = {}
    for s, v in zip(scen, verdicts):
        if v["v"] != "ACCEPT":
            continue
        e = s["events"][0]
        if e["ev"] != "xfer" or e["raised"] or not e["new"]:
            continue
        rd = s["events"][1] if len(s["events"]) > 1 and s["events"][1]["ev"] == "rd" else None

        def put(label, clause, mod, keep_rd=False):
            if label not in out:
                s2 = copy.deepcopy(s)
                s2["events"] = s2["events"][:2] if keep_rd else s2["events"][:1]
                mod(s2["events"][-1] if keep_rd else s2["events"][0])
                out[label] = (label, s2, clause)

        put("a transferred file missing in the destination", "C18-transferred-set-differs-from-equivalent-listing",
            lambda e2: e2["new"].pop())
        put("destination file differs from the source file", "C18-content-differs", lambda e2: e2["new"][0].update(same=False))
        if e["cmd"] == "mv":
            put("moved file still in the source", "C18-source-not-reduced-by-exactly-the-transferred-set",
                lambda e2: e2["src_after"].append(e2["new"][0]["id"]))
        if e["cmd"] == "cp":
            put("copy removed a source file", "C18-source-changed-by-cp-or-ln", lambda e2: e2["src_after"].remove(e2["new"][0]["id"]))
            put("copy changed a source file", "C18-source-content-changed", lambda e2: e2["src_changed"].append(e2["new"][0]["id"]))
        if e["cmd"] == "ln" and not e["sym"]:
            put("hard link with another inode", "C18-hard-link-does-not-share-inode", lambda e2: e2["new"][0].update(hard=False))
        if e["cmd"] == "ln" and e["sym"]:
            put("symlink pointing elsewhere", "C18-symlink-does-not-point-to-source", lambda e2: e2["new"][0].update(sym=False))
        if rd and rd["ok"] and rd["got"]:
            put("reader on the destination returns other data", "C18-reader-on-destination-differs-from-source",
                lambda r2: r2.update(got=r2["got"][:-1]), keep_rd=True)
    return list(out.values())


def run(ctx):
    e1(ctx)
    scen, count = e3(ctx)
    ncmd = sum(1 for s in scen for e in s["events"] if e["ev"] == "xfer")
    ctx.evaluations = ncmd + count["reader_comparisons"]
    if count["files_transferred"] == 0 or count["reader_comparisons"] == 0:
        raise Machinery("no file was transferred / no reader comparison was made - the driver is not bound")
    ctx.extra.update(
        commands=ncmd, by_command={k: v for k, v in count.items() if k in ("cp", "mv", "ln", "ln-s")},
        trees=count["trees"], recordings=count["recordings"], files_transferred=count["files_transferred"],
        commands_that_raised=count["raised"], reader_comparisons=count["reader_comparisons"],
        rule="per tree (1/3 systematic C14 family, 2/3 random C14 trees) a sequence of 3 commands, per recording (RF 10 Hz int16 with a "
        "gap + metadata channel, 2 s files, 10 s subdirs, written by the real writers) 4 commands + reader comparisons; command "
        "cp/mv/ln(hard, symbolic), 36 include-flag combinations (60%) or defaults, --only 25%, -R 30%, window with ends on "
        "file/subdir times -1/0/+1 ms (75%) given as ISO string, float seconds or '+seconds' relative end, channel list none / top-level dirs / one "
        "channel, comma form 40%; every command into a fresh destination, the source persists within the scenario",
    )
    ctx.sample(dict(name=scen[0]["name"], desc=scen[0]["desc"], names=scen[0]["names"], events=scen[0]["events"][:2]))
    ctx.sample(dict(name=scen[-1]["name"], desc=scen[-1]["desc"], names=scen[-1]["names"], events=scen[-1]["events"][:3]))
    verdicts = ctx.validate("TransferTrace", "TransferTrace.cfg", scen, label="transfer", relevant=lambda c: c.startswith("C18-"))
    if not ctx.violations:   # never let the self-check mask a violation
        selfcheck(ctx, "TransferTrace", "TransferTrace.cfg", corrupted(scen, verdicts), need=6)


def replay(ctx, path):
    """re-run the stored command sequence on a re-materialised tree and validate again (recordings: re-validate the trace)"""
    obj = json.load(open(path))["replay"]
    sc = obj["scenario"]
    sc.pop("known", None)
    if sc["name"].startswith("rec"):
        ctx.validate("TransferTrace", "TransferTrace.cfg", [sc], label="replay", relevant=lambda c: c.startswith("C18-"))
        return
    ctx.stage()
    nm, ab = sc["names"], sc["tree"]
    t = drv.Tree(nm["base_s"])
    t.chans = [dict(path=p, root=(p == "")) for p in nm["chans"]]
    t.subs = [dict(s, name=n) for s, n in zip(ab["subs"], nm["subs"])]
    t.files = [dict(f, rel=r) for f, r in zip(ab["files"], nm["files"])]
    w = drv.TransferWorld(t, os.path.join(ctx.work, "xfer_replay"))
    evs = []
    for e in sc["events"]:
        if e["ev"] != "xfer":
            continue
        a = e["argv"]
        chs = []
        for i, x in enumerate(a):
            if x == "-c":
                chs += a[i + 1].split(",")
        evs.append(w.run(e["cmd"], e["o"], chs=chs, symbolic=e["sym"], comma=any("," in x for x in a),
                         float_time=any(x in ("-s", "-e") and "T" not in a[i + 1] for i, x in enumerate(a[:-1])),
                         rel_end=any(x == "-e" and a[i + 1].startswith("+") for i, x in enumerate(a[:-1]))))
    ctx.evaluations = len(evs)
    ctx.validate("TransferTrace", "TransferTrace.cfg", [scenario(sc["name"], sc.get("desc", ""), w, evs)], label="replay",
                 relevant=lambda c: c.startswith("C18-"))
