"""C19 - writer bookkeeping matches the recording (DrfChannel: Counters)."""
from . import chan_common as cc

PREFIXES = ("C19-",)


def run(ctx):
    cc.run(ctx, PREFIXES, nsim=ctx.pick(40, 700), nrand=ctx.pick(70, 1400), sim_depth=ctx.pick(12, 16),
           what="after every call (accepted, rejected, zero-length, close) the four getters, the return value and "
                "get_last_file_written/get_last_dir_written are logged and compared with the specification's session record",
           bad_rate=0.2, empty_rate=0.1, observe_pairs=4, nvec=1)
