"""C20 - live metadata visibility and non-destructive reading (Metadata.tla: AllReadersAgree / ObservationsReadOnly).

E1: TLC exhausts the interleavings of metadata writes, RF writes, reader construction (metadata and RF readers, any time) and
    every observation by every reader: answers are the function of what has been written so far whoever asks, no observation
    changes the tree token.
E2/E3: the same interleavings at call granularity on a real tree (RF channel + its metadata channel) with one old and one new
    reader of each kind; a recursive hash of the tree (names, sizes, mtimes, bytes) is taken before and after every call -
    metadata reads, get_bounds, read_latest, get_fields, DigitalRFReader construction / get_bounds / read /
    get_continuous_blocks / get_properties(sample) / read_metadata, lsdrf in six variants - and TLC compares the tokens."""
from . import md_common as mc

PREFIXES = ("C20-",)
replay = mc.replay


def run(ctx):
    mc.run(ctx, "c20", "MCMetadata_c20_quick.cfg" if ctx.quick else "MCMetadata_c20.cfg", mc.W_C20, PREFIXES, mc.VISIBILITY,
           nsim=ctx.pick(40, 1000), nrand=ctx.pick(30, 1200), depth=ctx.pick(22, 30),
           rule="E2: TLC -simulate behaviours of MCMetadata (metadata writes, RF writes, new readers of both kinds, all observations) on "
                "a real tree. E3: random trees <top>/ch0 (RF, 2-300 samples per file, gapped or continuous) + <top>/ch0/metadata at the "
                "same rate; 8-16 steps of metadata write (three forms, duplicates) / RF write (within a file, across files), each "
                "followed by a round of read-only calls by a metadata reader and an RF reader created before the first metadata "
                "write and by freshly created ones: bounds, read(k,k) of the newest sample, read_latest, range reads, read_metadata, "
                "RF get_bounds / read / get_continuous_blocks / get_properties / get_properties(sample), two of six lsdrf variants; the "
                "whole tree is hashed (names, sizes, mtimes, bytes) before and after every call")
