"""Shared machinery of the checks decided by DrfChannel.tla (C01 C05 C06 C07 C08 C11 C19, structural half of C04)."""
import os
import shutil

import numpy as np

from .. import tlc
from ..core import Machinery, quiet_stderr
from ..drivers import chan_drv as cd
from ..drivers import chan_gen as cg

WITNESSES = ["NoGapInsideFile", "NoMultiFileWrite", "NoRefusal", "NoPartialRefusal", "NoSecondSessionData", "NoSkippedFile"]
ACTIONS = ["NOpen", "NOpenRefused", "NWrite", "NWriteBlocks", "NRegen", "BadWrite", "WriteEmpty", "Close"]

# realisations of the model partition B5 = <<1,5,8,11,15,18>> (10/3 samples per file)
REALISATIONS = [
    dict(n=10, d=3, fc=1000, sc=2, t0=315532800000 + 3000 * 7),          # 1980
    dict(n=500, d=9, fc=60, sc=3, t0=2145916800000 + 180 * 11),          # 2038
    dict(n=10000, d=3, fc=1, sc=1, t0=4070908800000 + 3 * 333),          # 2099
    dict(n=10, d=3, fc=1000, sc=3600, t0=1700000001000 // 3000 * 3000),  # 2023, one subdirectory
]


def e1(ctx, invariants_cfg=None, witnesses=WITNESSES):
    q = ctx.quick
    ctx.model_check("MCDrfChannel", "MCDrfChannel_quick.cfg" if q else "MCDrfChannel_thorough.cfg", coverage=False,
                    timeout=ctx.pick(600, 7200))
    ctx.model_check("MCDrfChannel", "MCDrfChannel_cov.cfg", required_actions=ACTIONS, tag="cov")
    ctx.witnesses("MCDrfChannel", "MCDrfChannel_W_%s.cfg", list(witnesses))


def relevance(prefixes):
    def rel(clause):
        if clause.startswith("harness-") or clause == "unknown-event":
            raise Machinery("the harness produced an invalid history: " + clause)
        return any(clause.startswith(p) for p in prefixes)
    return rel


def replay_behaviour(digital_rf, root, beh, real, rng, seed, name, dtype=None, cdriver=None):
    """execute a TLC behaviour of MCDrfChannel (sim scope) on the real writer/reader"""
    c0 = tlc.tla_to_py(beh[0][1]["cfg"])
    mode, nd = c0["mode"], c0["nd"]
    i = seed
    dtype = dtype or cg.DTYPES[(i // 4) % 10]
    order = "|" if dtype.endswith("1") else "<>"[(i // 40 + i) % 2]
    cc = cd.ChanConfig(real["n"], real["d"], real["fc"], real["sc"], np.dtype(dtype if order == "|" else order + dtype),
                       bool((i // 2) % 2), [1, 2, 3][(i // 8 + i) % 3], mode, real["t0"], len(c0["bound"]) - 1,
                       compression=(rng.choice([0, 1, 9]) if mode != "contU" else 0), checksum=False, seed=seed, nd=nd)
    if cc.bound != c0["bound"]:
        raise Machinery("realisation %s does not realise the model partition %s: %s" % (real, c0["bound"], cc.bound))
    if os.path.exists(root):
        shutil.rmtree(root)
    os.makedirs(root)
    p1 = cc.params()
    p2 = cg.mismatch_params(rng, p1, cg.MISMATCH_KINDS[seed % len(cg.MISMATCH_KINDS)])
    if cdriver:
        ch = cd.CChannel(digital_rf, root, cc, [p1, p2], cdriver)
    else:
        ch = cd.Channel(digital_rf, root, cc, [p1, p2])
    is_open = False
    touched = set()
    for act, st in beh[1:]:
        last = tlc.tla_to_py(st["last"])
        a = last["a"]
        if a == "Open":
            if not ch.open(last["d"], last["start"], last["pid"]):
                break       # refused where the behaviour opens a session: the trace says so, the rest cannot be executed
            is_open = True
            touched.add(last["d"])
        elif a == "OpenRefused":
            ch.open(last["d"], cc.bound[0], last["pid"])
        elif a == "Write":
            ch.write([list(r) for r in last["runs"]])
        elif a == "BadWrite":
            ch.bad(last["kind"])
        elif a == "WriteEmpty":
            ch.empty(rng.choice([0, 2]))
        elif a == "Close":
            ch.close()
            is_open = False
            ch.observe(sorted(touched), rng, npairs=12, nvec=4)
        elif a == "RegenProps":
            ch.regen(last["d"], last["j"])
            ch.observe([last["d"]], rng, npairs=8, nvec=2)
        else:
            raise Machinery("unknown action %s" % a)
    if is_open:
        ch.close()
    if touched:
        ch.observe(sorted(touched), rng, npairs=15, nvec=4)
    sc = ch.scenario(name)
    recs = ch.file_records
    shutil.rmtree(root, ignore_errors=True)
    return sc, recs, cc


def e2(ctx, digital_rf, nbeh, depth, dtype=None, cdriver=None, capi_every=0):
    behs, cmd = tlc.simulate("MCDrfChannel", "MCDrfChannel_sim.cfg", ctx.work, num=nbeh, depth=depth, seed=ctx.seed + 7)
    ctx.extra["simulate_cmd"] = cmd
    scen, recs = [], []
    for i, beh in enumerate(behs):
        if len(beh) < 2:
            continue
        real = REALISATIONS[i % len(REALISATIONS)]
        use_c = cdriver if (capi_every and i % capi_every == capi_every - 1) else None
        sc, rr, cc = replay_behaviour(digital_rf, os.path.join(ctx.work, "chan"), beh, real, ctx.rng, ctx.seed * 7919 + i,
                                      "sim%d%s" % (i, "-capi" if use_c else ""), dtype, cdriver=use_c)
        scen.append(sc)
        recs.append((cc, rr))
    return scen, recs


def e3(ctx, digital_rf, n, cdriver=None, capi_every=0, **kw):
    scen, recs = [], []
    for i in range(n):
        use_c = cdriver if (capi_every and i % capi_every == capi_every - 1) else None
        sc, rr, cc = cg.run_random(digital_rf, os.path.join(ctx.work, "chan"), ctx.rng, ctx.seed * 104729 + i,
                                   "rand%d%s" % (i, "-capi" if use_c else ""), cdriver=use_c, strat=ctx.seed * 7 + i, **kw)
        scen.append(sc)
        recs.append((cc, rr))
    return scen, recs



def refusal_histories(ctx, digital_rf, count):
    """refusal-then-continue: a later session runs into a period finalized by an earlier one, is refused (once or twice), and
    must remain usable for the following free periods (C11); the files it goes on to write belong to the same session
    (uuid, increasing sequence numbers: C06)"""
    import numpy as np
    s4 = []
    rng = ctx.rng
    for i in range(count):
        n, d, fc = cg.random_rate(rng, 300)
        sc_ms = fc * (rng.choice([1, 2, 5]) if i % 4 != 3 else 10)
        while sc_ms % 1000:
            sc_ms += fc
        t0 = (rng.randint(315532800, 4102444800) * 1000) // fc * fc
        if i % 4 == 3:
            t0 = t0 // sc_ms * sc_ms       # the hole variant: all windows in one subdirectory
        mode = ["gapped", "contU", "contC"][i % 3]
        cfg = cd.ChanConfig(n, d, fc, sc_ms // 1000, np.dtype(rng.choice(["<i2", ">f4", "<u1", ">i8"])), bool(i % 2), 1 + i % 2, mode, t0, 7, seed=i)
        top = root = os.path.join(ctx.work, "chan")
        shutil.rmtree(top, ignore_errors=True)
        if i % 4 == 1:
            # the channel lives under a long path (more than 256 characters)
            root = os.path.join(top, *["a-directory-name-of-sixty-characters-%02d-%s" % (x, "y" * 20) for x in range(4)])
        os.makedirs(root)
        ch = cd.Channel(digital_rf, root, cfg, [cfg.params()])
        b = cfg.bound
        k = rng.choice([2, 3])           # window finalized by session 1 (1-based)
        hole = i % 4 == 3                # session 1 also leaves an earlier file: the later session starts in the hole between
        if hole:
            k = 3
            ch.open(1, b[0], 1)
            ch.write([[b[0], max(1, b[1] - b[0] - rng.choice([0, 1]))]])
            ch.write([[b[k - 1], max(1, (b[k] - b[k - 1]) - rng.choice([0, 0, 1]))]])
            ch.close()
        else:
            ch.open(1, b[k - 1], 1)
            ch.write([[b[k - 1], max(1, (b[k] - b[k - 1]) - rng.choice([0, 0, 1]))]])
            ch.close()
        s0 = b[k - 2] + rng.randint(0, b[k - 1] - b[k - 2] - 1)
        ch.open(1, s0, 1)
        if rng.random() < 0.7:
            ch.write([[s0, b[k - 1] - s0 + rng.choice([1, 1, 2])]])   # contiguous into the finalized period: refused part-way
        else:
            ch.write([[s0, 1]])
            ch.write([[b[k - 1], 1]])                                  # directly into the finalized period
        for _ in range(rng.choice([0, 1, 1])):
            ch.write([[b[k - 1] + rng.randint(0, b[k] - b[k - 1] - 1), 1]])   # a second attempt
        a1 = b[k] + rng.choice([0, 0, 1]) * min(1, b[k + 1] - b[k] - 1)
        n1 = rng.choice([1, 2])
        ch.write([[a1, n1]])                                           # the next free period
        a2 = max(b[k + 1], a1 + n1)
        ch.write([[a2, 1]])
        a3 = max(b[k + 2], a2 + 1)
        if a3 < b[-1]:
            ch.write([[a3, 1]])
        ch.close()
        ch.observe([1], rng, npairs=6, nvec=1)
        s4.append(ch.scenario("refusal%d" % i))
        ch.kept = []
        shutil.rmtree(top, ignore_errors=True)
    return s4


def multi_writer_histories(ctx, digital_rf, count, npairs=2, nvec=0):
    """groups of 2-3 channels of one rate and different cadences (half of the groups share the subdirectory cadence) written
    and read by one process: one after the other (the next recording starts inside the file period the previous one has
    just written) or alternately, burst by burst; then each is read, coarse cadence first in half of the groups.  What one
    writer or reader object learned about its channel must not leak into another's.  Returns (scenarios, file records)."""
    import numpy as np
    rng = ctx.rng
    scen, recs = [], []
    for i in range(count):
        n, d, fc = cg.random_rate(rng, 300)
        common_sc = (i // 2) % 2 == 0
        if common_sc:
            variants = [(fc, 4), (fc * 2, 2), (fc * 4, 1)]
        else:
            variants = [(fc, 1), (fc * 2, 1), (fc * 3, 2), (fc, 5)]
        rng.shuffle(variants)
        variants = variants[:rng.choice([2, 2, 3])]
        unit = max(f * k for f, k in variants) if common_sc else None
        t0 = (rng.randint(315532800, 4102444800) * 1000) // (fc * 12000) * (fc * 12000)
        chans = []
        for vi, (fcv, k) in enumerate(variants):
            sc_ms = unit if common_sc else fcv * k
            step = sc_ms
            while sc_ms % 1000:
                sc_ms += step
            cfg = cd.ChanConfig(n, d, fcv, sc_ms // 1000, np.dtype("<i2"), False, 1, rng.choice(["gapped", "contC"]), t0, 4, seed=1000 * i + vi)
            root = os.path.join(ctx.work, "chan_pair%d" % vi)
            shutil.rmtree(root, ignore_errors=True)
            os.makedirs(root)
            chans.append((cfg, cd.Channel(digital_rf, root, cfg, [cfg.params()]), root))
        if i % 2 == 0:
            # one after the other (a short burst each, the next channel starting inside the file period just written)
            cfg0 = chans[0][0]
            abs0 = cfg0.bound[1] + cfg0.B + rng.choice([0, 1, 2])
            for ci, (cfg, ch, root) in enumerate(chans):
                b = cfg.bound
                rel = abs0 + ci - cfg.B
                if not (b[0] <= rel < b[-1] - 8):
                    continue
                ch.open(1, rel, 1)
                ch.write([[rel, rng.choice([1, 2, 3])]])
                if rng.random() < 0.5:
                    ch.write([[rel + 4, 2]])
                ch.close()
        else:
            # alternately, burst by burst
            for cfg, ch, root in chans:
                ch.open(1, cfg.bound[0], 1)
                ch.pos = cfg.bound[0]
            for burst in range(3):
                for cfg, ch, root in chans:
                    b = cfg.bound
                    wlen = b[1] - b[0]
                    ln = max(1, min(rng.choice([wlen // 2 + 1, wlen // 2 + 1, wlen + 1, wlen + wlen // 2]), b[-1] - ch.pos - 1, 3000))
                    if ln >= 1 and ch.pos + ln < b[-1]:
                        ch.write([[ch.pos, ln]])
                        ch.pos += ln
            for cfg, ch, root in chans:
                ch.close()
        order = sorted(range(len(chans)), key=lambda x: -chans[x][0].fc) if i % 4 < 2 else list(range(len(chans)))
        for vi in order:
            cfg, ch, root = chans[vi]
            if ch.sess is None and not ch.events:
                continue
            ch.observe([1], rng, npairs=npairs, nvec=nvec)
        for vi, (cfg, ch, root) in enumerate(chans):
            scen.append(ch.scenario("pair%d-%d" % (i, vi)))
            recs.append((cfg, ch.file_records))
            ch.kept = []
            shutil.rmtree(root, ignore_errors=True)
    ctx.extra["channel_groups_handled_by_one_process"] = count
    return scen, recs


def fragmented_histories(ctx, digital_rf, count, npairs=14, nvec=4):
    """files that collect many index rows (more than 100: beyond the first HDF5 chunk of rf_data_index): block calls of
    dozens of short blocks separated by short gaps, several calls into one file, going on into the next file; then reads
    whose ends fall on and inside the gaps"""
    import numpy as np
    rng = ctx.rng
    scen = []
    for i in range(count):
        n, d, fc = rng.choice([(1000, 1, 700), (2000, 3, 900), (48000, 1, 20)])
        t0 = (rng.randint(315532800, 4102444800) * 1000) // (fc * 10) * (fc * 10)
        mode = ["gapped", "contC", "gapped"][i % 3]
        cfg = cd.ChanConfig(n, d, fc, fc * 10 // 1000 + 1 if (fc * 10) % 1000 else fc * 10 // 1000, np.dtype(rng.choice(["<i2", ">i4", "<f4"])), bool(i % 2),
                            1 + i % 2, mode, t0, 3, compression=(1 if mode == "contC" else rng.choice([0, 1])), checksum=False, seed=7000 + i)
        root = os.path.join(ctx.work, "chan")
        shutil.rmtree(root, ignore_errors=True)
        os.makedirs(root)
        ch = cd.Channel(digital_rf, root, cfg, [cfg.params()])
        b = cfg.bound
        ch.open(1, b[0], 1)
        pos = b[0]
        nrows = 0
        for call in range(rng.randint(3, 4)):
            runs = []
            for _ in range(rng.randint(38, 55)):
                ln = rng.choice([1, 2, 2, 3])
                gap = rng.choice([1, 1, 2, 3])
                if pos + gap + ln >= b[-1] - 2:
                    break
                runs.append([pos + gap, ln])
                pos += gap + ln
            if len(runs) >= 2:
                ev = ch.write(runs)
                nrows += len(runs)
                if ev["resp"] != "ok":
                    break
            if rng.random() < 0.5 and pos + 2 < b[-1]:
                ch.write([[pos, 1]])            # a contiguous single write in between
                pos += 1
        ch.close()
        ch.observe([1], rng, npairs=npairs, nvec=nvec)
        scen.append(ch.scenario("fragmented%d" % i))
        ch.kept = []
        shutil.rmtree(root, ignore_errors=True)
    ctx.extra["fragmented_files_histories"] = count
    return scen


def account(ctx, scen, nsim, what):
    ev = [e for s in scen for e in s["events"]]
    kinds = {}
    for e in ev:
        kinds[e["ev"]] = kinds.get(e["ev"], 0) + 1
    ctx.evaluations = len(ev)
    ctx.extra.update(
        spec_behaviours_replayed=nsim, random_histories=len(scen) - nsim, events_by_kind=kinds,
        files_inspected=sum(len(e.get("newf", [])) for e in ev),
        configurations=sorted({s["desc"] for s in scen})[:40],
        rule=what,
    )
    for s in (scen[:1] + scen[nsim:nsim + 1]):
        ctx.sample({"name": s["name"], "config": s["desc"], "cfg": s["cfg"], "events": [
            {k: v for k, v in e.items() if k not in ("newf",)} for e in s["events"][:5]]})


def run(ctx, prefixes, nsim, nrand, what, sim_depth=12, dtype=None, witnesses=WITNESSES, post=None, capi_every=0, extra=None, **genkw):
    e1(ctx, witnesses=witnesses)
    ctx.stage()
    import digital_rf

    cdriver = None
    if capi_every:
        from .. import stage as stage_mod
        try:
            cdriver = stage_mod.build_cdriver(ctx.work)
        except stage_mod.BuildError as e:
            raise Machinery(str(e))
        ctx.assumptions.append("C API histories run in a replay driver compiled from c/lib/rf_write_hdf5.c with -fsanitize=address,undefined")
    with quiet_stderr():
        s1, r1 = e2(ctx, digital_rf, nsim, sim_depth, dtype, cdriver=cdriver, capi_every=capi_every)
        s2, r2 = e3(ctx, digital_rf, nrand, cdriver=cdriver, capi_every=capi_every, **genkw)
        s3 = extra(ctx, digital_rf) if extra else []
    s2 = s2 + s3
    ctx.extra["c_api_histories"] = sum(1 for s in s1 + s2 if s["name"].endswith("-capi"))
    ctx.extra["scripted_histories"] = len(s3)
    scen = s1 + s2
    account(ctx, scen, len(s1), what)
    ctx.validate("DrfChannelTrace", "DrfChannelTrace.cfg", scen, label="channel history", relevant=relevance(prefixes))
    if post:
        post(ctx, scen, r1 + r2)
    return scen, r1 + r2
