"""Shared machinery of the checks decided by DrfFs.tla (C02 C09 C10)."""
import os

from .. import stage as stage_mod
from ..core import Machinery, quiet_stderr, VERIF
from ..drivers import fs_drv
from .chan_common import relevance

DEVS = [("dev1", "FinalComplete"), ("dev3", "FinalImmutable"), ("dev4", "PropsPublishedComplete"), ("dev5", "FinalComplete")]
WITNESSES = ["NoCrashWithTmp", "NoFinalAfterFault", "ReaderNeverListsTwo", "NoOrphanRecreated", "NoOrphanRemoved"]


def e1(ctx):
    ctx.model_check("MCDrfFs", "MCDrfFs_main.cfg", coverage=False, timeout=1800)
    for cfg, inv in DEVS:
        # with a forbidden step enabled the invariant must break: the protocol guards are what makes it hold
        ctx.model_check("MCDrfFs", "MCDrfFs_%s.cfg" % cfg, expect_violated=(inv,), coverage=False, tag=cfg)
    ctx.witnesses("MCDrfFs", "MCDrfFs_W_%s.cfg", WITNESSES)


def env(ctx):
    st = ctx.stage()
    try:
        shim = stage_mod.build_shim(ctx.work)
    except stage_mod.BuildError as e:
        raise Machinery(str(e))
    import digital_rf

    ctx.assumptions.append(
        "the writer runs in a subprocess under an LD_PRELOAD interposer that announces open/creat/write/pwrite/ftruncate/close/rename/"
        "unlink/remove/mkdir/rmdir under the recording directory before executing them; a paused state is the disk state a kill -9 at that "
        "instant leaves (the page cache survives process death); faults are injected at the libc boundary")
    return dict(stage=st, shim=shim, verif=VERIF, root=os.path.join(ctx.work, "fsrun")), digital_rf


def env_for(env, i):
    """where job number i records: every third job under a directory whose name starts with `tmp.` (a mkdtemp directory,
    a channel kept under data/mytmp.dir) - only the file-name prefix `tmp.` marks a file in progress, never the path"""
    if i % 3 != 1:
        return env
    return dict(env, root=os.path.join(os.path.dirname(env["root"]), "tmp.Xq3vT9bZ1k", "mytmp.dir", os.path.basename(env["root"])))


def account(ctx, scen, what):
    ev = [e for s in scen for e in s["events"]]
    kinds = {}
    for e in ev:
        k = e["ev"] if e["ev"] != "op" else "op:" + e["op"]
        kinds[k] = kinds.get(k, 0) + 1
    ctx.evaluations = len(ev)
    ctx.extra.update(runs=len(scen), events_by_kind=kinds, rule=what, configurations=sorted({s["desc"] for s in scen})[:30])
    for s in scen[:2]:
        ctx.sample({"name": s["name"], "config": s["desc"], "fault": s.get("fault"), "events": [
            {k: v for k, v in e.items() if k != "files"} for e in s["events"][:12]]})
