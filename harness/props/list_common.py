"""Shared by C14 / C15 / C18: binding self-check - corrupted copies of accepted traces must be rejected by TLC with the
right clause (a trace specification that accepts everything would make the checks vacuous)."""
import copy

from .. import tlc
from ..core import Machinery


def selfcheck(ctx, module, cfg, cases, need):
    """cases: list of (label, corrupted scenario, expected clause).  All must be REJECTed with the clause; at least `need` cases."""
    if len(cases) < need:
        raise Machinery("binding self-check: only %d corrupted traces could be built (%s), %d needed"
                        % (len(cases), [c[0] for c in cases], need))
    scen = []
    for i, (label, s, clause) in enumerate(cases):
        s = copy.deepcopy(s)
        s["name"] = "corrupt%d" % i
        s.setdefault("known", [])
        scen.append(s)
    try:
        verdicts, st = tlc.validate_traces(module, cfg, scen, ctx.work, shards=4, tag=module + "_selfcheck")
    except tlc.TLCError as e:
        raise Machinery(str(e))
    for (label, s, clause), v in zip(cases, verdicts):
        if v["v"] != "REJECT" or clause not in v["why"]:
            raise Machinery("binding self-check: corrupted trace '%s' was not rejected with %s but %s %s" % (label, clause, v["v"], v["why"]))
    ctx.extra["corrupted_traces_rejected"] = ["%s -> %s" % (c[0], c[2]) for c in cases]


def one_event(s, i, e):
    """scenario reduced to the single (modified) event e in place of event i"""
    s2 = {k: v for k, v in s.items() if k != "events"}
    s2["events"] = [e]
    return s2
