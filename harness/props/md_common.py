"""Shared machinery of the checks decided by Metadata.tla (C12, C20 and the protocol half of C13)."""
import concurrent.futures
import json
import multiprocessing
import os
import random

from .. import tlc
from ..core import Machinery, quiet_stderr
from ..drivers import metadata_drv as md
from ..drivers import metadata_gen as mg

ACTIONS = ["NWriteBatch", "NWriteDup", "NRFWrite", "NNewReader", "NRead", "NBounds", "NLatest", "NFields", "NRFMeta", "NRFObs", "List"]
W_C12 = ["NoFfillFromEarlierFile", "NoQueryBetweenSamplesOfOneFile", "NoFfillWithLaterSampleInFile", "NoPartialDup",
         "NoDistributedValue", "NoWholeArray", "NoBatchAcrossFiles", "NoBoundaryIndex"]
W_C20 = ["NoOldReaderSeesNewSample", "NoOldAndNewReader", "NoRFWriteBetween"]
W_C13 = ["NoBatchAcrossFiles", "NoBoundaryIndex"]

VISIBILITY = {"C12-bounds", "C12-read-samples", "C12-ffill-samples", "C12-latest", "C12-reader-raised"}


def relevance(prefixes, also=()):
    def rel(clause):
        if clause.startswith("harness-"):
            raise Machinery("the harness produced an invalid history: " + clause)
        return any(clause.startswith(p) for p in prefixes) or clause in also
    return rel


def witnesses(ctx, module, names, cfg_pattern="%s_W_%s.cfg", inv_pattern="W_%s"):
    """vacuity guards: every witness invariant must be violated; the JVMs run side by side (2 TLC workers each)"""
    def one(w):
        return w, tlc.model_check(module, cfg_pattern % (module, w), ctx.work, workers=2, coverage=False, timeout=900, tag="W_" + w)

    try:
        with concurrent.futures.ThreadPoolExecutor(max_workers=6) as ex:
            res = list(ex.map(one, names))
    except tlc.TLCError as e:
        raise Machinery(str(e))
    for w, r in res:
        ctx.states += r.distinct
        ctx.transitions += r.generated
        ctx.mc.append(dict(r.summary(), module=module, cfg=cfg_pattern % (module, w)))
        inv = inv_pattern % w
        if inv not in r.violated:
            raise Machinery("vacuity guard: witness %s of %s was not reached" % (inv, module))
        other = [v for v in r.violated if v != inv]
        if other:
            raise Machinery("the specification %s violates %s in the witness run of %s" % (module, other, inv))


def e1(ctx, main_cfg, wit):
    ctx.model_check("MCMetadata", main_cfg, coverage=False, timeout=ctx.pick(600, 5400))
    ctx.model_check("MCMetadata", "MCMetadata_cov.cfg", required_actions=ACTIONS, tag="cov", timeout=900)
    witnesses(ctx, "MCMetadata", wit)


def _pool(n):
    # scenario generation is pure Python + HDF5 I/O on tmpfs: forked workers, one scratch directory each
    return concurrent.futures.ProcessPoolExecutor(max_workers=max(1, min(12, n)), mp_context=multiprocessing.get_context("fork"))


def _replay_one(args):
    import digital_rf
    work, i, beh, seed, deep = args
    try:
        return mg.replay_behaviour(digital_rf, os.path.join(work, "md", "e2-%d" % os.getpid()), beh, i, random.Random(seed), tlc.tla_to_py,
                                   deep, "sim%d" % i)
    except md.DriverError as e:
        return "driver error: %s" % e, None


def _random_one(args):
    import digital_rf
    work, i, kind, seed = args
    gen = mg.random_c12 if kind == "c12" else mg.random_c20
    try:
        return gen(digital_rf, os.path.join(work, "md", "e3-%d" % os.getpid()), random.Random(seed), "%s-rand%d" % (kind, i), strat=i)
    except md.DriverError as e:
        return "driver error: %s" % e


def e2(ctx, digital_rf, nbeh, depth, deep):
    """behaviours simulated by TLC from MCMetadata executed on the real writer / readers; the recorded traces are validated
    like any other, and the stored indices / their files are compared with the state TLC printed after every write"""
    behs, cmd = tlc.simulate("MCMetadata", "MCMetadata_sim.cfg", ctx.work, num=nbeh, depth=depth, seed=ctx.seed + 11)
    ctx.extra["simulate_cmd"] = cmd
    jobs = [(ctx.work, i, beh, ctx.rng.getrandbits(48), deep) for i, beh in enumerate(behs) if len(beh) >= 2]
    scen, bad = [], []
    with _pool(len(jobs)) as ex:
        for sc, mm in ex.map(_replay_one, jobs, chunksize=4):
            if isinstance(sc, str):
                raise Machinery(sc)
            scen.append(sc)
            if mm:
                bad.append((len(scen) - 1, mm))
    return scen, bad


def e3(ctx, digital_rf, n, kind):
    jobs = [(ctx.work, i, kind, ctx.rng.getrandbits(48)) for i in range(n)]
    scen = []
    with _pool(n) as ex:
        for sc in ex.map(_random_one, jobs, chunksize=2):
            if isinstance(sc, str):
                raise Machinery(sc)
            scen.append(sc)
    return scen


def account(ctx, scen, nsim, rule):
    kinds, apis, forms, ro, ro_changed = {}, {}, {}, 0, 0
    for s in scen:
        for e in s["events"]:
            kinds[e["ev"]] = kinds.get(e["ev"], 0) + 1
            if e["ev"] == "read":
                k = "%s/%s/%s" % (e["api"], e["method"], "all" if not e["cols"] else e["colform"])
                apis[k] = apis.get(k, 0) + 1
            if e["ev"] == "write":
                k = "%s/%s" % (e["form"], e["resp"])
                forms[k] = forms.get(k, 0) + 1
            if e["ev"] not in ("write", "rfwrite"):
                ro += 1
                ro_changed += e["h0"] != e["h1"]
    ctx.evaluations = sum(kinds.values())
    ctx.extra.update(spec_behaviours_replayed=nsim, random_histories=len(scen) - nsim, events_by_kind=kinds, reads_by_kind=apis,
                     writes_by_form=forms, read_only_calls_hashed=ro, read_only_calls_that_changed_the_tree=ro_changed,
                     configurations=sorted({s["desc"] for s in scen})[:40], rule=rule)
    for s in (scen[:1] + scen[nsim:nsim + 1]):
        ctx.sample({"name": s["name"], "config": s["desc"], "schema": s.get("schema"), "cfg": s["cfg"],
                    "events": [{k: v for k, v in e.items() if k != "files"} for e in s["events"][:6]]})


def validate(ctx, scen, prefixes, also=(), bad=()):
    v = ctx.validate("MetadataTrace", "MetadataTrace.cfg", scen, label="metadata history", relevant=relevance(prefixes, also))
    # E2 cross-check: a behaviour whose projected state differed from TLC's STATE_n must have been rejected by the trace spec
    for i, mm in bad:
        if v[i]["v"] == "ACCEPT":
            raise Machinery("E2: the implementation's files differ from the model state but the trace was accepted: %s" % json.dumps(mm[0]))
    ctx.extra["e2_behaviours_whose_files_differ_from_the_model_state"] = len(bad)
    return v


def replay(ctx, path):
    """re-validate a stored rejected scenario"""
    obj = json.load(open(path))["replay"]
    sc = obj["scenario"]
    sc.pop("known", None)
    ctx.validate(obj["module"], obj["cfg"], [sc], label="replay")


def run(ctx, kind, main_cfg, wit, prefixes, also, nsim, nrand, depth, rule):
    e1(ctx, main_cfg, wit)
    ctx.stage()
    import digital_rf

    with quiet_stderr():
        s1, bad = e2(ctx, digital_rf, nsim, depth, deep=(kind == "c20"))
        s2 = e3(ctx, digital_rf, nrand, kind)
    scen = s1 + s2
    account(ctx, scen, len(s1), rule)
    validate(ctx, scen, prefixes, also, bad)
    return scen
