"""Run TLC: exhaustive / simulation model checking (E1), behaviour export (E2) and
batched trace validation with total verdicts (E3)."""
import concurrent.futures
import json
import os
import re
import shutil
import subprocess
import time

JAR = "/opt/veriftools/tla/tla2tools.jar:/opt/veriftools/tla/CommunityModules-deps.jar"
SPEC_DIR = os.path.join(os.path.dirname(os.path.dirname(os.path.abspath(__file__))), "spec")


class TLCError(Exception):
    """Machinery failure (parse error, crash, timeout) - never a property violation."""


class MCResult:
    def __init__(self):
        self.generated = 0
        self.distinct = 0
        self.depth = 0
        self.violated = []  # names of violated invariants / properties
        self.coverage = {}  # action name -> (distinct, generated)
        self.ok = False
        self.log = ""
        self.wall = 0.0
        self.cmd = ""

    def summary(self):
        return {
            "states": self.distinct,
            "transitions": self.generated,
            "depth": self.depth,
            "violated": self.violated,
            "actions": {k: v[1] for k, v in self.coverage.items()},
            "wall_s": round(self.wall, 1),
            "cmd": self.cmd,
        }


def _prep(workdir, name):
    d = os.path.join(workdir, name)
    if os.path.exists(d):
        shutil.rmtree(d)
    shutil.copytree(SPEC_DIR, d)
    return d


def _java(args, cwd, env=None, timeout=3600, heap="6g", deque=False):
    e = dict(os.environ)
    e.pop("JAVA_TOOL_OPTIONS", None)
    if env:
        e.update(env)
    cmd = ["java", "-XX:+UseParallelGC", "-Xmx" + heap, "-Xss64m"]      # (deep recursion over long run sequences)
    if deque:
        cmd.append("-Dtlc2.tool.queue.IStateQueue=StateDeque")
    cmd += ["-cp", JAR, "tlc2.TLC"] + args
    t0 = time.time()
    try:
        p = subprocess.run(cmd, cwd=cwd, env=e, capture_output=True, text=True, timeout=timeout)
    except subprocess.TimeoutExpired as ex:
        raise TLCError("TLC timed out after %ss: %s" % (timeout, " ".join(args)))
    return p.stdout + p.stderr, p.returncode, time.time() - t0, " ".join(["tlc"] + args)


_RE_STATES = re.compile(r"(\d+) states generated, (\d+) distinct states found")
_RE_DEPTH = re.compile(r"depth of the complete state graph search is (\d+)")
_RE_INV = re.compile(r"Error: Invariant (\S+) is violated")
_RE_ACT = re.compile(r"Error: Action property (\S+) is violated")
_RE_COV = re.compile(r"^<(\w+) line \d+, col \d+ to line \d+, col \d+ of module (\w+)(?: \([\d ]+\))?>: (\d+):(\d+)", re.M)


def parse_mc(out):
    r = MCResult()
    r.log = out
    for m in _RE_STATES.finditer(out):
        r.generated, r.distinct = int(m.group(1)), int(m.group(2))
    m = _RE_DEPTH.search(out)
    if m:
        r.depth = int(m.group(1))
    r.violated = _RE_INV.findall(out) + _RE_ACT.findall(out)
    if "Temporal properties were violated" in out:
        r.violated.append("<temporal>")
    if "Deadlock reached" in out:
        r.violated.append("<deadlock>")
    for m in _RE_COV.finditer(out):
        k = m.group(1)
        d, g = int(m.group(3)), int(m.group(4))
        od, og = r.coverage.get(k, (0, 0))
        r.coverage[k] = (od + d, og + g)
    r.ok = "Model checking completed. No error has been found." in out or "Finished in" in out
    return r


def model_check(module, cfg, workdir, workers=16, coverage=True, timeout=3600, env=None, extra=None, tag=None):
    """Exhaustive model checking of spec/<module>.tla with spec/<cfg>.  Returns MCResult.
    Raises TLCError for anything that is not a clean finish or a named property violation."""
    d = _prep(workdir, "mc_" + (tag or cfg.replace(".cfg", "")))
    args = ["-workers", str(workers), "-metadir", os.path.join(d, "states"), "-noGenerateSpecTE", "-config", cfg]
    if coverage:
        args += ["-coverage", "1"]
    if extra:
        args += extra
    args.append(module)
    out, rc, wall, cmd = _java(args, d, env=env, timeout=timeout)
    r = parse_mc(out)
    r.wall, r.cmd = wall, cmd
    with open(os.path.join(workdir, "tlc_%s.log" % (tag or cfg)), "w") as fh:
        fh.write(out)
    shutil.rmtree(os.path.join(d, "states"), ignore_errors=True)
    if not r.violated and "No error has been found" not in out:
        raise TLCError("TLC did not finish cleanly (%s/%s):\n%s" % (module, cfg, out[-3000:]))
    if r.distinct == 0:
        raise TLCError("TLC explored no states (%s/%s):\n%s" % (module, cfg, out[-3000:]))
    return r


def simulate(module, cfg, workdir, num, depth, seed, tag=None, timeout=1800, env=None):
    """tlc -simulate file=...: one TLA+ file per behaviour.  Returns list of behaviours, each a list of
    (action_name, state_text) with state_text the raw conjunction TLC printed."""
    d = _prep(workdir, "sim_" + (tag or cfg.replace(".cfg", "")))
    outdir = os.path.join(d, "beh")
    os.makedirs(outdir)
    args = [
        "-simulate",
        "file=%s/tr,num=%d" % (outdir, num),
        "-depth",
        str(depth),
        "-workers",
        "1",
        "-seed",
        str(seed),
        "-metadir",
        os.path.join(d, "states"),
        "-noGenerateSpecTE",
        "-config",
        cfg,
        module,
    ]
    out, rc, wall, cmd = _java(args, d, env=env, timeout=timeout)
    r = parse_mc(out)
    if r.violated:
        raise TLCError("simulation hit a violation in %s/%s: %s\n%s" % (module, cfg, r.violated, out[-2000:]))
    behs = []
    for fn in sorted(os.listdir(outdir), key=lambda s: [int(x) for x in re.findall(r"\d+", s)]):
        behs.append(parse_behaviour(open(os.path.join(outdir, fn)).read()))
    shutil.rmtree(d, ignore_errors=True)
    return behs, cmd


_RE_STATEHDR = re.compile(r"^\\\* <(\w+)[^>]*>\s*$|^\\\* (Initial predicate)\s*$", re.M)


def parse_behaviour(text):
    """Parse a -simulate trace file: returns list of (action, {var: tla_value_text})."""
    steps = []
    # pieces: '\* <Action line ...>' followed by 'STATE_n ==' and conjuncts '/\ var = value'
    parts = re.split(r"^(\\\* .*)$", text, flags=re.M)
    act = None
    for p in parts:
        if p.startswith("\\*"):
            m = re.match(r"\\\* <(\w+)", p)
            act = m.group(1) if m else ("Init" if "Initial" in p else act)
        elif "STATE_" in p and "==" in p and act is not None:
            body = p.split("==", 1)[1]
            vars_ = {}
            for m in re.finditer(r"^/\\ (\w+) = (.*?)(?=^/\\ \w+ = |\Z)", body, flags=re.M | re.S):
                vars_[m.group(1)] = " ".join(m.group(2).split())
            steps.append((act, vars_))
            act = None
    return steps


def tla_to_py(s):
    """Convert the text of a TLA+ value printed by TLC into Python (records -> dict, sequences/tuples ->
    list, sets -> frozenset-like sorted list wrapped in {'$set': [...]}, functions (a :> b @@ ...) -> dict)."""
    pos = [0]
    n = len(s)

    def ws():
        while pos[0] < n and s[pos[0]].isspace():
            pos[0] += 1

    def val():
        ws()
        c = s[pos[0]]
        if s.startswith("<<", pos[0]):
            pos[0] += 2
            items = []
            ws()
            if s.startswith(">>", pos[0]):
                pos[0] += 2
                return items
            while True:
                items.append(val())
                ws()
                if s.startswith(">>", pos[0]):
                    pos[0] += 2
                    return items
                assert s[pos[0]] == ",", s[pos[0] :]
                pos[0] += 1
        if c == "{":
            pos[0] += 1
            items = []
            ws()
            if s[pos[0]] == "}":
                pos[0] += 1
                return {"$set": items}
            while True:
                items.append(val())
                ws()
                if s[pos[0]] == "}":
                    pos[0] += 1
                    return {"$set": items}
                assert s[pos[0]] == ",", s[pos[0] :]
                pos[0] += 1
        if c == "[":
            pos[0] += 1
            d = {}
            while True:
                ws()
                m = re.match(r"(\w+)\s*\|->", s[pos[0] :])
                assert m, s[pos[0] :]
                pos[0] += m.end()
                d[m.group(1)] = val()
                ws()
                if s[pos[0]] == "]":
                    pos[0] += 1
                    return d
                assert s[pos[0]] == ",", s[pos[0] :]
                pos[0] += 1
        if c == "(":
            # function literal (k :> v @@ k :> v)
            pos[0] += 1
            d = {}
            while True:
                k = val()
                ws()
                assert s.startswith(":>", pos[0]), s[pos[0] :]
                pos[0] += 2
                v = val()
                d[k if not isinstance(k, list) else tuple(k)] = v
                ws()
                if s[pos[0]] == ")":
                    pos[0] += 1
                    return d
                assert s.startswith("@@", pos[0]), s[pos[0] :]
                pos[0] += 2
        if c == '"':
            e = s.index('"', pos[0] + 1)
            v = s[pos[0] + 1 : e]
            pos[0] = e + 1
            return v
        m = re.match(r"-?\d+", s[pos[0] :])
        if m:
            pos[0] += m.end()
            return int(m.group(0))
        m = re.match(r"\w+", s[pos[0] :])
        assert m, s[pos[0] :]
        pos[0] += m.end()
        w = m.group(0)
        return {"TRUE": True, "FALSE": False}.get(w, w)

    v = val()
    return v


_RE_VERDICT = re.compile(r'^<<"VERDICT", (.*)>>\s*$', re.M)


def _verdict_texts(out):
    """all <<"VERDICT", ...>> tuples in TLC output (they may be pretty-printed over several lines)"""
    res = []
    pos = 0
    while True:
        i = out.find('"VERDICT"', pos)
        if i < 0:
            return res
        st = out.rfind("<<", 0, i)
        depth, j = 0, st
        while j < len(out):
            if out.startswith("<<", j):
                depth += 1
                j += 2
                continue
            if out.startswith(">>", j):
                depth -= 1
                j += 2
                if depth == 0:
                    break
                continue
            if out[j] == '"':
                j = out.index('"', j + 1)
            j += 1
        res.append(out[st:j])
        pos = j


def _clean(x):
    """JSON for TLC: no nulls (dropped), no floats, tuples -> lists."""
    if isinstance(x, dict):
        return {str(k): _clean(v) for k, v in x.items() if v is not None}
    if isinstance(x, (list, tuple)):
        return [_clean(v) for v in x]
    if isinstance(x, bool) or isinstance(x, str):
        return x
    if isinstance(x, int):
        return x
    if hasattr(x, "__int__") and not isinstance(x, float):
        return int(x)
    raise TypeError("not representable for TLC: %r" % (x,))


def validate_traces(module, cfg, scenarios, workdir, shards=16, timeout=3600, tag=None, heap="3g", deque=False):
    """Trace validation with total verdicts.  `scenarios` is a list of JSON-able scenario objects.
    The trace spec must print one line <<"VERDICT", tid, "ACCEPT"|"REJECT", line, {clauses}, {devs}>> per scenario.
    Returns (verdicts, stats) where verdicts[i] = dict(v=..., line=..., why=[...], dev=[...]) aligned with scenarios."""
    tag = tag or module
    n = len(scenarios)
    if n == 0:
        return [], {"states": 0, "transitions": 0, "jvms": 0}
    shards = max(1, min(shards, n))
    chunks = [list(range(i, n, shards)) for i in range(shards)]
    d = _prep(workdir, "tv_" + tag)

    def run(si):
        idx = chunks[si]
        tf = os.path.join(d, "trace_%d.json" % si)
        with open(tf, "w") as fh:
            json.dump([_clean(scenarios[i]) for i in idx], fh)
        args = [
            "-workers",
            "1",
            "-metadir",
            os.path.join(d, "states_%d" % si),
            "-noGenerateSpecTE",
            "-config",
            cfg,
            module,
        ]
        out, rc, wall, cmd = _java(args, d, env={"TRACE_FILE": tf}, timeout=timeout, heap=heap, deque=deque)
        shutil.rmtree(os.path.join(d, "states_%d" % si), ignore_errors=True)
        return si, out, cmd

    verdicts = [None] * n
    st = {"states": 0, "transitions": 0, "jvms": shards, "cmd": ""}
    with concurrent.futures.ThreadPoolExecutor(max_workers=min(16, shards)) as ex:
        for si, out, cmd in ex.map(run, range(shards)):
            st["cmd"] = cmd
            r = parse_mc(out)
            if "No error has been found" not in out:
                with open(os.path.join(workdir, "tlc_tv_%s_%d.log" % (tag, si)), "w") as fh:
                    fh.write(out)
                raise TLCError("trace validation JVM failed (%s shard %d):\n%s" % (module, si, out[-3000:]))
            st["states"] += r.distinct
            st["transitions"] += r.generated
            for txt in _verdict_texts(out):
                v = tla_to_py(txt)[1:]
                tid = v[0]
                g = chunks[si][tid - 1]
                new = {
                    "v": v[1],
                    "line": v[2],
                    "why": sorted(v[3]["$set"]) if isinstance(v[3], dict) else v[3],
                    "dev": sorted(v[4]["$set"]) if len(v) > 4 and isinstance(v[4], dict) else [],
                    "first": sorted(v[5]["$set"]) if len(v) > 5 and isinstance(v[5], dict) else [],
                }
                old = verdicts[g]
                # a nondeterministic specification may give several verdicts: ACCEPT (with the fewest deviations)
                # wins, otherwise the rejection that got furthest
                if old is None:
                    verdicts[g] = new
                elif new["v"] == "ACCEPT":
                    if old["v"] != "ACCEPT" or len(new["dev"]) < len(old["dev"]):
                        verdicts[g] = new
                elif old["v"] != "ACCEPT" and new["line"] > old["line"]:
                    verdicts[g] = new
    missing = [i for i, v in enumerate(verdicts) if v is None]
    if missing:
        raise TLCError("no verdict for scenarios %s of %s (trace spec is not total)" % (missing[:10], module))
    shutil.rmtree(d, ignore_errors=True)
    return verdicts, st
