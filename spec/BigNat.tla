------------------------------- MODULE BigNat -------------------------------
(* Exact naturals as little-endian limb sequences in base 10^4 (every intermediate product fits in TLC's
   32-bit integers).  <<>> is zero; sequences are normalised (no high zero limbs).  Used where exactness at
   full magnitude is the point: sample indices up to 2^63, picosecond counts, rates up to 2^32. *)
EXTENDS Integers, Sequences

Base == 10000
IsBig(a) == \A i \in 1..Len(a) : a[i] \in 0..(Base - 1)

RECURSIVE Norm(_)
Norm(a) == IF a = <<>> THEN <<>> ELSE IF a[Len(a)] = 0 THEN Norm(SubSeq(a, 1, Len(a) - 1)) ELSE a

RECURSIVE AddC(_, _, _)
AddC(a, b, c) ==
  IF a = <<>> /\ b = <<>> THEN (IF c = 0 THEN <<>> ELSE <<c>>)
  ELSE LET x == (IF a = <<>> THEN 0 ELSE a[1]) + (IF b = <<>> THEN 0 ELSE b[1]) + c
       IN  <<x % Base>> \o AddC(IF a = <<>> THEN <<>> ELSE Tail(a), IF b = <<>> THEN <<>> ELSE Tail(b), x \div Base)
Add(a, b) == AddC(a, b, 0)

RECURSIVE MulSmallC(_, _, _)
MulSmallC(a, m, c) ==   \* m < Base
  IF a = <<>> THEN (IF c = 0 THEN <<>> ELSE IF c < Base THEN <<c>> ELSE <<c % Base, c \div Base>>)
  ELSE LET x == a[1] * m + c IN <<x % Base>> \o MulSmallC(Tail(a), m, x \div Base)
MulSmall(a, m) == IF m = 0 THEN <<>> ELSE MulSmallC(a, m, 0)

RECURSIVE Mul(_, _)
Mul(a, b) == IF a = <<>> \/ b = <<>> THEN <<>>
             ELSE LET rest == Mul(a, Tail(b)) IN
                  Add(MulSmall(a, b[1]), IF rest = <<>> THEN <<>> ELSE <<0>> \o rest)

RECURSIVE CmpFrom(_, _, _)
CmpFrom(a, b, i) == IF i = 0 THEN 0 ELSE IF a[i] < b[i] THEN 0 - 1 ELSE IF a[i] > b[i] THEN 1 ELSE CmpFrom(a, b, i - 1)
Cmp(a, b) == IF Len(a) < Len(b) THEN 0 - 1 ELSE IF Len(a) > Len(b) THEN 1 ELSE CmpFrom(a, b, Len(a))
Le(a, b) == Cmp(a, b) <= 0
Lt(a, b) == Cmp(a, b) < 0
Eq(a, b) == a = b

RECURSIVE FromNat(_)
FromNat(n) == IF n = 0 THEN <<>> ELSE <<n % Base>> \o FromNat(n \div Base)
One == <<1>>
E3 == <<1000>>
E6 == <<0, 100>>
E9 == <<0, 0, 10>>
E12 == <<0, 0, 0, 1>>
\* value of a small BigNat as a native integer (only where it is known to fit)
RECURSIVE ToNat(_)
ToNat(a) == IF a = <<>> THEN 0 ELSE a[1] + Base * ToNat(Tail(a))
=============================================================================
