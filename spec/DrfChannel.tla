----------------------------- MODULE DrfChannel -----------------------------
(***************************************************************************)
(* Call-level model of a Digital RF channel: writer sessions, the files    *)
(* they finalize, and what every reader query must return.                 *)
(* Properties C01 C05 C06 C07 C08 C11 C19 (and the structural half of C04). *)
(*                                                                         *)
(* Sample indices are REBASED integers (the harness subtracts a per-       *)
(* scenario base), so the model is independent of the magnitude of real    *)
(* indices; the exact-arithmetic side (which index falls in which file) is *)
(* Placement.tla, which also checks the `bound` partition used here.       *)
(*                                                                         *)
(*   cfg.bound   bound[j] = first sample of file window j, j \in 1..NW+1   *)
(*   cfg.mode    "gapped" | "contU" (continuous, not chunked: whole window *)
(*               stored, fill value in gaps) | "contC" (continuous with    *)
(*               compression/checksum: stored exactly like gapped)         *)
(*   cfg.nd      number of top-level directories holding this channel      *)
(***************************************************************************)
EXTENDS Runs, TLC

VARIABLES cfg,    \* configuration, never changes
          truth,  \* truth[d]: run sequence of every sample accepted into directory d (ghost)
          fin,    \* fin[d]: windows whose file exists under its final name
          cur,    \* cur[d]: window of the open tmp. file, 0 = none
          props,  \* props[d]: id of the parameter tuple stored with the channel, 0 = no properties file
          s,      \* the writer session (one at a time)
          last    \* history: last action

cvars == <<cfg, truth, fin, cur, props, s>>
vars == <<cfg, truth, fin, cur, props, s, last>>

Bound == cfg.bound
NW == Len(Bound) - 1
Dirs == 1..cfg.nd
Win(j) == <<Bound[j], Bound[j + 1] - 1>>
Cap(j) == Bound[j + 1] - Bound[j]
InRange(k) == Bound[1] <= k /\ k < Bound[NW + 1]
WinOf(k) == CHOOSE j \in 1..NW : Bound[j] <= k /\ k < Bound[j + 1]

NoSess == [open |-> FALSE, d |-> 1, start |-> 0, pid |-> 0, next |-> 0, cnext |-> 0, written |-> 0, gaps |-> 0,
           lastw |-> 0, stale |-> FALSE, n |-> 0]

CInit(c) ==
  /\ cfg = c
  /\ truth = [d \in 1..c.nd |-> <<>>]
  /\ fin = [d \in 1..c.nd |-> {}]
  /\ cur = [d \in 1..c.nd |-> 0]
  /\ props = [d \in 1..c.nd |-> 0]
  /\ s = NoSess
  /\ last = [a |-> "Init"]

(***************************************************************************)
(* What is stored where.                                                   *)
(***************************************************************************)
WinTruth(d, j) == Clip(truth[d], Lo(Win(j)), Hi(Win(j)))
\* samples a reader sees in file j of directory d (as indices)
Den(d, j) == IF cfg.mode = "contU" THEN << Win(j) >> ELSE WinTruth(d, j)
VisDir(d) == Canon(UNION {ToSet(Den(d, j)) : j \in fin[d]})
VisDirs(D) == Canon(UNION {ToSet(VisDir(d)) : d \in D})
\* of the visible samples, which hold written data (the rest is the continuous-mode fill value)
DataDirs(D) == Canon(UNION {UNION {ToSet(WinTruth(d, j)) : j \in fin[d]} : d \in D})

(***************************************************************************)
(* Sessions                                                                *)
(***************************************************************************)
OpenOK(d, pid) == ~s.open /\ (props[d] = 0 \/ props[d] = pid)
Open(d, start, pid) ==
  /\ ~s.open /\ OpenOK(d, pid)
  /\ props' = [props EXCEPT ![d] = pid]
  /\ s' = [NoSess EXCEPT !.open = TRUE, !.d = d, !.start = start, !.pid = pid, !.n = s.n + 1]
  /\ last' = [a |-> "Open", d |-> d, start |-> start, pid |-> pid]
  /\ UNCHANGED <<cfg, truth, fin, cur>>

\* a session whose parameters differ from the stored ones is refused and nothing changes
OpenRefused(d, pid) ==
  /\ ~s.open /\ props[d] # 0 /\ props[d] # pid
  /\ last' = [a |-> "OpenRefused", d |-> d, pid |-> pid]
  /\ UNCHANGED cvars

(***************************************************************************)
(* Placing a run of samples [a, b] into files, one window at a time.       *)
(* A rollover finalizes the open file.  A window that already has a final  *)
(* file (from an earlier session) refuses the rest of the call.            *)
(***************************************************************************)
RECURSIVE Place(_, _, _)
Place(st, a, b) ==
  IF a > b \/ ~st.ok THEN st ELSE
  LET j == WinOf(a)
      e == Min2(b, Hi(Win(j)))
  IN IF j = st.cur
     THEN Place([st EXCEPT !.truth = AddRun(st.truth, <<a, e>>), !.lastw = j, !.hi = e], e + 1, b)
     ELSE LET fin1 == IF st.cur # 0 THEN st.fin \cup {st.cur} ELSE st.fin IN
          IF j \in fin1 THEN [st EXCEPT !.fin = fin1, !.cur = 0, !.ok = FALSE]
          ELSE Place([st EXCEPT !.fin = fin1, !.cur = j, !.truth = AddRun(st.truth, <<a, e>>), !.lastw = j, !.hi = e],
                     e + 1, b)

\* runs = sequence of <<first index, length>> (absolute, rebased)
RECURSIVE PlaceRuns(_, _)
PlaceRuns(st, runs) ==
  IF runs = <<>> \/ ~st.ok THEN st
  ELSE PlaceRuns(Place(st, runs[1][1], runs[1][1] + runs[1][2] - 1), Tail(runs))

St0 == [truth |-> truth[s.d], fin |-> fin[s.d], cur |-> cur[s.d], ok |-> TRUE, lastw |-> s.lastw, hi |-> 0]

RunsWellFormed(runs) ==
  /\ Len(runs) >= 1
  /\ \A i \in 1..Len(runs) : runs[i][2] >= 1 /\ InRange(runs[i][1]) /\ InRange(runs[i][1] + runs[i][2] - 1)
  /\ \A i \in 1..Len(runs) - 1 : runs[i][1] + runs[i][2] <= runs[i + 1][1]
TotalLen(runs) == FoldSeq(LAMBDA r, acc : acc + r[2], 0, runs)
EndOf(runs) == runs[Len(runs)][1] + runs[Len(runs)][2]

WriteOK(runs) ==
  /\ s.open
  /\ RunsWellFormed(runs)
  /\ runs[1][1] >= s.start + s.cnext
  /\ (cfg.mode = "gapped" \/ TRUE)

\* a valid write call (rf_write: one run; rf_write_blocks: several)
Write(runs) ==
  /\ WriteOK(runs)
  /\ LET r == PlaceRuns(St0, runs) IN
     /\ truth' = [truth EXCEPT ![s.d] = r.truth]
     /\ fin' = [fin EXCEPT ![s.d] = r.fin]
     /\ cur' = [cur EXCEPT ![s.d] = r.cur]
     /\ IF r.ok
        THEN s' = [s EXCEPT !.next = EndOf(runs) - s.start, !.cnext = EndOf(runs) - s.start,
                            !.written = @ + TotalLen(runs),
                            !.gaps = @ + ((EndOf(runs) - s.start) - s.next) - TotalLen(runs),
                            !.lastw = r.lastw]
        ELSE \* refused part-way: what was placed before the refusal stays; the Python-level counters are stale
             s' = [s EXCEPT !.stale = TRUE, !.lastw = r.lastw,
                            !.cnext = IF r.hi = 0 THEN @ ELSE Max2(@, r.hi + 1 - s.start)]
     /\ last' = [a |-> "Write", runs |-> runs, ok |-> r.ok]
  /\ UNCHANGED <<cfg, props>>

\* any rejected call: index at or before one already written, or a malformed block description
BadKinds == {"past", "first-offset-nonzero", "offsets-not-increasing", "indices-not-increasing",
             "blocks-overlap", "offset-past-end", "length-mismatch", "negative-index", "late-defect-in-many-blocks"}
BadWrite(kind) ==
  /\ s.open /\ kind \in BadKinds
  /\ last' = [a |-> "BadWrite", kind |-> kind]
  /\ UNCHANGED cvars

\* a zero-length write: whether accepted or refused, nothing changes
WriteEmpty ==
  /\ s.open
  /\ last' = [a |-> "WriteEmpty"]
  /\ UNCHANGED cvars

Close ==
  /\ s.open
  /\ fin' = [fin EXCEPT ![s.d] = IF cur[s.d] # 0 THEN @ \cup {cur[s.d]} ELSE @]
  /\ cur' = [cur EXCEPT ![s.d] = 0]
  /\ s' = [s EXCEPT !.open = FALSE]
  /\ last' = [a |-> "Close"]
  /\ UNCHANGED <<cfg, truth, props>>

\* the properties file is deleted and regenerated from data file j: nothing observable changes
RegenProps(d, j) ==
  /\ ~s.open /\ j \in fin[d]
  /\ last' = [a |-> "RegenProps", d |-> d, j |-> j]
  /\ UNCHANGED cvars

(***************************************************************************)
(* Reader observations (functions of the state)                            *)
(***************************************************************************)
ReadBlocks(D, a, b) == Clip(VisDirs(D), a, b)       \* maximal contiguous blocks of [a, b]
ReadData(D, a, b)   == Clip(DataDirs(D), a, b)      \* the part of them holding written values
ReadFill(D, a, b)   == Minus(ReadBlocks(D, a, b), ReadData(D, a, b))
HasBounds(D) == VisDirs(D) # <<>>
BoundsOf(D) == <<MinLo(VisDirs(D)), MaxHi(VisDirs(D))>>
VectorOK(D, a, n) == n >= 1 /\ Covers(VisDirs(D), a, a + n - 1)

(***************************************************************************)
(* Properties                                                              *)
(***************************************************************************)
TypeOK ==
  /\ \A d \in Dirs : IsCanon(truth[d]) /\ fin[d] \subseteq 1..NW /\ cur[d] \in 0..NW /\ cur[d] \notin fin[d]

\* C05/C01: what was written stays written, with the same index (truth is ghost state built from accepted calls)
AppendOnly == [][\A d \in Dirs : SubsetRuns(truth[d], truth'[d])]_vars
RejectAtomic == [][last'.a \in {"BadWrite", "WriteEmpty", "OpenRefused", "RegenProps"} => UNCHANGED cvars]_vars

\* C11: finalized files are never replaced or altered, the set of finalized files only grows
FinalGrows == [][\A d \in Dirs : fin[d] \subseteq fin'[d]]_vars
FinalFrozen == [][\A d \in Dirs : \A j \in fin[d] : WinTruth(d, j)' = WinTruth(d, j)]_vars

\* C04 (structural): every accepted sample is in the window of a final file or of the open one; a file exists
\* only if one of its slots was written; windows are disjoint by construction of cfg.bound
InWindow ==
  \A d \in Dirs :
    /\ \A i \in 1..Len(truth[d]) : \A j \in 1..NW :
         Overlaps(<<truth[d][i]>>, Lo(Win(j)), Hi(Win(j))) => j \in fin[d] \cup {cur[d]}
    /\ \A j \in fin[d] \cup ({cur[d]} \ {0}) : WinTruth(d, j) # <<>>

\* C19: counters describe the recording (not claimed after a refused entry into a finalized period)
Counters ==
  (s.n > 0 /\ ~s.stale) =>
     /\ s.next = s.written + s.gaps
     /\ s.next = s.cnext
     /\ s.written > 0 => /\ Member(truth[s.d], s.start + s.next - 1)
                         /\ s.lastw = WinOf(s.start + s.next - 1)

\* C01/C02: after a clean close every accepted sample is readable, and nothing else reads as data
CleanCloseComplete == ~s.open => \A d \in Dirs : (cur[d] = 0 /\ DataDirs({d}) = truth[d])

\* C08: queries are views of one picture
Coherent ==
  \A D \in (SUBSET Dirs) \ {{}} :
    HasBounds(D) => /\ Member(VisDirs(D), BoundsOf(D)[1]) /\ Member(VisDirs(D), BoundsOf(D)[2])
                    /\ ReadBlocks(D, BoundsOf(D)[1], BoundsOf(D)[2]) = VisDirs(D)
=============================================================================
