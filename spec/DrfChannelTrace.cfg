SPECIFICATION TSpec
INVARIANT Report
INVARIANT TraceInvariant
PROPERTY AppendOnly
PROPERTY FinalGrows
PROPERTY FinalFrozen
CHECK_DEADLOCK FALSE
