--------------------------- MODULE DrfChannelTrace ---------------------------
(* Trace specification for the RF channel: every call made on a real DigitalRFWriter (or through the
   public C API), the files it finalized (inspected with raw h5py) and every DigitalRFReader answer is
   one event; state-changing events run the actions of DrfChannel, observations are compared with
   functions of its state.  Clause names say which part of which property an observation contradicts. *)
EXTENDS DrfChannel, TraceBase

VARIABLE tseq      \* last file sequence number seen in the current session (observation bookkeeping)
allvars == <<vars, tvars, tseq>>

TInit == /\ TBInit /\ CInit(Hdr.cfg) /\ tseq = 0 - 1

Pairs(q) == [i \in 1..Len(q) |-> <<q[i][1], q[i][2]>>]
D(e) == SeqSet(e.D)

(***************************************************************************)
(* A finalized file as found on disk                                       *)
(***************************************************************************)
RowRuns(f) ==  \* the blocks described by (rf_data_index, len(rf_data))
  [i \in 1..Len(f.rows) |->
     <<f.rows[i][1], f.rows[i][1] + ((IF i = Len(f.rows) THEN f.dlen ELSE f.rows[i + 1][2]) - f.rows[i][2]) - 1>>]
RowsOK(f, j) ==
  /\ Len(f.rows) >= 1 /\ f.dlen >= 1 /\ f.rows[1][2] = 0
  /\ \A i \in 1..Len(f.rows) : f.rows[i][2] < f.dlen
  /\ \A i \in 1..Len(f.rows) - 1 :
       /\ f.rows[i][1] < f.rows[i + 1][1] /\ f.rows[i][2] < f.rows[i + 1][2]
       /\ f.rows[i + 1][1] - f.rows[i][1] >= f.rows[i + 1][2] - f.rows[i][2]
  /\ f.dlen <= Cap(j)
FileClauses(d, f, pid, uuid, prevseq, initutc) ==
  LET j == f.j
      wt == Clip(truth'[d], Lo(Win(j)), Hi(Win(j)))
      den == IF cfg.mode = "contU" THEN << Win(j) >> ELSE wt
  IN Names({
      <<"C06-index-rows", ~RowsOK(f, j)>>,
      <<"C06-index-denotes-written-samples", RowsOK(f, j) /\ Canon(ToSet(RowRuns(f))) # den>>,
      <<"C04-sample-outside-file-window", RowsOK(f, j) /\ ~SubsetRuns(Canon(ToSet(RowRuns(f))), << Win(j) >>)>>,
      <<"C01-stored-values", Pairs(f.data) # wt \/ f.bad # 0>>,
      <<"C07-fill-values", Pairs(f.fill) # (IF cfg.mode = "contU" THEN Minus(<< Win(j) >>, wt) ELSE <<>>)>>,
      <<"C07-continuous-layout", cfg.mode = "contU" /\ (Pairs(f.rows) # << <<Lo(Win(j)), 0>> >> \/ f.dlen # Cap(j))>>,
      <<"C06-attributes", f.attrs # Hdr.params[pid]>>,
      <<"C06-uuid", f.uuid # uuid>>,
      <<"C06-start-timestamp", f.init_utc # initutc>>,     \* floor(start index * d / n) seconds, as a decimal string
      <<"C06-sequence-number", f.seq <= prevseq>>,
      <<"C04-file-name", ~f.name_ok>>})

RECURSIVE FilesClauses(_, _, _, _, _, _)
FilesClauses(d, fs, pid, uuid, prevseq, initutc) ==
  IF fs = <<>> THEN {}
  ELSE FileClauses(d, fs[1], pid, uuid, prevseq, initutc) \cup FilesClauses(d, Tail(fs), pid, uuid, fs[1].seq, initutc)
LastSeq(fs, prev) == IF fs = <<>> THEN prev ELSE fs[Len(fs)].seq

\* observations common to write / close: directory content after the call
DirClauses(d) ==
  Names({
    <<"final-file-set", SeqSet(E.fin) # fin'[d]>>,
    <<"C02-tmp-files", SeqSet(E.tmp) # ({cur'[d]} \ {0})>>,
    <<"final-file-set-new", {E.newf[i].j : i \in 1..Len(E.newf)} # fin'[d] \ fin[d]>>,
    <<"C05-final-file-changed", E.changed # <<>>>>})
  \cup (IF \E i \in 1..Len(E.newf) : E.newf[i].j \notin 1..NW
        THEN {"C04-file-outside-the-written-period"}      \* a file for a period no accepted call touched
        ELSE FilesClauses(d, E.newf, s.pid, E.uuid, tseq, E.initutc))

NotObserved == 0 - 1   \* the C API has no written / gap counters
Crashed == Has(E, "resp") /\ E.resp = "crash"

CounterClauses ==
  IF s'.stale THEN {}
  ELSE Names({
    <<"C19-next-available-sample", E.next # s'.next>>,
    <<"C19-total-samples-written", E.written # NotObserved /\ E.written # s'.written>>,
    <<"C19-total-gap-samples", E.gaps # NotObserved /\ E.gaps # s'.gaps>>,
    <<"C19-last-file-written", E.lastw # s'.lastw>>})

TOpen ==
  /\ E.ev = "open"
  /\ IF s.open THEN Rej({"harness-opened-two-sessions"}) /\ UNCHANGED <<vars, tseq>>
     ELSE IF OpenOK(E.d, E.pid)
     THEN IF E.resp # "ok" THEN Rej({"C11-valid-session-refused"}) /\ UNCHANGED <<vars, tseq>>
          ELSE Open(E.d, E.start, E.pid) /\ tseq' = 0 - 1 /\ Adv
     ELSE IF E.resp = "ok" THEN Rej({"C11-mismatched-session-accepted"}) /\ UNCHANGED <<vars, tseq>>
          ELSE OpenRefused(E.d, E.pid) /\ UNCHANGED tseq
               /\ AdvNote(Names({<<"C11-refused-session-changed-directory", ~E.same>>}))

TWrite ==
  /\ E.ev = "write"
  /\ LET runs == Pairs(E.runs) IN
     IF ~WriteOK(runs)
     THEN Rej({"harness-generated-invalid-write"}) /\ UNCHANGED <<vars, tseq>>
     ELSE /\ Write(runs)
          /\ tseq' = LastSeq(E.newf, tseq)
          /\ IF (E.resp = "ok") # last'.ok
             THEN Rej({IF last'.ok THEN "C01-valid-write-refused" ELSE "C11-write-into-finalized-period-accepted"})
             ELSE AdvNote(DirClauses(s.d) \cup (IF last'.ok THEN CounterClauses
                                                \cup Names({<<"C19-return-value", E.ret # s'.next>>}) ELSE {}))

TBad ==
  /\ E.ev = "bad"
  /\ IF E.resp = "ok" THEN Rej({"C05-invalid-call-accepted"}) /\ UNCHANGED <<vars, tseq>>
     ELSE /\ BadWrite(E.kind) /\ UNCHANGED tseq
          /\ AdvNote(Names({<<"C05-rejected-call-changed-files", ~E.same>>})
                     \cup (IF s.stale THEN {} ELSE
                           Names({<<"C05-rejected-call-changed-position", E.next # s.next>>,
                                  <<"C05-rejected-call-changed-counters",
                                    E.written # NotObserved /\ (E.written # s.written \/ E.gaps # s.gaps)>>})))

TEmpty ==
  /\ E.ev = "empty"
  /\ WriteEmpty /\ UNCHANGED tseq
  /\ AdvNote(Names({<<"C05-empty-write-changed-files", ~E.same>>})
             \cup (IF s.stale THEN {} ELSE
                   Names({<<"C19-next-available-sample", E.next # s.next>>,
                          <<"C19-total-samples-written", E.written # NotObserved /\ E.written # s.written>>,
                          <<"C19-total-gap-samples", E.gaps # NotObserved /\ E.gaps # s.gaps>>})))

TClose ==
  /\ E.ev = "close"
  /\ Close /\ tseq' = LastSeq(E.newf, tseq)
  /\ AdvNote(DirClauses(s.d) \cup (IF s.stale THEN {} ELSE Names({<<"C19-last-file-written", E.lastw # s.lastw>>}))
             \cup Names({<<"C05-c-api-crash-or-sanitizer-report", Has(E, "crash") /\ E.crash>>}))

TRegen == /\ E.ev = "regen" /\ UNCHANGED tseq
          /\ IF ~s.open /\ E.j \in fin[E.d] THEN RegenProps(E.d, E.j) /\ AdvNote(Names({<<"C06-regeneration-failed", ~E.ok>>}))
             ELSE Rej({"harness-regen-precondition"}) /\ UNCHANGED vars

(***************************************************************************)
(* Reader observations                                                     *)
(***************************************************************************)
TBounds ==
  /\ E.ev = "bounds" /\ UNCHANGED <<vars, tseq>>
  /\ AdvNote(Names({
       <<"C08-bounds", E.has # HasBounds(D(E)) \/ (E.has /\ HasBounds(D(E)) /\ <<E.first, E.last>> # BoundsOf(D(E)))>>,
       <<"C09-reader-raised", E.raised>>}))

TRead ==
  /\ E.ev = "read" /\ UNCHANGED <<vars, tseq>>
  /\ AdvNote(Names({
       <<"C09-reader-raised", E.raised>>,
       <<"C01-read-blocks", ~E.raised /\ Pairs(E.blocks) # ReadBlocks(D(E), E.a, E.b)>>,
       <<"C01-read-values", ~E.raised /\ (Pairs(E.data) # ReadData(D(E), E.a, E.b) \/ E.bad # 0)>>,
       <<"C07-read-fill", ~E.raised /\ Pairs(E.fill) # ReadFill(D(E), E.a, E.b)>>,
       <<"C08-block-lengths", ~E.raised /\ Pairs(E.lens) # Pairs(E.blocks)>>,
       <<"C08-subchannel-column", ~E.raised /\ ~E.subeq>>,
       <<"C08-split-merge", ~E.raised /\ ~E.spliteq>>}))

TVector ==
  /\ E.ev = "vector" /\ UNCHANGED <<vars, tseq>>
  /\ LET ok == VectorOK(D(E), E.a, E.n) IN
     AdvNote(Names({
       <<"C08-vector-missing-data-not-an-ioerror", ~ok /\ E.resp # "ioerror">>,
       <<"C08-vector-covered-but-failed", ok /\ E.resp # "ok">>,
       <<"C08-vector-values", ok /\ E.resp = "ok" /\ ~E.exact>>}))

TOther == /\ E.ev \notin {"open", "write", "bad", "empty", "close", "regen", "bounds", "read", "vector"}
          /\ Rej({"unknown-event"}) /\ UNCHANGED <<vars, tseq>>

TCrash == /\ Crashed /\ Rej({"C05-c-api-crash-or-sanitizer-report"}) /\ UNCHANGED <<vars, tseq>>

TNext ==
  \/ HasEvent /\ Crashed /\ TCrash
  \/ HasEvent /\ ~Crashed /\ (TOpen \/ TWrite \/ TBad \/ TEmpty \/ TClose \/ TRegen \/ TBounds \/ TRead \/ TVector \/ TOther)
  \/ Finish /\ UNCHANGED <<vars, tseq>>
TSpec == TInit /\ [][TNext]_allvars
TraceInvariant == Running => (TypeOK /\ InWindow /\ Counters)
=============================================================================
