------------------------------- MODULE DrfFs -------------------------------
(***************************************************************************)
(* The writer seen through its file-system operations (C02, C09, C10).     *)
(* One action per operation the interposer sees.  The guards of these      *)
(* actions ARE the publication protocol:                                   *)
(*   - a data file is created exclusively under a tmp. name, written and   *)
(*     truncated only while open, closed, and only then renamed to its     *)
(*     final name - and only if no operation on it failed;                 *)
(*   - nothing is ever opened for writing, written, renamed onto or        *)
(*     removed under a final name;                                         *)
(*   - the channel properties file is staged the same way.                 *)
(* HDF5 defers raw-data and metadata writes to close time, so the spec     *)
(* does not say which PWrite carries what: any number and order of PWrite  *)
(* / Truncate between CreateTmp and CloseFd.                               *)
(***************************************************************************)
EXTENDS Runs, TLC

VARIABLES cfg,      \* [bound, mode] as in DrfChannel
          fst,      \* fst[j] = [st: "none" | "open" | "closed" | "final" | "orphan", bad: an operation on this file failed]
                    \*   ("orphan": a tmp. file a killed process left behind; whoever comes later may remove it or create the
                    \*    name anew, but never write into it or publish it)
          pst,      \* properties file: [st, bad] likewise (staged under a tmp. name)
          want,     \* ghost: samples of every write call begun so far
          acc,      \* ghost: samples of the write calls that returned success
          calls,    \* history of API calls: sequence of [op, runs, resp ("pending" | "ok" | "err"), flt (a fault was injected during it)]
          crashed,  \* 0: never killed; 1: the process was killed (dead now); 2: a new process runs on the tree it left
          flt,      \* number of injected faults so far
          last

pvars == <<cfg, fst, pst, want, acc, calls, crashed, flt>>
vars == <<cfg, fst, pst, want, acc, calls, crashed, flt, last>>

Bound == cfg.bound
NW == Len(Bound) - 1
Win(j) == <<Bound[j], Bound[j + 1] - 1>>
NoFile == [st |-> "none", bad |-> FALSE, cl |-> FALSE]     \* cl: closed before it was published

FInit(c) ==
  /\ cfg = c
  /\ fst = [j \in 1..(Len(c.bound) - 1) |-> NoFile]
  /\ pst = NoFile
  /\ want = <<>> /\ acc = <<>> /\ calls = <<>>
  /\ crashed = 0 /\ flt = 0
  /\ last = [a |-> "Init"]

Finals == {j \in 1..NW : fst[j].st = "final"}
Tmps == {j \in 1..NW : fst[j].st \in {"open", "closed"}}
Alive == crashed # 1
Orphans == {j \in 1..NW : fst[j].st = "orphan"}     \* tmp. files of a dead process

Op(name, j, ok) == [a |-> name, j |-> j, ok |-> ok]
Bad(r, ok) == [r EXCEPT !.bad = @ \/ ~ok]

(***************************************************************************)
(* Data files                                                              *)
(***************************************************************************)
Mkdir(ok) == Alive /\ last' = Op("Mkdir", 0, ok) /\ UNCHANGED pvars
\* HDF5 probes with a non-creating open before the exclusive create; the probe finds nothing
ProbeTmp(j) == Alive /\ fst[j].st = "none" /\ last' = Op("ProbeTmp", j, FALSE) /\ UNCHANGED pvars
CreateTmp(j, ok) ==      \* (over an orphan: a truncating create makes the name the new session's own file)
  /\ Alive /\ fst[j].st \in {"none", "orphan"}
  /\ pst.st = "final"      \* data only goes into a channel whose properties are published: without them nothing is readable
  /\ fst' = [fst EXCEPT ![j] = IF ok THEN [st |-> "open", bad |-> FALSE, cl |-> FALSE] ELSE @]
  /\ last' = Op("CreateTmp", j, ok) /\ UNCHANGED <<cfg, pst, want, acc, calls, crashed, flt>>
PWrite(j, ok) ==     \* write / pwrite / ftruncate on the open tmp. file
  /\ Alive /\ fst[j].st = "open"
  /\ fst' = [fst EXCEPT ![j] = Bad(@, ok)]
  /\ last' = Op("PWrite", j, ok) /\ UNCHANGED <<cfg, pst, want, acc, calls, crashed, flt>>
CloseFd(j, ok) ==    \* a failing close still releases the descriptor
  /\ Alive /\ fst[j].st = "open"
  /\ fst' = [fst EXCEPT ![j] = [st |-> "closed", bad |-> @.bad \/ ~ok, cl |-> TRUE]]
  /\ last' = Op("CloseFd", j, ok) /\ UNCHANGED <<cfg, pst, want, acc, calls, crashed, flt>>
\* whether a file some operation on which failed may still be published is decided by its content (NoBadFinal is an
\* observation: HDF5 may have retried the failed write successfully); the protocol only demands that it was closed
CanRename(j) == fst[j].st = "closed"
Rename(j, ok) ==
  /\ Alive /\ CanRename(j)
  /\ fst' = [fst EXCEPT ![j] = IF ok THEN [st |-> "final", bad |-> @.bad, cl |-> TRUE] ELSE @]
  /\ last' = Op("Rename", j, ok) /\ UNCHANGED <<cfg, pst, want, acc, calls, crashed, flt>>
RemoveTmp(j, ok) ==     \* only a tmp. file may be removed
  /\ Alive /\ fst[j].st \in {"open", "closed", "orphan"}
  /\ fst' = [fst EXCEPT ![j] = IF ok THEN NoFile ELSE @]
  /\ last' = Op("RemoveTmp", j, ok) /\ UNCHANGED <<cfg, pst, want, acc, calls, crashed, flt>>

(***************************************************************************)
(* Channel properties file (staged)                                        *)
(***************************************************************************)
PropsOp(name, ok) ==
  /\ Alive
  /\ CASE name = "Probe"  -> ((pst.st = "none" /\ ~ok) \/ pst.st = "orphan") /\ pst' = pst
       [] name = "Create" -> pst.st \in {"none", "orphan"} /\ pst' = (IF ok THEN [st |-> "open", bad |-> FALSE, cl |-> FALSE] ELSE pst)
       [] name = "PWrite" -> pst.st = "open" /\ pst' = Bad(pst, ok)
       [] name = "Close"  -> \/ pst.st = "open" /\ pst' = [st |-> "closed", bad |-> pst.bad \/ ~ok, cl |-> TRUE]
                             \/ pst.st = "orphan" /\ pst' = pst          \* the descriptor of a probe
       [] name = "Rename" -> pst.st = "closed" /\ pst' = (IF ok THEN [st |-> "final", bad |-> pst.bad, cl |-> TRUE] ELSE pst)
       [] name = "Remove" -> pst.st \in {"open", "closed", "orphan"} /\ pst' = (IF ok THEN NoFile ELSE pst)
  /\ last' = Op("Props" \o name, 0, ok) /\ UNCHANGED <<cfg, fst, want, acc, calls, crashed, flt>>

(***************************************************************************)
(* API call brackets, environment                                          *)
(***************************************************************************)
CallBegin(op, runs) ==
  /\ Alive /\ (IF calls = <<>> THEN TRUE ELSE calls[Len(calls)].resp # "pending")
  /\ calls' = Append(calls, [op |-> op, runs |-> runs, resp |-> "pending", flt |-> FALSE])
  /\ want' = IF op = "write" THEN Canon(ToSet(want) \cup ToSet(runs)) ELSE want
  /\ last' = [a |-> "CallBegin", op |-> op] /\ UNCHANGED <<cfg, fst, pst, acc, crashed, flt>>
CallEnd(resp) ==
  /\ Alive /\ (IF calls = <<>> THEN FALSE ELSE calls[Len(calls)].resp = "pending")
  /\ calls' = [calls EXCEPT ![Len(calls)].resp = resp]
  /\ acc' = IF resp = "ok" /\ calls[Len(calls)].op = "write" THEN Canon(ToSet(acc) \cup ToSet(calls[Len(calls)].runs)) ELSE acc
  /\ last' = [a |-> "CallEnd", resp |-> resp] /\ UNCHANGED <<cfg, fst, pst, want, crashed, flt>>
\* the environment makes the operation about to be executed fail (recorded on the call in progress)
Inject ==
  /\ Alive /\ flt' = flt + 1
  /\ calls' = IF (IF calls = <<>> THEN FALSE ELSE calls[Len(calls)].resp = "pending") THEN [calls EXCEPT ![Len(calls)].flt = TRUE] ELSE calls
  /\ UNCHANGED <<cfg, fst, pst, want, acc, crashed, last>>
Crash == /\ Alive /\ crashed' = 1 /\ last' = [a |-> "Crash"] /\ UNCHANGED <<cfg, fst, pst, want, acc, calls, flt>>
\* A new recorder process on the tree the dead one left: what was in progress is an orphan now; the samples the dead
\* process had accepted but not published are gone with it (acc starts again), the call it died in is over
Orphaned(r) == IF r.st \in {"open", "closed"} THEN [st |-> "orphan", bad |-> r.bad, cl |-> FALSE] ELSE r
Restart ==
  /\ crashed = 1 /\ crashed' = 2
  /\ fst' = [j \in 1..NW |-> Orphaned(fst[j])] /\ pst' = Orphaned(pst)
  /\ acc' = <<>>
  /\ calls' = [i \in 1..Len(calls) |-> IF calls[i].resp = "pending" THEN [calls[i] EXCEPT !.resp = "err"] ELSE calls[i]]
  /\ last' = [a |-> "Restart"] /\ UNCHANGED <<cfg, want, flt>>

(***************************************************************************)
(* Properties of the protocol (hold by the guards; TLC confirms them for   *)
(* every interleaving with crashes, faults and reader passes in MCDrfFs)   *)
(***************************************************************************)
TypeOK == \A j \in 1..NW : fst[j].st \in {"none", "open", "closed", "final", "orphan"}
\* C02 across a restart: what a dead process left in progress is never published (it can only be removed or created anew)
OrphanNeverPublished == [][\A j \in 1..NW : fst[j].st = "orphan" => fst'[j].st \in {"orphan", "none", "open"}]_vars
FinalComplete == \A j \in Finals : fst[j].cl                      \* C02 / C10: nothing with a failed write is published
FinalImmutable == [][\A j \in Finals : fst'[j] = fst[j]]_vars       \* C02: a final file never changes again
VisibilityMonotone == [][Finals \subseteq Finals']_vars            \* C09
PropsPublishedComplete == pst.st = "final" => pst.cl
DataImpliesProps == (Finals # {} \/ Tmps # {}) => pst.st = "final"
\* what any reader may open at any moment: final data files and the final properties file, all complete
ReaderNeverSeesPartial == \A j \in 1..NW : fst[j].st \in {"open", "closed"} => j \notin Finals
=============================================================================
