SPECIFICATION TSpec
INVARIANT Report
INVARIANT TraceInvariant
PROPERTY FinalImmutable
PROPERTY VisibilityMonotone
CHECK_DEADLOCK FALSE
