---------------------------- MODULE DrfFsTrace ----------------------------
(* Trace specification for C02 / C09 / C10.  A writer subprocess runs under the LD_PRELOAD interposer; the controller
   records every mutating file-system operation (with its real or injected result), the API call brackets, and - between
   any two operations - a snapshot of the tree (raw h5py), reader passes (long-lived and fresh DigitalRFReader), listings,
   kills.  Operations must be steps of the DrfFs protocol; observations are judged against its state. *)
EXTENDS DrfFs, TraceBase

VARIABLES pubwant, \* pubwant[j]: the samples of window j that write calls had asked for when file j was published
          obs,     \* obs[j]: what the final file j was found to hold the first time it was seen: [data, vis] (run sequences)
          rseen    \* rseen[r]: blocks reader r returned at its previous pass
allvars == <<vars, tvars, obs, rseen, pubwant>>
ovars == <<obs, rseen, pubwant>>

TInit == /\ TBInit /\ FInit(Hdr.cfg)
         /\ obs = [j \in 1..(Len(Hdr.cfg.bound) - 1) |-> [data |-> <<>>, vis |-> <<>>, set |-> FALSE]]
         /\ rseen = [r \in 1..Hdr.nreaders |-> <<>>]
         /\ pubwant = [j \in 1..(Len(Hdr.cfg.bound) - 1) |-> <<>>]

Pairs(q) == [i \in 1..Len(q) |-> <<q[i][1], q[i][2]>>]
Spans(q) == [i \in 1..Len(q) |-> <<q[i][1], q[i][1] + q[i][2] - 1>>]   \* <<first, length>> -> <<lo, hi>>
Ok == E.res = "ok"
Faulted == flt > 0
\* an operation that does not fit the protocol in the current state
Refuse(why) == Rej({why}) /\ UNCHANGED <<vars, ovars>>
InWin(j) == j \in 1..NW

(***************************************************************************)
(* Operations                                                              *)
(***************************************************************************)
TOpData ==
  /\ E.cls \in {"tmp", "final"}
  /\ IF ~InWin(E.j) THEN Refuse("C04-file-outside-the-written-period")
     ELSE IF E.cls = "final" THEN
          Refuse(CASE E.op = "open" -> "pub-opened-a-final-name-for-writing"
                   [] E.op \in {"pwrite", "write", "ftruncate"} -> "pub-wrote-to-a-final-file"
                   [] E.op = "unlink" -> "pub-removed-a-final-file"
                   [] E.op = "rename" -> "pub-renamed-a-final-file"
                   [] OTHER -> "pub-touched-a-final-file")
     ELSE CASE E.op = "open" /\ ~E.creat ->
                 \* (a probe may find the tmp. file a dead process left behind)
                 IF Ok /\ fst[E.j].st = "orphan" THEN UNCHANGED <<vars, ovars>> /\ Adv
                 ELSE IF Ok THEN Refuse("pub-reopened-an-existing-tmp-file")
                 ELSE (IF fst[E.j].st = "none" THEN ProbeTmp(E.j) ELSE UNCHANGED vars /\ TRUE) /\ Adv /\ UNCHANGED ovars
            [] E.op = "open" /\ E.creat ->
                 IF fst[E.j].st = "orphan" /\ ~Ok THEN UNCHANGED <<vars, ovars>> /\ Adv     \* exclusive create: the name is taken
                 ELSE IF fst[E.j].st \notin {"none", "orphan"} THEN Refuse("pub-created-a-tmp-file-that-exists")
                 ELSE IF pst.st # "final" THEN Refuse("pub-data-file-created-in-a-channel-without-published-properties")
                 ELSE CreateTmp(E.j, Ok) /\ Adv /\ UNCHANGED ovars
            [] E.op \in {"pwrite", "write", "ftruncate"} ->
                 IF fst[E.j].st = "orphan" THEN Refuse("pub-wrote-to-a-tmp-file-of-a-dead-session")
                 ELSE IF fst[E.j].st # "open" THEN Refuse("pub-wrote-to-a-closed-file")
                 ELSE PWrite(E.j, Ok) /\ Adv /\ UNCHANGED ovars
            [] E.op = "close" ->
                 IF fst[E.j].st = "orphan" THEN UNCHANGED <<vars, ovars>> /\ Adv      \* the descriptor of a probe
                 ELSE IF fst[E.j].st # "open" THEN Refuse("pub-closed-twice")
                 ELSE CloseFd(E.j, Ok) /\ Adv /\ UNCHANGED ovars
            [] E.op = "rename" ->
                 IF E.cls2 # "final" \/ E.j2 # E.j THEN Refuse("pub-renamed-to-a-wrong-name")
                 ELSE IF fst[E.j].st = "orphan" THEN Refuse("pub-published-a-tmp-file-of-a-dead-session")
                 ELSE IF fst[E.j].st = "open" THEN Refuse("pub-renamed-before-close")
                 ELSE IF fst[E.j].st # "closed" THEN Refuse("pub-renamed-a-missing-file")
                 ELSE /\ Rename(E.j, Ok) /\ Adv /\ UNCHANGED <<obs, rseen>>
                      \* what a final file has to hold is what had been asked for when it was published: a later call
                      \* that names samples of its period can only be refused
                      /\ pubwant' = IF Ok THEN [pubwant EXCEPT ![E.j] = Clip(want, Lo(Win(E.j)), Hi(Win(E.j)))] ELSE pubwant
            [] E.op = "unlink" ->
                 IF fst[E.j].st \notin {"open", "closed", "orphan"} THEN Refuse("pub-removed-a-missing-file")
                 ELSE RemoveTmp(E.j, Ok) /\ Adv /\ UNCHANGED ovars
            [] OTHER -> Refuse("pub-unexpected-operation-on-a-data-file")

PName == CASE E.op = "open" /\ ~E.creat -> "Probe"
           [] E.op = "open" -> "Create"
           [] E.op \in {"pwrite", "write", "ftruncate"} -> "PWrite"
           [] E.op = "close" -> "Close"
           [] E.op = "rename" -> "Rename"
           [] E.op = "unlink" -> "Remove"
           [] OTHER -> "?"
PropsEnabled(name) ==
  CASE name = "Probe" -> (pst.st = "none" /\ ~Ok) \/ pst.st = "orphan"
    [] name = "Create" -> pst.st = "none" \/ (pst.st = "orphan" /\ ~Ok)      \* exclusive create: the name is taken
    [] name = "PWrite" -> pst.st = "open"
    [] name = "Close" -> pst.st \in {"open", "orphan"}
    [] name = "Rename" -> pst.st = "closed" /\ E.cls2 = "props"
    [] name = "Remove" -> pst.st \in {"open", "closed", "orphan"}
    [] OTHER -> FALSE
TOpProps ==
  /\ E.cls \in {"props", "tmpprops"}
  /\ IF E.cls = "props" THEN
        \* nothing may be created or written under the final properties name
        IF E.op = "open" /\ ~E.creat /\ ~Ok THEN UNCHANGED <<vars, ovars>> /\ Adv
        ELSE Refuse("pub-properties-file-not-staged")
     ELSE IF ~PropsEnabled(PName) THEN Refuse("pub-properties-file-protocol")
     ELSE PropsOp(PName, Ok) /\ Adv /\ UNCHANGED ovars

TOpOther == /\ E.cls \in {"dir", "chdir", "other", "none"}
            /\ IF E.op \in {"mkdir", "rmdir"} THEN Mkdir(Ok) /\ Adv /\ UNCHANGED ovars
               ELSE IF E.cls = "other" THEN Refuse("pub-stray-file-written-into-the-channel")
               ELSE UNCHANGED <<vars, ovars>> /\ Adv

TOp == E.ev = "op" /\ (TOpData \/ TOpProps \/ TOpOther)
TInject == E.ev = "inject" /\ Inject /\ Adv /\ UNCHANGED ovars

TCall ==
  /\ E.ev = "call"
  /\ CASE E.phase = "begin" -> CallBegin(IF E.op \in {"write", "blocks"} THEN "write" ELSE E.op, Spans(E.runs)) /\ Adv /\ UNCHANGED ovars
       [] E.phase = "end" -> CallEnd(E.resp) /\ Adv /\ UNCHANGED ovars
       [] OTHER -> UNCHANGED <<vars, ovars>> /\ Adv
TKill == E.ev = "kill" /\ Crash /\ Adv /\ UNCHANGED ovars
TRestart == E.ev = "restart" /\ (IF crashed = 1 THEN Restart /\ Adv /\ UNCHANGED ovars
                                 ELSE Rej({"harness-restart-of-a-live-process"}) /\ UNCHANGED <<vars, ovars>>)
TExit == E.ev = "exit" /\ UNCHANGED <<vars, ovars>> /\ Adv

(***************************************************************************)
(* Observations                                                            *)
(***************************************************************************)
RECURSIVE FileNotes(_)
FileNotes(fs) ==
  IF fs = <<>> THEN {}
  ELSE LET f == fs[1]   w == Clip(want, Lo(Win(f.j)), Hi(Win(f.j))) IN
       (IF ~InWin(f.j) THEN {"C04-file-outside-the-written-period"}
        ELSE Names({
          <<"pub-final-file-unreadable", ~f.ok>>,
          <<"pub-final-file-holds-values-never-written", f.ok /\ (f.bad # 0 \/ ~SubsetRuns(Pairs(f.data), w))>>,
          \* (after a kill `want` still holds what the dead process was about to write: completeness is then judged by acc at the end)
          <<"C02-final-file-incomplete", f.ok /\ ~Faulted /\ crashed # 2 /\ Pairs(f.data) # pubwant[f.j]>>,
          <<"C07-fill-outside-continuous-mode", f.ok /\ cfg.mode # "contU" /\ f.fill # <<>>>>}))
       \cup FileNotes(Tail(fs))

NewObs(fs) == [j \in 1..NW |->
                 IF \E i \in 1..Len(fs) : fs[i].j = j
                 THEN LET f == fs[CHOOSE i \in 1..Len(fs) : fs[i].j = j] IN
                      [data |-> Pairs(f.data), vis |-> Canon(ToSet(Pairs(f.data)) \cup ToSet(Pairs(f.fill))), set |-> TRUE]
                 ELSE obs[j]]
VisNow == Canon(UNION {ToSet(obs[j].vis) : j \in Finals})
DataNow == Canon(UNION {ToSet(obs[j].data) : j \in Finals})

\* C10 judged on the last snapshot of a run: silent loss, continuing after a failure
FirstFltCall == IF \E i \in 1..Len(calls) : calls[i].flt THEN CHOOSE i \in 1..Len(calls) : calls[i].flt /\ \A k \in 1..(i - 1) : ~calls[k].flt ELSE 0
WriteCalls == {i \in 1..Len(calls) : calls[i].op = "write"}
Lost(datanow) == Minus(acc, datanow)
EndNotes(datanow) ==
  LET c == FirstFltCall
      nextw == {i \in WriteCalls : i > c}
      firstnext == CHOOSE i \in nextw : \A k \in nextw : k >= i
      lost == Lost(datanow) # <<>>
  IN Names({
       \* an accepted sample is unreadable, a call was made after the failure, and neither the call during which the
       \* failure happened nor the first call after it reported an error
       <<"C10-accepted-samples-lost-without-an-error",
         lost /\ c # 0 /\ nextw # {} /\ calls[firstnext].resp = "ok" /\ (c \in WriteCalls => calls[c].resp = "ok")>>,
       <<"C10-writer-continued-after-a-reported-failure",
         lost /\ c # 0 /\ \E i \in WriteCalls : calls[i].resp = "err" /\ \E k \in WriteCalls : k > i /\ calls[k].resp = "ok">>,
       <<"C02-accepted-samples-unreadable-after-clean-close", lost /\ crashed # 1 /\ flt = 0>>,
       <<"C02-tmp-file-left-after-clean-close", flt = 0 /\ crashed # 1 /\ Tmps # {}>>})

TSnap ==
  /\ E.ev = "snap" /\ UNCHANGED <<vars, rseen, pubwant>>
  /\ obs' = NewObs(E.files)
  /\ AdvNote(Names({
        <<"pub-final-names-differ-from-the-protocol-state", SeqSet(E.fin) # Finals>>,
        <<"pub-tmp-names-differ-from-the-protocol-state", SeqSet(E.tmp) # Tmps \cup Orphans>>,
        <<"pub-final-file-changed-after-publication", E.changed # <<>>>>,
        <<"C02-properties-file-visible-while-incomplete", E.props \in {"unreadable", "partial"}>>,
        <<"C02-properties-file-state", (E.props = "ok") # (pst.st = "final")>>})
      \cup FileNotes(E.files)
      \cup (IF E.tag = "end" THEN
              \* (what the final files hold is readable only through a channel whose properties file is there)
              LET dn == IF E.props = "ok" THEN Canon(UNION {ToSet(NewObs(E.files)[j].data) : j \in Finals}) ELSE <<>> IN EndNotes(dn)
            ELSE {}))

\* a reader pass: never fails, sees exactly the finalized files, never less than before
TRpass ==
  /\ E.ev = "rpass" /\ UNCHANGED <<vars, obs, pubwant>>
  /\ rseen' = [rseen EXCEPT ![E.r] = IF E.ok /\ ~E.nochannel THEN Pairs(E.blocks) ELSE @]
  /\ AdvNote(Names({
        <<"C09-reader-failed", ~E.ok>>,
        <<"C09-reader-missed-the-channel", E.ok /\ E.nochannel /\ pst.st = "final">>,
        <<"C09-reader-differs-from-the-finalized-files", E.ok /\ ~E.nochannel /\ Pairs(E.blocks) # VisNow>>,
        <<"C09-reader-returned-values-never-written", E.ok /\ ~E.nochannel /\ (E.bad # 0 \/ Pairs(E.data) # DataNow)>>,
        <<"C09-reader-bounds", E.ok /\ ~E.nochannel /\ (E.has # (VisNow # <<>>)
                                \/ (E.has /\ VisNow # <<>> /\ <<E.first, E.last>> # <<MinLo(VisNow), MaxHi(VisNow)>>))>>,
        <<"C09-visibility-shrank", E.ok /\ ~E.nochannel /\ ~SubsetRuns(rseen[E.r], Pairs(E.blocks))>>}))

TLs == /\ E.ev = "ls" /\ UNCHANGED <<vars, ovars>>
       /\ AdvNote(Names({<<"C02-listing-failed", ~E.ok>>,
                         <<"C02-listing-shows-a-tmp-file", E.ok /\ E.tmpseen>>,
                         <<"C02-listing-differs-from-the-finalized-files", E.ok /\ pst.st = "final" /\ SeqSet(E.fin) # Finals>>}))

TOther == /\ E.ev \notin {"op", "inject", "call", "kill", "restart", "exit", "snap", "rpass", "ls"} /\ Refuse("unknown-event")
\* an event that none of the clauses above can take (protocol actions are total through Refuse, brackets may be ill-formed)
TStuck == /\ E.ev = "call"
          /\ ~(\/ E.phase \notin {"begin", "end"}
               \/ (E.phase = "begin" /\ (IF calls = <<>> THEN TRUE ELSE calls[Len(calls)].resp # "pending") /\ Alive)
               \/ (E.phase = "end" /\ (IF calls = <<>> THEN FALSE ELSE calls[Len(calls)].resp = "pending") /\ Alive))
          /\ Refuse("harness-call-brackets")

TNext == \/ HasEvent /\ (TOp \/ TInject \/ TCall \/ TKill \/ TRestart \/ TExit \/ TSnap \/ TRpass \/ TLs \/ TOther \/ TStuck)
         \/ Finish /\ UNCHANGED <<vars, ovars>>
TSpec == TInit /\ [][TNext]_allvars
TraceInvariant == Running => (TypeOK /\ FinalComplete /\ PropsPublishedComplete)
=============================================================================
