------------------------------ MODULE DrfLive ------------------------------
(***************************************************************************)
(* Free-running readers against a live writer (second half of C09).        *)
(* The writer finalizes files in some order; a reader pass is NOT atomic:  *)
(* it visits candidate files one after the other and includes a file iff   *)
(* it is final at the moment it is visited, so a pass may contain file j+1 *)
(* but not file j.  What the property still guarantees without any common  *)
(* clock: a pass never fails, is a union of WHOLE finalized files with the *)
(* written values, and contains everything an earlier pass of the same     *)
(* reader contained; after the writer has closed a pass is everything.     *)
(***************************************************************************)
EXTENDS Runs, TLC
VARIABLES cfg,     \* [nfiles] (E1) / header of the trace
          fin,     \* set of finalized files
          closed,  \* the writer has closed
          scan,    \* scan[r]: the pass in progress of reader r: [pos, got] or idle (pos = 0)
          seen     \* seen[r]: set of files in the last completed pass of reader r
vars == <<cfg, fin, closed, scan, seen>>
Files == 1..cfg.nfiles
Readers == 1..cfg.nreaders
LInit(c) == /\ cfg = c /\ fin = {} /\ closed = FALSE
            /\ scan = [r \in 1..c.nreaders |-> [pos |-> 0, got |-> {}]]
            /\ seen = [r \in 1..c.nreaders |-> {}]
Finalize(j) == /\ ~closed /\ j \notin fin /\ fin' = fin \cup {j} /\ UNCHANGED <<cfg, closed, scan, seen>>
CloseW == /\ ~closed /\ closed' = TRUE /\ UNCHANGED <<cfg, fin, scan, seen>>
BeginPass(r) == /\ scan[r].pos = 0 /\ scan' = [scan EXCEPT ![r] = [pos |-> 1, got |-> {}]] /\ UNCHANGED <<cfg, fin, closed, seen>>
Visit(r) == /\ scan[r].pos \in Files
            /\ scan' = [scan EXCEPT ![r] = [pos |-> @.pos + 1, got |-> IF scan[r].pos \in fin THEN @.got \cup {scan[r].pos} ELSE @.got]]
            /\ UNCHANGED <<cfg, fin, closed, seen>>
EndPass(r) == /\ scan[r].pos = cfg.nfiles + 1
              /\ seen' = [seen EXCEPT ![r] = scan[r].got]
              /\ scan' = [scan EXCEPT ![r] = [pos |-> 0, got |-> {}]]
              /\ UNCHANGED <<cfg, fin, closed>>
\* properties of every completed pass
PassOnlyFinal == \A r \in Readers : seen[r] \subseteq fin /\ scan[r].got \subseteq fin
Monotone == [][\A r \in Readers : seen[r] \subseteq seen'[r]]_vars
=============================================================================
