---------------------------- MODULE DrfLiveTrace ----------------------------
(* Trace specification for the free-running half of C09: reader processes poll a channel while a writer process records
   it at full speed; no cross-process clock is used.  The header holds the content of every file as found after the
   writer closed; each reader pass must satisfy what DrfLive guarantees for non-atomic passes. *)
EXTENDS Runs, TraceBase
VARIABLE seenr    \* seenr[r]: blocks of the previous pass of reader r
allvars == <<tvars, seenr>>
Pairs(q) == [i \in 1..Len(q) |-> <<q[i][1], q[i][2]>>]
NF == Len(Hdr.files)
Vis(j) == Pairs(Hdr.files[j].vis)
Dat(j) == Pairs(Hdr.files[j].data)
AllVis == Canon(UNION {ToSet(Vis(j)) : j \in 1..NF})
TInit == TBInit /\ seenr = [r \in 1..Hdr.nreaders |-> <<>>]
TRpass ==
  /\ E.ev = "rpass"
  /\ LET blocks == Pairs(E.blocks)
         whole == {j \in 1..NF : Vis(j) # <<>> /\ SubsetRuns(Vis(j), blocks)}
     IN /\ seenr' = [seenr EXCEPT ![E.r] = IF E.ok THEN blocks ELSE @]
        /\ AdvNote(Names({
             <<"C09-free-running-reader-failed", ~E.ok>>,
             <<"C09-free-running-values-never-written", E.ok /\ (E.bad # 0 \/ Pairs(E.data) # Canon(UNION {ToSet(Dat(j)) : j \in whole}))>>,
             <<"C09-free-running-not-whole-finalized-files", E.ok /\ blocks # Canon(UNION {ToSet(Vis(j)) : j \in whole})>>,
             <<"C09-free-running-visibility-shrank", E.ok /\ ~SubsetRuns(seenr[E.r], blocks)>>,
             <<"C09-free-running-incomplete-after-close", E.ok /\ E.afterclose /\ blocks # AllVis>>}))
TOther == E.ev # "rpass" /\ Rej({"unknown-event"}) /\ UNCHANGED seenr
TNext == (HasEvent /\ (TRpass \/ TOther)) \/ (Finish /\ UNCHANGED seenr)
TSpec == TInit /\ [][TNext]_allvars
=============================================================================
