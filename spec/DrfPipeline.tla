------------------------------ MODULE DrfPipeline ------------------------------
(***************************************************************************)
(* Composition beyond the listed properties: a live recording whose files  *)
(* are MOVED to an archive while the recording goes on.                    *)
(*                                                                         *)
(*   writer    the publication protocol of DrfFs for files 1..NF in time   *)
(*             order: CreateTmp, PWrite, CloseFd, Rename (tmp.x -> x)      *)
(*   watcher   every operation appends the event inotify would report to a *)
(*             FIFO; events may be lost                                    *)
(*   filter    EventFilter: events on tmp. names are dropped, the          *)
(*             finalizing move is delivered for the final name (C15)       *)
(*   mirror    DigitalRFMirror in move mode (C17), one event at a time and *)
(*             one file-system operation at a time: compare, stage under   *)
(*             tmp.<name> in the archive (rename on one file system, copy  *)
(*             + unlink across two), rename to the final archive name; it  *)
(*             may die between any two operations and be restarted (the    *)
(*             restart replays the names it finds in the source)           *)
(*   reader    a reader on the archive: lists the final names, opens them  *)
(*                                                                         *)
(* What the composition must guarantee (none of it follows from one        *)
(* component alone):                                                       *)
(*   WriterUndisturbed    the mirror never takes a file away that the      *)
(*                        writer still has in progress                     *)
(*   ArchiveFinalComplete a final name in the archive has complete content *)
(*   NoTmpNameArchived    no tmp. name of the recording is ever published  *)
(*                        in the archive                                   *)
(*   NoLoss               a finalized file is intact somewhere, always     *)
(*   ReaderNeverSeesPartial                                                *)
(*   EverythingArrives    (liveness, no event lost, no crash) every        *)
(*                        finalized file ends up in the archive            *)
(*                                                                         *)
(* Observation O1 (outside the listed properties, see DESIGN.md): the      *)
(* mirror removes a source subdirectory it has emptied (cfg.rmdir).  The   *)
(* writer makes sure the subdirectory exists (mkdir) and then creates the  *)
(* next file in it - two operations.  When the mirror's rmdir falls        *)
(* between them the creation fails and the recording stops with an error.  *)
(* WriterUndisturbed therefore holds only for cfg.rmdir = FALSE; with      *)
(* cfg.rmdir = TRUE TLC produces the race (and the harness reproduces it   *)
(* on the real code).  Nothing is lost and the error is reported, so no    *)
(* listed property is contradicted.                                        *)
(* The mirror's operations interleave freely with the writer's here; the   *)
(* trace harness can only interleave whole handler activations, TLC shows  *)
(* that the finer interleavings change nothing while the filter holds.     *)
(***************************************************************************)
EXTENDS Integers, Sequences, FiniteSets, TLC

VARIABLES cfg,    \* never changes: [nf, maxlost, filtertmp, samefs, maxcrash, rmdir, sub (file -> source subdirectory)]
          fs,     \* source, per file: "none" | "dir" | "open" | "written" | "closed" | "final" | "moved" | "stolen" | "nodir"
                  \*   ("dir": the writer has made sure the subdirectory exists; "stolen": the mirror took the tmp. name
                  \*    away while the writer had the file in progress; "nodir": the creation failed, the subdirectory is gone)
          sd,     \* source subdirectories that exist (a set of subdirectory numbers)
          dt,     \* archive, per file: [stage, fin, ltmp] each "none" | "part" | "full"
                  \*   stage: tmp.<final name>; fin: the final name; ltmp: the recording's own tmp. name, published
          evq,    \* FIFO of pending events [k, j, tmp]
          lost,   \* events lost so far
          mpc,    \* mirror: [j, tmp, st] st \in "idle" | "open" | "copying" | "unlink" | "publish"
          hist,   \* [crashes, down, wfail]: mirror crashes so far, mirror down, the writer failed because of the mirror
          rd,     \* archive reader: [listed, opened, bad]
          last
vars == <<cfg, fs, sd, dt, evq, lost, mpc, hist, rd, last>>
NF == cfg.nf
Files == 1..NF
Live == {"open", "written", "closed"}
Idle == [j |-> 0, tmp |-> FALSE, st |-> "idle"]
NoneD == [stage |-> "none", fin |-> "none", ltmp |-> "none"]

Sub(j) == cfg.sub[j]
PInit(c) == /\ cfg = c /\ fs = [j \in 1..c.nf |-> "none"] /\ sd = {} /\ dt = [j \in 1..c.nf |-> NoneD]
            /\ evq = <<>> /\ lost = 0 /\ mpc = Idle
            /\ hist = [crashes |-> 0, down |-> FALSE, wfail |-> FALSE]
            /\ rd = [listed |-> {}, opened |-> {}, bad |-> FALSE] /\ last = "Init"

Evt(k, j, tmp) == [k |-> k, j |-> j, tmp |-> tmp]
\* (when the mirror is down nobody listens: the event is gone; the restart replays what it finds)
EmitAs(e, delivered) == IF delivered /\ ~hist.down THEN evq' = Append(evq, e) /\ lost' = lost
                        ELSE evq' = evq /\ lost' = IF hist.down THEN lost ELSE lost + 1
Emit(e) == \/ EmitAs(e, TRUE)
           \/ ~hist.down /\ lost < cfg.maxlost /\ EmitAs(e, FALSE)

(***************************************************************************)
(* writer (one file at a time, in order); a file whose tmp. name was taken *)
(* away cannot be finalized: the rename fails and the writer stops         *)
(***************************************************************************)
InHand == Live \cup {"stolen", "dir"}
Cur == IF \E j \in Files : fs[j] \in InHand THEN CHOOSE j \in Files : fs[j] \in InHand ELSE 0
NextNew == IF \E j \in Files : fs[j] = "none" THEN CHOOSE j \in Files : fs[j] = "none" /\ \A i \in Files : fs[i] = "none" => i >= j ELSE 0
WMkdir == /\ ~hist.wfail /\ Cur = 0 /\ NextNew # 0        \* mkdir, "exists already" is fine
          /\ fs' = [fs EXCEPT ![NextNew] = "dir"] /\ sd' = sd \cup {Sub(NextNew)}
          /\ last' = "WMkdir" /\ UNCHANGED <<cfg, dt, evq, lost, mpc, hist, rd>>
WCreate == /\ Cur # 0 /\ fs[Cur] = "dir" /\ Sub(Cur) \in sd
           /\ fs' = [fs EXCEPT ![Cur] = "open"] /\ Emit(Evt("created", Cur, TRUE))
           /\ last' = "WCreate" /\ UNCHANGED <<cfg, sd, dt, mpc, hist, rd>>
WCreateFails == /\ Cur # 0 /\ fs[Cur] = "dir" /\ Sub(Cur) \notin sd     \* the subdirectory vanished in between
                /\ fs' = [fs EXCEPT ![Cur] = "nodir"] /\ hist' = [hist EXCEPT !.wfail = TRUE]
                /\ last' = "WCreateFails" /\ UNCHANGED <<cfg, sd, dt, evq, lost, mpc, rd>>
WWrite == /\ Cur # 0 /\ fs[Cur] = "open" /\ fs' = [fs EXCEPT ![Cur] = "written"] /\ Emit(Evt("modified", Cur, TRUE))
          /\ last' = "WWrite" /\ UNCHANGED <<cfg, sd, dt, mpc, hist, rd>>
WClose == /\ Cur # 0 /\ fs[Cur] \in {"open", "written"} /\ fs' = [fs EXCEPT ![Cur] = "closed"]
          /\ last' = "WClose" /\ UNCHANGED <<cfg, sd, dt, evq, lost, mpc, hist, rd>>
WRename == /\ Cur # 0 /\ fs[Cur] = "closed" /\ fs' = [fs EXCEPT ![Cur] = "final"]
           /\ Emit(Evt("moved", Cur, FALSE))
           /\ last' = "WRename" /\ UNCHANGED <<cfg, sd, dt, mpc, hist, rd>>
WFail == /\ Cur # 0 /\ fs[Cur] = "stolen" /\ ~hist.wfail
         /\ hist' = [hist EXCEPT !.wfail = TRUE]
         /\ last' = "WFail" /\ UNCHANGED <<cfg, fs, sd, dt, evq, lost, mpc, rd>>

(***************************************************************************)
(* filter + mirror, one operation at a time                                *)
(***************************************************************************)
Deliverable(e) == IF cfg.filtertmp THEN ~e.tmp ELSE TRUE
\* the source name an event speaks about exists
Exists(j, tmp) == IF tmp THEN fs[j] \in Live ELSE fs[j] = "final"
\* the content a copy of that name would have: complete only for a finalized file
Content(j, tmp) == IF tmp THEN "part" ELSE "full"
DstName(j, tmp) == IF tmp THEN dt[j].ltmp ELSE dt[j].fin

MBegin ==     \* take the oldest pending event
  /\ ~hist.down /\ mpc = Idle /\ evq # <<>>
  /\ LET e == Head(evq) IN
       /\ evq' = Tail(evq)
       /\ mpc' = IF Deliverable(e) /\ e.k \in {"created", "modified", "moved"} THEN [j |-> e.j, tmp |-> e.tmp, st |-> "open"] ELSE Idle
  /\ last' = "MBegin" /\ UNCHANGED <<cfg, fs, sd, dt, lost, hist, rd>>
MSkip ==      \* the name is gone, or the archive already has it: nothing to do
  /\ mpc.st = "open" /\ (~Exists(mpc.j, mpc.tmp) \/ DstName(mpc.j, mpc.tmp) = "full")
  /\ mpc' = [mpc EXCEPT !.st = "clean"] /\ last' = "MSkip" /\ UNCHANGED <<cfg, fs, sd, dt, evq, lost, hist, rd>>
Need == mpc.st = "open" /\ Exists(mpc.j, mpc.tmp) /\ DstName(mpc.j, mpc.tmp) # "full"
MMvRename ==  \* one file system: shutil.move is a rename into the staging name
  /\ Need /\ cfg.samefs
  /\ dt' = [dt EXCEPT ![mpc.j].stage = Content(mpc.j, mpc.tmp)]
  /\ fs' = [fs EXCEPT ![mpc.j] = IF mpc.tmp THEN "stolen" ELSE "moved"]
  /\ mpc' = [mpc EXCEPT !.st = "publish"]
  /\ last' = "MMvRename" /\ UNCHANGED <<cfg, sd, evq, lost, hist, rd>>
MCopyBegin == \* two file systems: copy ...
  /\ Need /\ ~cfg.samefs
  /\ dt' = [dt EXCEPT ![mpc.j].stage = "part"]
  /\ mpc' = [mpc EXCEPT !.st = "copying"]
  /\ last' = "MCopyBegin" /\ UNCHANGED <<cfg, fs, sd, evq, lost, hist, rd>>
MCopyEnd ==
  /\ mpc.st = "copying"
  /\ dt' = [dt EXCEPT ![mpc.j].stage = IF Exists(mpc.j, mpc.tmp) THEN Content(mpc.j, mpc.tmp) ELSE "part"]
  /\ mpc' = [mpc EXCEPT !.st = "unlink"]
  /\ last' = "MCopyEnd" /\ UNCHANGED <<cfg, fs, sd, evq, lost, hist, rd>>
MUnlink ==    \* ... then unlink the source name
  /\ mpc.st = "unlink"
  /\ fs' = [fs EXCEPT ![mpc.j] = IF Exists(mpc.j, mpc.tmp) THEN (IF mpc.tmp THEN "stolen" ELSE "moved") ELSE @]
  /\ mpc' = [mpc EXCEPT !.st = "publish"]
  /\ last' = "MUnlink" /\ UNCHANGED <<cfg, sd, dt, evq, lost, hist, rd>>
MPublish ==   \* rename the staging name to the archive name
  /\ mpc.st = "publish"
  /\ dt' = [dt EXCEPT ![mpc.j] = IF mpc.tmp THEN [@ EXCEPT !.ltmp = dt[mpc.j].stage, !.stage = "none"]
                                 ELSE [@ EXCEPT !.fin = dt[mpc.j].stage, !.stage = "none"]]
  /\ mpc' = [mpc EXCEPT !.st = "clean"]
  /\ last' = "MPublish" /\ UNCHANGED <<cfg, fs, sd, evq, lost, hist, rd>>
\* try to remove the source subdirectory of the name just handled: succeeds when it holds no name any more
SrcNames(d) == {j \in Files : Sub(j) = d /\ fs[j] \in Live \cup {"final"}}
MRmdir ==
  /\ mpc.st = "clean"
  /\ sd' = IF cfg.rmdir /\ SrcNames(Sub(mpc.j)) = {} THEN sd \ {Sub(mpc.j)} ELSE sd
  /\ mpc' = Idle
  /\ last' = "MRmdir" /\ UNCHANGED <<cfg, fs, dt, evq, lost, hist, rd>>

MCrash ==     \* the mirror process dies between two operations: its position and the event queue are gone
  /\ ~hist.down /\ hist.crashes < cfg.maxcrash
  /\ mpc' = Idle /\ evq' = <<>>
  /\ hist' = [hist EXCEPT !.crashes = @ + 1, !.down = TRUE]
  /\ last' = "MCrash" /\ UNCHANGED <<cfg, fs, sd, dt, lost, rd>>
\* a new mirror replays the names it finds in the source, in name order (the listing applies the filter's name pattern,
\* so the replay contains a tmp. name only when the filter is broken)
SrcEvents == LET names == [j \in Files |-> IF fs[j] = "final" THEN <<Evt("created", j, FALSE)>>
                                           ELSE IF fs[j] \in Live /\ ~cfg.filtertmp THEN <<Evt("created", j, TRUE)>> ELSE <<>>]
                 Cat[i \in 0..NF] == IF i = 0 THEN <<>> ELSE Cat[i - 1] \o names[i]
             IN Cat[NF]
MRestart ==
  /\ hist.down
  /\ evq' = SrcEvents
  /\ hist' = [hist EXCEPT !.down = FALSE]
  /\ last' = "MRestart" /\ UNCHANGED <<cfg, fs, sd, dt, lost, mpc, rd>>

(***************************************************************************)
(* archive reader                                                          *)
(***************************************************************************)
RList == /\ rd' = [listed |-> {j \in Files : dt[j].fin # "none"}, opened |-> {}, bad |-> rd.bad]
         /\ last' = "RList" /\ UNCHANGED <<cfg, fs, sd, dt, evq, lost, mpc, hist>>
ROpen == /\ \E j \in rd.listed \ rd.opened :
              rd' = [rd EXCEPT !.opened = @ \cup {j}, !.bad = @ \/ dt[j].fin # "full"]
         /\ last' = "ROpen" /\ UNCHANGED <<cfg, fs, sd, dt, evq, lost, mpc, hist>>

Mirror == MBegin \/ MSkip \/ MMvRename \/ MCopyBegin \/ MCopyEnd \/ MUnlink \/ MPublish \/ MRmdir
Writer == WMkdir \/ WCreate \/ WCreateFails \/ WWrite \/ WClose \/ WRename \/ WFail
Next == Writer \/ Mirror \/ MCrash \/ MRestart \/ RList \/ ROpen
\* (Init is supplied by the instantiating module)

(***************************************************************************)
(* properties                                                              *)
(***************************************************************************)
States == {"none", "dir", "open", "written", "closed", "final", "moved", "stolen", "nodir"}
Cont == {"none", "part", "full"}
TypeOK == /\ \A j \in Files : fs[j] \in States /\ dt[j].stage \in Cont /\ dt[j].fin \in Cont /\ dt[j].ltmp \in Cont
          /\ mpc.st \in {"idle", "open", "copying", "unlink", "publish", "clean"}
          /\ sd \subseteq {Sub(j) : j \in Files}
QueueBound == Len(evq) <= 4
WriterUndisturbed == ~hist.wfail /\ \A j \in Files : fs[j] \notin {"stolen", "nodir"}
\* a name in the source has its subdirectory
DirsConsistent == \A j \in Files : fs[j] \in Live \cup {"final"} => Sub(j) \in sd
ArchiveFinalComplete == \A j \in Files : dt[j].fin \in {"none", "full"}
NoTmpNameArchived == \A j \in Files : dt[j].ltmp = "none"
\* a finalized file that left the source is complete under its staging or its final name in the archive
NoLoss == \A j \in Files : fs[j] = "moved" => (dt[j].stage = "full" \/ dt[j].fin = "full")
ReaderNeverSeesPartial == ~rd.bad
\* the source only ever loses finalized files, and only to the mirror
OnlyFinalLeaves == [][\A j \in Files : fs'[j] = "moved" => fs[j] \in {"final", "moved"}]_vars
\* what is in the archive stays
ArchiveStable == [][\A j \in Files : dt[j].fin = "full" => dt'[j].fin = "full"]_vars
\* liveness: with every event delivered and no crash, every file the writer finalized reaches the archive
Fairness == /\ WF_vars(Mirror) /\ WF_vars(Writer) /\ WF_vars(MRestart)
EverythingArrives == (lost = 0 /\ hist.crashes = 0) ~> (\/ lost # 0 \/ hist.crashes # 0 \/ hist.wfail
                                                         \/ \A j \in Files : dt[j].fin = "full")
\* after a crash a file can be left under its staging name (C17: StuckTmp); nothing else stays behind
Quiescent == evq = <<>> /\ mpc = Idle /\ ~hist.down /\ Cur = 0 /\ (NextNew = 0 \/ hist.wfail)
Delivered == (Quiescent /\ lost = 0 /\ hist.crashes = 0)
                => \A j \in Files : fs[j] \in {"final", "moved"} => (dt[j].fin = "full" /\ dt[j].stage = "none")
\* witnesses
W_NeverCrashMidMove == ~(hist.down /\ \E j \in Files : fs[j] = "moved" /\ dt[j].fin = "none")
W_NeverArchivedWhileRecording == ~(\E j, i \in Files : dt[j].fin = "full" /\ fs[i] \in Live)
W_CopyNeverOverlapsWriter == ~(mpc.st = "copying" /\ last \in {"WCreate", "WWrite", "WClose", "WRename"})
W_DirNeverRemoved == ~(last = "MRmdir" /\ \E d \in {Sub(j) : j \in Files} : d \notin sd /\ \E j \in Files : Sub(j) = d /\ fs[j] = "moved")
=============================================================================
