SPECIFICATION TSpec
INVARIANT Report
INVARIANT TraceInvariant
CHECK_DEADLOCK FALSE
