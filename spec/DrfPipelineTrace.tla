--------------------------- MODULE DrfPipelineTrace ---------------------------
(* Trace specification for the composition DrfPipeline: a real recording runs under the interposer; after each completed
   file-system operation the controller turns it into the watchdog event inotify would report (or drops it) and feeds the
   pending events in FIFO order through the real event filter to a real DigitalRFMirror in move mode; the mirror's own
   rename / copy / unlink calls are crash points (one per run) after which a new mirror is started on the same trees.
   After every handler activation, crash and restart both trees are projected (per file of the recording: source final
   name / tmp. name present; archive staging, final and tmp. name absent / complete / anything else).

   One "m" event is one whole handler activation: MBegin, then MSkip or the staging operations and MPublish of DrfPipeline
   (E1 shows that the finer interleavings with the writer change nothing).  The state FOLLOWS the observed trees, so that
   validation continues after a mismatch; the invariants of DrfPipeline are evaluated as named clauses on the observed trees. *)
EXTENDS DrfPipeline, TraceBase
allvars == <<vars, tvars>>
TInit == TBInit /\ PInit([nf |-> Hdr.nf, maxlost |-> 100000, filtertmp |-> TRUE, samefs |-> Hdr.samefs, maxcrash |-> Hdr.maxcrash,
                          rmdir |-> TRUE, sub |-> Hdr.sub])

Stay == UNCHANGED vars
\* the model state that the observed trees show
ObsFs == [j \in Files |->
            IF ~(j \in 1..E.nf) THEN fs[j]
            ELSE IF fs[j] \in {"final", "moved"} THEN (IF E.src[j] = 1 THEN "final" ELSE "moved")
            ELSE IF fs[j] \in Live /\ E.stmp[j] = 0 THEN "stolen"
            ELSE fs[j]]
ObsDt == [j \in Files |->
            IF ~(j \in 1..E.nf) THEN dt[j]
            ELSE [stage |-> E.dst[j][1], fin |-> E.dst[j][2], ltmp |-> E.dst[j][3]]]
\* (the subdirectory of a file the harness does not know yet - only its mkdir has been seen - is not observed)
SeenSubs == {Sub(j) : j \in {i \in Files : i \in 1..E.nf}}
ObsSd == {Sub(j) : j \in {i \in Files : i \in 1..E.nf /\ E.dirs[i] = 1}} \cup (sd \ SeenSubs)
Follow == fs' = ObsFs /\ dt' = ObsDt /\ sd' = ObsSd
TreeClauses ==
  Names({
    <<"C15-pipeline-WriterUndisturbed-mirror-took-a-file-in-progress", \E j \in Files : fs'[j] = "stolen">>,
    <<"C17-pipeline-ArchiveFinalComplete-final-archive-name-with-incomplete-content", ~ArchiveFinalComplete'>>,
    <<"C15-pipeline-NoTmpNameArchived", ~NoTmpNameArchived'>>,
    <<"C17-pipeline-NoLoss-finalized-file-intact-nowhere", ~NoLoss'>>,
    <<"C17-pipeline-ArchiveStable-complete-archive-file-changed", \E j \in Files : dt[j].fin = "full" /\ dt'[j].fin # "full">>,
    <<"C17-pipeline-source-file-reappeared", \E j \in Files : fs[j] = "moved" /\ fs'[j] = "final">>,
    <<"C17-pipeline-DirsConsistent-subdirectory-of-a-source-name-removed", ~DirsConsistent'>>})

TW ==  \* a writer operation, with whether its event reached the queue
  /\ E.ev = "w"
  /\ CASE E.k = "mkdir" ->      \* the writer makes sure the subdirectory of its next file exists
            IF Cur # 0 \/ NextNew # E.j THEN RejU({"harness-mkdir-for-an-unexpected-file"}) /\ Stay
            ELSE WMkdir /\ Adv
       [] E.k = "create" ->
            IF ~((Cur = E.j /\ fs[E.j] = "dir") \/ (Cur = 0 /\ NextNew = E.j)) \/ Sub(E.j) \notin sd
            THEN RejU({"harness-writer-created-an-unexpected-file"}) /\ Stay
            ELSE /\ fs' = [fs EXCEPT ![E.j] = "open"] /\ EmitAs(Evt("created", E.j, TRUE), E.delivered)
                 /\ last' = "WCreate" /\ UNCHANGED <<cfg, sd, dt, mpc, hist, rd>> /\ Adv
       [] E.k = "write" ->
            IF Cur # E.j \/ fs[E.j] \notin {"open", "written"} THEN RejU({"harness-write-to-a-file-that-is-not-open"}) /\ Stay
            ELSE /\ fs' = [fs EXCEPT ![E.j] = "written"] /\ EmitAs(Evt("modified", E.j, TRUE), E.delivered)
                 /\ last' = "WWrite" /\ UNCHANGED <<cfg, sd, dt, mpc, hist, rd>> /\ Adv
       [] E.k = "close" ->
            IF Cur # E.j \/ fs[E.j] \notin {"open", "written"} THEN RejU({"harness-close-of-a-file-that-is-not-open"}) /\ Stay
            ELSE WClose /\ Adv
       [] E.k = "rename" ->
            IF Cur # E.j \/ fs[E.j] # "closed" THEN RejU({"harness-rename-before-close"}) /\ Stay
            ELSE /\ fs' = [fs EXCEPT ![E.j] = "final"] /\ EmitAs(Evt("moved", E.j, FALSE), E.delivered)
                 /\ last' = "WRename" /\ UNCHANGED <<cfg, sd, dt, mpc, hist, rd>> /\ Adv
       [] OTHER -> RejU({"unknown-event"}) /\ Stay

TWFail ==  \* a file-system operation of the writer on its own file failed: only the mirror can have caused that
  /\ E.ev = "wfail"
  /\ IF E.op = "open" /\ E.j \in Files /\ Cur = E.j /\ fs[E.j] = "dir" /\ Sub(E.j) \notin sd
     THEN WCreateFails /\ Adv       \* observation O1: the mirror removed the emptied subdirectory between mkdir and create
     ELSE /\ hist' = [hist EXCEPT !.wfail = TRUE] /\ last' = "WFail"
          /\ UNCHANGED <<cfg, fs, sd, dt, evq, lost, mpc, rd>>
          /\ AdvNote({"C17-pipeline-WriterUndisturbed-writer-operation-failed"})

\* the trees a complete activation of the mirror's handlers for event e leads to (DrfPipeline: MBegin; MSkip | staging; MPublish)
After(e) ==
  IF ~(Deliverable(e) /\ e.k \in {"created", "modified", "moved"}) THEN [fs |-> fs, dt |-> dt, sd |-> sd]
  ELSE LET skip == ~Exists(e.j, e.tmp) \/ DstName(e.j, e.tmp) = "full"
           f2 == IF skip THEN fs ELSE [fs EXCEPT ![e.j] = IF e.tmp THEN "stolen" ELSE "moved"]
           d2 == IF skip THEN dt
                 ELSE [dt EXCEPT ![e.j] = IF e.tmp THEN [@ EXCEPT !.ltmp = "part", !.stage = "none"]
                                          ELSE [@ EXCEPT !.fin = "full", !.stage = "none"]]
           left == {j \in Files : Sub(j) = Sub(e.j) /\ f2[j] \in Live \cup {"final"}}
       IN [fs |-> f2, dt |-> d2, sd |-> IF left = {} THEN sd \ {Sub(e.j)} ELSE sd]
RemoveFirst(q, e) == LET i == CHOOSE i \in 1..Len(q) : q[i] = e /\ \A k \in 1..(i - 1) : q[k] # e
                     IN SubSeq(q, 1, i - 1) \o SubSeq(q, i + 1, Len(q))
InQ(e) == \E i \in 1..Len(evq) : evq[i] = e
TM ==  \* the mirror handled one pending event (FIFO from the watcher; the replay of a restart comes in the mirror's own order)
  /\ E.ev = "m"
  /\ LET e == Evt(E.k, E.j, E.tmp) IN
     IF ~(E.j \in Files) \/ ~InQ(e) \/ (~E.replay /\ Head(evq) # e) \/ hist.down
     THEN RejU({"harness-event-order"}) /\ Stay
     ELSE /\ evq' = RemoveFirst(evq, e)
          /\ Follow /\ mpc' = Idle /\ last' = "MPublish"
          /\ UNCHANGED <<cfg, lost, hist, rd>>
          /\ AdvNote(TreeClauses \cup Names({
               <<"C17-pipeline-effect-of-the-mirror-differs-from-the-specification",
                 After(e).fs # fs' \/ After(e).dt # dt' \/ (After(e).sd \cap SeenSubs) # (sd' \cap SeenSubs)>>,
               <<"C17-pipeline-handler-raised", E.raised>>}))
TC ==  \* the mirror died inside (or in front of) an activation: whatever prefix of its operations ran, nothing may be lost
  /\ E.ev = "c"
  /\ IF hist.crashes >= cfg.maxcrash THEN RejU({"harness-more-crashes-than-announced"}) /\ Stay
     ELSE /\ Follow /\ mpc' = Idle /\ evq' = <<>>
          /\ hist' = [hist EXCEPT !.crashes = @ + 1, !.down = TRUE]
          /\ last' = "MCrash" /\ UNCHANGED <<cfg, lost, rd>>
          /\ AdvNote(TreeClauses)
TRestart ==
  /\ E.ev = "restart"
  /\ IF ~hist.down THEN RejU({"harness-restart-of-a-running-mirror"}) /\ Stay
     ELSE /\ evq' = SrcEvents /\ hist' = [hist EXCEPT !.down = FALSE]
          /\ last' = "MRestart" /\ UNCHANGED <<cfg, fs, sd, dt, lost, mpc, rd>> /\ Adv
TEnd ==  \* the recording is closed and every pending event handled
  /\ E.ev = "end"
  /\ Follow /\ last' = "End" /\ UNCHANGED <<cfg, evq, lost, mpc, hist, rd>>
  /\ AdvNote(TreeClauses \cup Names({
       <<"harness-events-left-at-the-end", evq # <<>> >>,
       <<"C17-pipeline-Delivered-finalized-file-not-in-the-archive", ~Delivered'>>,
       <<"C17-pipeline-tmp-left-in-the-archive", hist.crashes = 0 /\ \E j \in Files : dt'[j].stage # "none">>}))
TR ==  \* a reader pass on the archive: never fails, sees exactly the files published there, never partial content
  /\ E.ev = "r" /\ Stay
  /\ AdvNote(Names({
       <<"C17-pipeline-archive-reader-failed", ~E.ok>>,
       <<"C17-pipeline-archive-reader-saw-something-else-than-the-archived-files",
         E.ok /\ ~E.nochannel /\ SeqSet(E.listed) # {j \in Files : dt[j].fin = "full"}>>}))

TOther == E.ev \notin {"w", "wfail", "m", "c", "restart", "end", "r"} /\ Rej({"unknown-event"}) /\ Stay
TNext == (HasEvent /\ (TW \/ TWFail \/ TM \/ TC \/ TRestart \/ TEnd \/ TR \/ TOther)) \/ (Finish /\ Stay)
TSpec == TInit /\ [][TNext]_allvars
TraceInvariant == Running => TypeOK
=============================================================================
