------------------------------ MODULE DrfSystem ------------------------------
(***************************************************************************)
(* Composition beyond the listed properties: a live recording, the file    *)
(* events it causes, the event filter, a ringbuffer enforcing a per-channel *)
(* file-count limit, and a polling reader - all on one channel directory.  *)
(*                                                                         *)
(*   writer      the publication protocol of DrfFs for files 1..NF in time *)
(*               order: CreateTmp, PWrite, CloseFd, Rename                 *)
(*   watcher     every file-system operation appends the event inotify     *)
(*               would report to a FIFO (created tmp, modified tmp,        *)
(*               moved tmp -> final, deleted final); events may be lost    *)
(*   filter      EventFilter: events on tmp. names are dropped, the        *)
(*               finalizing move is delivered as creation of the final     *)
(*               name (C15)                                                *)
(*   ringbuffer  Ringbuffer with a count limit: tracks delivered files,    *)
(*               expires oldest first (C16); its deletions are file-system *)
(*               operations too and produce `deleted` events               *)
(*   reader      lists the final names, then opens them one by one; a name *)
(*               that vanished meanwhile is skipped (C09 with deletion)    *)
(*                                                                         *)
(* What the composition must guarantee (none of it follows from one        *)
(* component alone):                                                       *)
(*   RbNeverTouchesLiveFile  the ringbuffer only ever deletes final files  *)
(*   ReaderNeverSeesPartial  whatever the reader opens is complete         *)
(*   BoundedRetention        once the events are drained at most Count     *)
(*                           final files remain (if no event was lost)     *)
(*   NewestKept              the newest finalized file is never expired    *)
(*   RbTracksOnlyFinal       the ringbuffer never tracks a file in progress *)
(***************************************************************************)
EXTENDS Integers, Sequences, FiniteSets, TLC

VARIABLES cfg,      \* never changes: [nf: files of the recording in time order, count: ringbuffer count limit (>= 1),
                    \*   maxlost: events the watcher may lose, filtertmp: TRUE = the filter drops tmp. names (the real filter)]
          fs,       \* fs[j] \in {"none", "open", "written", "closed", "final", "expired"}
          evq,      \* FIFO of pending events [k, j, tmp]
          lost,     \* number of events lost so far
          rbq,      \* ringbuffer queue: sequence of tracked files (ascending)
          rd,       \* reader: [listed: set, opened: set, bad: BOOLEAN (opened something incomplete)]
          last
vars == <<cfg, fs, evq, lost, rbq, rd, last>>
NF == cfg.nf
Count == cfg.count
MaxLost == cfg.maxlost
FilterTmp == cfg.filtertmp
Files == 1..NF

SInit(c) == /\ cfg = c /\ fs = [j \in 1..c.nf |-> "none"] /\ evq = <<>> /\ lost = 0 /\ rbq = <<>>
        /\ rd = [listed |-> {}, opened |-> {}, bad |-> FALSE] /\ last = "Init"

Ev(k, j, tmp) == [k |-> k, j |-> j, tmp |-> tmp]
Emit(e) == \/ evq' = Append(evq, e) /\ lost' = lost
           \/ lost < MaxLost /\ evq' = evq /\ lost' = lost + 1
EmitAs(e, delivered) == IF delivered THEN evq' = Append(evq, e) /\ lost' = lost ELSE evq' = evq /\ lost' = lost + 1

\* ---- writer (one file at a time, in order) ----
Live == {"open", "written", "closed"}
Cur == IF \E j \in Files : fs[j] \in Live THEN CHOOSE j \in Files : fs[j] \in Live ELSE 0
NextNew == IF \E j \in Files : fs[j] = "none" THEN CHOOSE j \in Files : fs[j] = "none" /\ \A i \in Files : fs[i] = "none" => i >= j ELSE 0
WCreate == /\ Cur = 0 /\ NextNew # 0
           /\ fs' = [fs EXCEPT ![NextNew] = "open"] /\ Emit(Ev("created", NextNew, TRUE))
           /\ last' = "WCreate" /\ UNCHANGED <<cfg, rbq, rd>>
WWrite == /\ Cur # 0 /\ fs[Cur] \in {"open", "written"} /\ fs' = [fs EXCEPT ![Cur] = "written"] /\ Emit(Ev("modified", Cur, TRUE))
          /\ last' = "WWrite" /\ UNCHANGED <<cfg, rbq, rd>>
WClose == /\ Cur # 0 /\ fs[Cur] \in {"open", "written"} /\ fs' = [fs EXCEPT ![Cur] = "closed"]
          /\ last' = "WClose" /\ UNCHANGED <<cfg, evq, lost, rbq, rd>>
WRename == /\ Cur # 0 /\ fs[Cur] = "closed" /\ fs' = [fs EXCEPT ![Cur] = "final"]
           /\ Emit(Ev("moved", Cur, FALSE))          \* tmp.x -> x
           /\ last' = "WRename" /\ UNCHANGED <<cfg, rbq, rd>>

\* ---- filter + ringbuffer: handle the oldest pending event ----
Deliverable(e) == IF FilterTmp THEN ~e.tmp ELSE TRUE
RECURSIVE Expire(_, _)
Expire(q, f) == IF Len(q) > Count THEN Expire(Tail(q), f \cup {Head(q)}) ELSE [q |-> q, del |-> f]
InsertSorted(q, j) == LET lo == SelectSeq(q, LAMBDA x : x < j)  hi == SelectSeq(q, LAMBDA x : x > j) IN lo \o <<j>> \o hi
Handle ==
  /\ evq # <<>>
  /\ LET e == Head(evq) IN
     /\ IF Deliverable(e) /\ e.k \in {"created", "moved", "modified"} /\ fs[e.j] # "none" /\ fs[e.j] # "expired"
        THEN LET r == Expire(InsertSorted(rbq, e.j), {}) IN
             /\ rbq' = r.q
             /\ fs' = [j \in Files |-> IF j \in r.del THEN "expired" ELSE fs[j]]
             \* the ringbuffer's own deletions are reported by the watcher as well
             /\ evq' = Tail(evq) \o [i \in 1..Cardinality(r.del) |-> Ev("deleted", 0, FALSE)]
        ELSE IF e.k = "deleted" THEN rbq' = rbq /\ fs' = fs /\ evq' = Tail(evq)
        ELSE rbq' = rbq /\ fs' = fs /\ evq' = Tail(evq)
  /\ last' = "Handle" /\ UNCHANGED <<cfg, lost, rd>>

\* ---- reader: list, then open one by one (a vanished name is skipped) ----
RList == /\ rd' = [listed |-> {j \in Files : fs[j] = "final"}, opened |-> {}, bad |-> rd.bad]
         /\ last' = "RList" /\ UNCHANGED <<cfg, fs, evq, lost, rbq>>
ROpen == /\ \E j \in rd.listed \ rd.opened :
              rd' = [rd EXCEPT !.opened = @ \cup {j}, !.bad = @ \/ fs[j] \in Live]
         /\ last' = "ROpen" /\ UNCHANGED <<cfg, fs, evq, lost, rbq>>

\* bounded exploration: one write per file
MCWWrite == Cur # 0 /\ fs[Cur] = "open" /\ WWrite
Next == WCreate \/ MCWWrite \/ WClose \/ WRename \/ Handle \/ RList \/ ROpen
\* (Init is supplied by the instantiating module: MCDrfSystem or DrfSystemTrace)

\* ---- properties of the composition ----
TypeOK == \A j \in Files : fs[j] \in {"none", "open", "written", "closed", "final", "expired"}
QueueBound == Len(evq) <= 4
\* only finalized files are ever expired: a file goes to "expired" only from "final"
RbNeverTouchesLiveFile == [][\A j \in Files : fs'[j] = "expired" => fs[j] \in {"final", "expired"}]_vars
ReaderNeverSeesPartial == ~rd.bad
\* the ringbuffer's bookkeeping never holds a file that is still being written (needs the filter to drop tmp. names)
RbTracksOnlyFinal == \A i \in 1..Len(rbq) : fs[rbq[i]] = "final"
Drained == evq = <<>> /\ Cur = 0 /\ NextNew = 0
BoundedRetention == (Drained /\ lost = 0) => Cardinality({j \in Files : fs[j] = "final"}) <= Count
NewestKept == \A j \in Files : fs[j] = "expired" => \E i \in Files : i > j /\ fs[i] \in {"final", "expired"}
\* witnesses
W_NeverExpires == \A j \in Files : fs[j] # "expired"
W_ReaderNeverSkips == ~(\E j \in rd.listed \ rd.opened : fs[j] = "expired")
=============================================================================
