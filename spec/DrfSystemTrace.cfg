SPECIFICATION TSpec
INVARIANT Report
INVARIANT TraceInvariant
PROPERTY RbNeverTouchesLiveFile
CHECK_DEADLOCK FALSE
