--------------------------- MODULE DrfSystemTrace ---------------------------
(* Trace specification for the composition (DrfSystem): a real recording runs under the interposer; after each completed
   file-system operation the controller turns it into the watchdog event inotify would report (or drops it), feeds the
   pending events in FIFO order to a real DigitalRFRingbufferHandler with a count limit through its real event filter
   (dispatch), logs the handler's deletions and queue, and lets a DigitalRFReader pass in between. *)
EXTENDS DrfSystem, TraceBase
allvars == <<vars, tvars>>
TInit == TBInit /\ SInit([nf |-> Hdr.nf, count |-> Hdr.count, maxlost |-> 100000, filtertmp |-> TRUE])

Stay == UNCHANGED vars
TW ==  \* a writer operation, with whether its event reached the queue
  /\ E.ev = "w"
  /\ CASE E.k = "create" ->
            IF Cur # 0 \/ NextNew # E.j THEN Rej({"system-writer-created-an-unexpected-file"}) /\ Stay
            ELSE /\ fs' = [fs EXCEPT ![E.j] = "open"] /\ EmitAs(Ev("created", E.j, TRUE), E.delivered)
                 /\ last' = "WCreate" /\ UNCHANGED <<cfg, rbq, rd>> /\ Adv
       [] E.k = "write" ->
            IF Cur # E.j \/ fs[E.j] \notin {"open", "written"} THEN Rej({"system-write-to-a-file-that-is-not-open"}) /\ Stay
            ELSE /\ fs' = [fs EXCEPT ![E.j] = "written"] /\ EmitAs(Ev("modified", E.j, TRUE), E.delivered)
                 /\ last' = "WWrite" /\ UNCHANGED <<cfg, rbq, rd>> /\ Adv
       [] E.k = "close" ->
            IF Cur # E.j \/ fs[E.j] \notin {"open", "written"} THEN Rej({"system-close-of-a-file-that-is-not-open"}) /\ Stay
            ELSE WClose /\ Adv
       [] E.k = "rename" ->
            IF Cur # E.j \/ fs[E.j] # "closed" THEN Rej({"system-rename-before-close"}) /\ Stay
            ELSE /\ fs' = [fs EXCEPT ![E.j] = "final"] /\ EmitAs(Ev("moved", E.j, FALSE), E.delivered)
                 /\ last' = "WRename" /\ UNCHANGED <<cfg, rbq, rd>> /\ Adv
       [] OTHER -> Rej({"unknown-event"}) /\ Stay

TH ==  \* the ringbuffer handled the oldest pending event
  /\ E.ev = "h"
  /\ IF evq = <<>> \/ Head(evq).k # E.k \/ (E.k # "deleted" /\ (Head(evq).j # E.j \/ Head(evq).tmp # E.tmp))
     THEN Rej({"harness-event-order"}) /\ Stay
     ELSE /\ Handle
          /\ AdvNote(Names({
               <<"C16-system-ringbuffer-deleted-a-file-in-progress-or-unexpected", {j \in Files : fs'[j] = "expired" /\ fs[j] # "expired"} # SeqSet(E.del)>>,
               <<"C16-system-ringbuffer-tracks-a-file-in-progress", \E i \in 1..Len(E.rbq) : E.rbq[i] \in Files /\ fs'[E.rbq[i]] \in Live>>,
               <<"C15-system-filter-delivered-differently", E.rbq # rbq'>>,
               <<"C16-system-handler-raised", E.raised>>}))

TR ==  \* a reader pass between two operations: never fails, sees exactly the files that are final and not expired
  /\ E.ev = "r" /\ Stay
  /\ AdvNote(Names({
       <<"C09-system-reader-failed", ~E.ok>>,
       <<"C09-system-reader-saw-something-else-than-the-finalized-files", E.ok /\ SeqSet(E.listed) # {j \in Files : fs[j] = "final"}>>}))

TOther == E.ev \notin {"w", "h", "r"} /\ Rej({"unknown-event"}) /\ Stay
TNext == (HasEvent /\ (TW \/ TH \/ TR \/ TOther)) \/ (Finish /\ Stay)
TSpec == TInit /\ [][TNext]_allvars
TraceInvariant == Running => (TypeOK /\ RbTracksOnlyFinal /\ NewestKept /\ ReaderNeverSeesPartial)
=============================================================================
