--------------------------- MODULE EventFilter ---------------------------
(***************************************************************************)
(* The file-event filter of watch / mirror / ringbuffer                    *)
(* (python/digital_rf/watchdog_drf.py, DigitalRFEventHandler.dispatch) as  *)
(* a function defined from Listing!Listable.  Property C15.                *)
(*                                                                         *)
(*   D        sequence of path descriptors (same record as a file of an    *)
(*            abstract tree in Listing: kind, t, tmp, ext, tok, depth)     *)
(*   ev       [k, dir, s, d]: event kind "created" | "modified" |          *)
(*            "deleted" | "moved", directory event?, source descriptor,    *)
(*            destination descriptor (moves only, else 0)                  *)
(*   o        the options of a listing (kinds and window; rec/rev unused)  *)
(*                                                                         *)
(* Deliver(D, ev, o) is the SET of allowed outcomes [k, p, q]; it is a     *)
(* singleton except in the corners the property leaves open: HOW a move    *)
(* whose two ends both match the grammar but lie on different sides of the *)
(* time window is reported (not WHETHER: see below), and the legacy        *)
(* metadata.h5 with only one property flag on.                             *)
(***************************************************************************)
EXTENDS Listing

Nothing == [k |-> "none", p |-> 0, q |-> 0]
Out(k, p, q) == [k |-> k, p |-> p, q |-> q]

\* metadata.h5 with exactly one of the two property flags on: open (see Listing!KindSure)
Unsure(f, o) == NameListable(f, o) /\ ~KindSure(f, o)

Deliver(D, ev, o) ==
  IF ev.dir THEN {Nothing}
  ELSE IF ev.k # "moved" THEN
    LET f == D[ev.s] IN
      IF Unsure(f, o) THEN {Nothing, Out(ev.k, ev.s, 0)}
      ELSE IF Listable(f, o) THEN {Out(ev.k, ev.s, 0)} ELSE {Nothing}
  ELSE
    LET f == D[ev.s]  g == D[ev.d]
        nf == NameListable(f, o)  ng == NameListable(g, o)
        mf == Listable(f, o)      mg == Listable(g, o)
        all == {Nothing, Out("moved", ev.s, ev.d), Out("created", ev.d, 0), Out("deleted", ev.s, 0)}
    IN  IF Unsure(f, o) \/ Unsure(g, o) THEN all
        ELSE IF nf /\ ng THEN (IF mf /\ mg THEN {Out("moved", ev.s, ev.d)}
                               ELSE IF ~mf /\ ~mg THEN {Nothing}
                               \* window-split move.  The file is at the destination now and the property speaks of the
                               \* path a listing would show it at: into the window - accepted (as a move or as a creation);
                               \* out of the window - nothing may say that a listable file exists at the destination
                               ELSE IF mg THEN {Out("moved", ev.s, ev.d), Out("created", ev.d, 0)}
                               ELSE {Nothing, Out("deleted", ev.s, 0)})
        ELSE IF nf THEN (IF mf THEN {Out("deleted", ev.s, 0)} ELSE {Nothing})   \* tracked file renamed away
        ELSE IF ng THEN (IF mg THEN {Out("created", ev.d, 0)} ELSE {Nothing})   \* e.g. the finalizing rename tmp.x -> x
        ELSE {Nothing}

\* what a listing of a tree holding exactly this one path in a channel of the matching kind says:
\* the set of allowed answers to "is it listed?"
ListedAlone(f, o) ==
  IF Unsure(f, o) THEN {TRUE, FALSE}
  ELSE IF Listable(f, o) THEN {TRUE}
  ELSE IF DataName(f) /\ f.kind = "md" /\ KindFlag(f, o) /\ o.hs /\ f.t < o.s THEN {TRUE}   \* the forward-fill file
  ELSE {FALSE}
ForwardFillOnly(f, o) == ~Listable(f, o) /\ DataName(f) /\ f.kind = "md" /\ KindFlag(f, o) /\ o.hs /\ f.t < o.s
=============================================================================
