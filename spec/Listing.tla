--------------------------- MODULE Listing ---------------------------
(***************************************************************************)
(* Functional specification of listing a Digital RF / Digital Metadata     *)
(* directory tree (python/digital_rf/list_drf.py: lsdrf / ilsdrf).         *)
(* Property C14; reused by EventFilter (C15) and Transfer (C18).           *)
(*                                                                         *)
(* State-free: every operator takes the abstract tree T, the options o and *)
(* the listing root R.                                                     *)
(*                                                                         *)
(*   T.chans[c]  = [root]         candidate channel directories (any        *)
(*                                directory of the tree that holds files or *)
(*                                subdirectories); whether it IS a channel  *)
(*                                follows from the property files in it     *)
(*   T.subs[s]   = [ch, t, ok]    subdirectory s of directory ch; ok = the  *)
(*                                name has the timestamp form; t = its time *)
(*                                in ms (rebased)                           *)
(*   T.files[i]  = [ch, sd, kind, pfx, t, tmp, ext, tok, depth]            *)
(*        ch    directory (index into chans) the file belongs to           *)
(*        sd    subdirectory (index into subs), 0 = directly in ch         *)
(*        kind  "rf" (name@secs.mmm.h5) | "md" (name@secs.h5) |            *)
(*              "drfprop" | "dmdprop" | "legacy" (metadata.h5) | "other"   *)
(*        pfx   id of the part of the name before '@' (ties, name order)   *)
(*        t     time in the name, ms, rebased (data kinds only)            *)
(*        tmp   name starts with 'tmp.'                                    *)
(*        ext   name ends with '.h5'                                       *)
(*        tok   the time part of the name is well formed                   *)
(*        depth the file sits at the depth the format prescribes: data     *)
(*              files in a timestamped subdirectory of ch, property files  *)
(*              directly in ch                                             *)
(*   o = [drf, dmd, dp, mp, rec, rev, hs, s, he, e]                        *)
(*        include_drf / include_dmd; dp, mp: include_*_properties with     *)
(*        0 = False, 1 = True, 2 = None (use the value of drf / dmd);      *)
(*        recursive; reverse; hs/he: a start/end time is given; s, e in ms *)
(*   R = [top, mem]  the directory listed: mem = directories at or below   *)
(*        it (a sequence), top = the listed directory itself (0 if it is   *)
(*        not one of chans)                                                *)
(*                                                                         *)
(* The property leaves a few choices open; the specification therefore has *)
(* a MUST set and a MAY set, and a result r is correct iff                 *)
(*        Must \subseteq r \subseteq May,  no duplicates, ordered.         *)
(* Open choices (DESIGN.md section 6): the forward-fill file when a        *)
(* metadata file sits exactly at `start`; forward fill in a channel that   *)
(* lists RF and metadata files together (legacy metadata.h5 or both        *)
(* property files); the legacy metadata.h5 when only one of the two        *)
(* property flags is on; a data file of the other kind in a channel of one *)
(* kind; order among files with equal times and among channels.            *)
(***************************************************************************)
EXTENDS Integers, Sequences, FiniteSets, TLC, SequencesExt, FiniteSetsExt

PropKinds == {"drfprop", "dmdprop", "legacy"}
DataKinds == {"rf", "md"}

LFs(T) == 1..Len(T.files)
LF(T, i) == T.files[i]
LMem(R) == {R.mem[k] : k \in 1..Len(R.mem)}

(***************************************************************************)
(* File-name grammar on a descriptor (no tree needed: shared with C15)     *)
(***************************************************************************)
Final(f)    == ~f.tmp /\ f.ext
PropName(f) == f.kind \in PropKinds /\ Final(f) /\ f.depth
DataName(f) == f.kind \in DataKinds /\ Final(f) /\ f.tok /\ f.depth

IncDP(o) == IF o.dp = 2 THEN o.drf ELSE o.dp = 1
IncMP(o) == IF o.mp = 2 THEN o.dmd ELSE o.mp = 1

KindFlag(f, o) ==
  CASE f.kind = "rf"      -> o.drf
    [] f.kind = "md"      -> o.dmd
    [] f.kind = "drfprop" -> IncDP(o)
    [] f.kind = "dmdprop" -> IncMP(o)
    [] f.kind = "legacy"  -> IncDP(o) \/ IncMP(o)
    [] OTHER              -> FALSE
\* metadata.h5 is the properties file of both pre-2.5 formats: certain only when both flags ask for it
KindSure(f, o) == f.kind = "legacy" => (IncDP(o) /\ IncMP(o))

InWin(t, o) == (o.hs => t >= o.s) /\ (o.he => t <= o.e)

\* would a listing with these kinds and this window list a finalized file with this name
\* (inside a channel directory of the matching kind; forward fill aside)
NameListable(f, o) == (DataName(f) \/ PropName(f)) /\ KindFlag(f, o)
Listable(f, o)     == NameListable(f, o) /\ (f.kind \in DataKinds => InWin(f.t, o))

(***************************************************************************)
(* Channels                                                                *)
(***************************************************************************)
ChanProps(T, c) == {LF(T, i).kind : i \in {j \in LFs(T) : LF(T, j).ch = c /\ PropName(LF(T, j))}}
IsChan(T, c)  == ChanProps(T, c) # {}
DrfChan(T, c) == ChanProps(T, c) \cap {"drfprop", "legacy"} # {}
DmdChan(T, c) == ChanProps(T, c) \cap {"dmdprop", "legacy"} # {}
Reach(c, o, R) == c \in LMem(R) /\ (c = R.top \/ o.rec)

KindChan(T, f) == IF f.kind = "rf" THEN DrfChan(T, f.ch) ELSE DmdChan(T, f.ch)

\* everything about channels the options and the listed directory determine, computed once per judgement:
\*   reach = directories the listing visits; any/drf/dmd = visited channel directories (of that kind)
ChanCtx(T, o, R) ==
  LET pk == [c \in 1..Len(T.chans) |-> {LF(T, j).kind : j \in {j \in LFs(T) : LF(T, j).ch = c /\ PropName(LF(T, j))}}]
      rc == {c \in LMem(R) : c = R.top \/ o.rec}
  IN  [reach |-> rc,
       any |-> {c \in rc : pk[c] # {}},
       drf |-> {c \in rc : pk[c] \cap {"drfprop", "legacy"} # {}},
       dmd |-> {c \in rc : pk[c] \cap {"dmdprop", "legacy"} # {}}]

\* data files the options select, window aside; G = subdirectories that vanish during the listing
SelK(T, o, K, G) ==
  {i \in LFs(T) : LET f == LF(T, i) IN
     /\ f.kind \in DataKinds /\ f.sd \notin G
     /\ ((f.kind = "rf" /\ o.drf /\ f.ch \in K.drf) \/ (f.kind = "md" /\ o.dmd /\ f.ch \in K.dmd))
     /\ DataName(f)}
Sel(T, o, R, G) == SelK(T, o, ChanCtx(T, o, R), G)
\* ... when a file of the other kind in a channel is counted as well (open choice)
SelMayK(T, o, K) ==
  {i \in LFs(T) : LET f == LF(T, i) IN f.kind \in DataKinds /\ f.ch \in K.any /\ KindFlag(f, o) /\ DataName(f)}

Win(T, o, R, G) == {i \in Sel(T, o, R, G) : InWin(LF(T, i).t, o)}

PropsMayK(T, o, K)  == {i \in LFs(T) : LET f == LF(T, i) IN f.kind \in PropKinds /\ f.ch \in K.reach /\ PropName(f) /\ KindFlag(f, o)}
PropsMay(T, o, R)   == PropsMayK(T, o, ChanCtx(T, o, R))

(***************************************************************************)
(* Forward fill: for a metadata channel the latest file before `start`.    *)
(* S below is a Sel set.                                                   *)
(***************************************************************************)
LatestOf(T, S) == IF S = {} THEN {} ELSE LET m == Max({LF(T, i).t : i \in S}) IN {i \in S : LF(T, i).t = m}

Bef(T, o, S, c)   == IF o.hs THEN {i \in S : LF(T, i).ch = c /\ LF(T, i).t < o.s} ELSE {}
MdBef(T, o, S, c) == {i \in Bef(T, o, S, c) : LF(T, i).kind = "md"}
MdAtStart(T, o, S, c) == \E i \in S : LF(T, i).ch = c /\ LF(T, i).kind = "md" /\ LF(T, i).t = o.s
\* RF files listed together with the metadata files, at or before start: which file "the latest" is, is open
Mixed(T, o, S, c)     == \E i \in S : LF(T, i).ch = c /\ LF(T, i).kind = "rf" /\ LF(T, i).t <= o.s

\* S0: selection on the whole tree, SG: on the tree without the vanished subdirectories
FFRequired(T, o, K, S0, G, c) ==
  /\ G = {} /\ o.hs /\ o.dmd /\ c \in K.dmd
  /\ MdBef(T, o, S0, c) # {} /\ ~MdAtStart(T, o, S0, c) /\ ~Mixed(T, o, S0, c)
FFAllowed(T, o, K, S0, SG, c) ==
  IF o.hs /\ o.dmd /\ c \in K.dmd
  THEN LatestOf(T, Bef(T, o, S0, c)) \cup LatestOf(T, MdBef(T, o, S0, c))
       \cup (IF SG = S0 THEN {} ELSE LatestOf(T, Bef(T, o, SG, c)) \cup LatestOf(T, MdBef(T, o, SG, c)))
  ELSE {}
Chans(T) == 1..Len(T.chans)

(***************************************************************************)
(* Judging a result (a sequence of file ids, 0 = a path that is not a file *)
(* of the tree): the set of names of the violated clauses                  *)
(***************************************************************************)
RSet(r) == {r[k] : k \in 1..Len(r)}
IsData(T, i) == i \in LFs(T) /\ LF(T, i).kind \in DataKinds

OrderOK(T, r, rev) ==
  \A p \in 1..Len(r) : IsData(T, r[p]) =>
    \A q \in (p + 1)..Len(r) :
       (IsData(T, r[q]) /\ LF(T, r[p]).ch = LF(T, r[q]).ch)
         => IF rev THEN LF(T, r[p]).t >= LF(T, r[q]).t ELSE LF(T, r[p]).t <= LF(T, r[q]).t

\* why an extra file should not be there
ExtraWhy(T, o, K, i) ==
  IF i \notin LFs(T) THEN "C14-lists-a-path-that-is-no-file-of-the-tree"
  ELSE LET f == LF(T, i) IN
    IF ~(DataName(f) \/ PropName(f)) THEN "C14-lists-tmp-stray-or-malformed-name"
    ELSE IF f.ch \notin K.any THEN "C14-lists-file-outside-requested-channels"
    ELSE IF f.kind \in PropKinds THEN "C14-property-file-against-its-flag"
    ELSE IF ~KindFlag(f, o) THEN "C14-lists-excluded-kind"
    ELSE IF ~InWin(f.t, o) THEN "C14-lists-file-outside-window"
    ELSE "C14-lists-excluded-kind"

Judge(T, o, R, G, r) ==
  LET K  == ChanCtx(T, o, R)
      rs == RSet(r)
      S0 == SelK(T, o, K, {})
      SG == IF G = {} THEN S0 ELSE {i \in S0 : LF(T, i).sd \notin G}
      pmay == PropsMayK(T, o, K)
      must == {i \in SG : InWin(LF(T, i).t, o)} \cup {i \in pmay : KindSure(LF(T, i), o)}
      miss == must \ rs
      ffmiss == {c \in K.dmd : FFRequired(T, o, K, S0, G, c) /\ rs \cap LatestOf(T, MdBef(T, o, S0, c)) = {}}
      may == {i \in SelMayK(T, o, K) : InWin(LF(T, i).t, o)} \cup pmay \cup UNION {FFAllowed(T, o, K, S0, SG, c) : c \in K.dmd}
      extra == rs \ may
  IN  (IF Len(r) # Cardinality(rs) THEN {"C14-lists-a-file-twice"} ELSE {})
      \cup (IF \E i \in miss : LF(T, i).kind \in DataKinds THEN {"C14-misses-file-in-window"} ELSE {})
      \cup (IF \E i \in miss : LF(T, i).kind \in PropKinds THEN {"C14-misses-property-file"} ELSE {})
      \cup (IF ffmiss # {} THEN {"C14-misses-forward-fill-file"} ELSE {})
      \cup {ExtraWhy(T, o, K, i) : i \in extra}
      \cup (IF ~OrderOK(T, r, o.rev) THEN {"C14-order-within-channel"} ELSE {})

(***************************************************************************)
(* Reference algorithm: the per-channel subdirectory walk with pruning,    *)
(* bisection and look-back that list_drf.py implements, with the repairs   *)
(* of F05/F06.  E1 (MCListing) shows that on time-consistent trees it      *)
(* satisfies Judge for every tree and option combination of the bounded    *)
(* universe - i.e. that the set-theoretic specification above is what the  *)
(* pruning algorithm is meant to compute.  `bug` switches the two known    *)
(* defects on so that witnesses can show the model reaches them.           *)
(***************************************************************************)
KeyLt(T, a, b) == LET x == LF(T, a)  y == LF(T, b) IN
  x.t < y.t \/ (x.t = y.t /\ (x.pfx < y.pfx \/ (x.pfx = y.pfx /\ a < b)))

\* slice of an ascending sequence by the window; ff: keep the last element before start if none sits at start
SliceOf(q, tm(_), o, ff) ==
  LET n == Len(q)
      ks0 == IF o.hs THEN Cardinality({k \in 1..n : tm(q[k]) < o.s}) + 1 ELSE 1
      ks == IF o.hs /\ ff /\ (ks0 = n + 1 \/ tm(q[ks0]) > o.s) THEN (IF ks0 > 1 THEN ks0 - 1 ELSE 1) ELSE ks0
      ke0 == IF o.he THEN Cardinality({k \in 1..n : tm(q[k]) <= o.e}) ELSE n
      ke == IF ke0 < ks - 1 THEN ks - 1 ELSE ke0
  IN  <<ks, ke>>

SubsOf(T, c) == SetToSortSeq({s \in 1..Len(T.subs) : T.subs[s].ch = c /\ T.subs[s].ok},
                             LAMBDA a, b : T.subs[a].t < T.subs[b].t)
\* S: the selected files of one channel
FilesOfSub(T, S, s) == SetToSortSeq({i \in S : LF(T, i).sd = s}, LAMBDA a, b : KeyLt(T, a, b))

RECURSIVE LookBack(_, _, _, _)
LookBack(T, S, subs, k) ==
  IF k < 1 THEN <<>>
  ELSE LET fl == FilesOfSub(T, S, subs[k]) IN IF fl # <<>> THEN fl ELSE LookBack(T, S, subs, k - 1)

RECURSIVE Flat(_)
Flat(qq) == IF qq = <<>> THEN <<>> ELSE Head(qq) \o Flat(Tail(qq))

\* result: [raised, seq];  S0 = SelK on the whole tree
RefChan(T, o, K, S0, c, bug) ==
  LET ym == o.dmd /\ c \in K.dmd
      S == {i \in S0 : LF(T, i).ch = c}
      subs == SubsOf(T, c)
      sl == SliceOf(subs, LAMBDA s : T.subs[s].t, o, TRUE)
      ks == sl[1]  ke == sl[2]
      IsFirst(k) == IF bug /\ o.rev THEN k = ke ELSE k = ks      \* F05: 'k == 0' of the reversed enumeration
      Tm(i) == LF(T, i).t
      Raises(k) == bug /\ IsFirst(k) /\ ym /\ ks > 1 /\ o.hs /\ FilesOfSub(T, S, subs[k]) = <<>>     \* F06
      Per(k) == LET fl == FilesOfSub(T, S, subs[k])
                    need == IsFirst(k) /\ ym /\ ks > 1 /\ o.hs /\ (fl = <<>> \/ Tm(fl[1]) > o.s)
                    fl2 == IF need THEN LookBack(T, S, subs, ks - 1) \o fl ELSE fl
                    ss == SliceOf(fl2, Tm, o, IsFirst(k) /\ ym)
                IN  SubSeq(fl2, ss[1], ss[2])
      n == ke - ks + 1
      per == [j \in 1..n |-> Per(ks + j - 1)]
      fwd == Flat(per)
  IN  [raised |-> \E k \in ks..ke : Raises(k), seq |-> IF o.rev THEN Reverse(fwd) ELSE fwd]

RefList(T, o, R, bug) ==
  LET K == ChanCtx(T, o, R)
      S0 == SelK(T, o, K, {})
      pm == PropsMayK(T, o, K)
      cs == SetToSortSeq(K.any, LAMBDA a, b : IF o.rev THEN a > b ELSE a < b)
      props(c) == SetToSortSeq({i \in pm : LF(T, i).ch = c}, LAMBDA a, b : a < b)
      one == [c \in K.any |-> IF (o.drf /\ c \in K.drf) \/ (o.dmd /\ c \in K.dmd) THEN RefChan(T, o, K, S0, c, bug)
                              ELSE [raised |-> FALSE, seq |-> <<>>]]
      parts == [j \in 1..Len(cs) |-> props(cs[j]) \o one[cs[j]].seq]
  IN  [raised |-> \E c \in K.any : one[c].raised, seq |-> Flat(parts)]

ListSet(T, o, R) == RSet(RefList(T, o, R, FALSE).seq)

\* the trees the format produces: a file's name time lies in its subdirectory's period
TimeConsistent(T) ==
  \A i \in LFs(T) : LET f == LF(T, i) IN
    (f.kind \in DataKinds /\ f.sd # 0 /\ T.subs[f.sd].ok /\ f.tok) =>
       /\ T.subs[f.sd].t <= f.t
       /\ \A s \in 1..Len(T.subs) : (T.subs[s].ch = f.ch /\ T.subs[s].ok /\ T.subs[s].t > T.subs[f.sd].t) => f.t < T.subs[s].t
=============================================================================
