--------------------------- MODULE ListingTrace ---------------------------
(***************************************************************************)
(* Trace specification for C14 (listing) and C15 (event filter).           *)
(*                                                                         *)
(* C14 scenario: header `tree` (the abstract tree that the harness         *)
(* materialised on tmpfs, see Listing.tla) and events                      *)
(*   [ev |-> "ls", o, R, gone, f, hasr, r]                                 *)
(* one per call of the real lsdrf with options o on directory R; f / r are *)
(* the results of the call with reverse=False / reverse=True as            *)
(* [raised, res] with res the sequence of file ids of the returned paths   *)
(* (0 = a path that is not a file of the tree); gone = subdirectories that *)
(* the harness removed just before the listing read them.                  *)
(* TLC decides set, per-channel order, property files, forward fill,       *)
(* "reverse changes only the order" and "never fails".                     *)
(*                                                                         *)
(* C15 scenario: header `descs` (path descriptors) and `o` (kinds and      *)
(* window the real DigitalRFEventHandler was constructed with); events     *)
(*   [ev |-> "disp", k, dir, s, d, raised, outs]                           *)
(* one per event object passed to the real dispatch(); outs = the on_*     *)
(* calls it made, as [k, p, q] over descriptor ids;                        *)
(*   [ev |-> "lsq", d, ck, raised, listed, dlv]                            *)
(* the same question put to the real lsdrf on a tree that holds only path  *)
(* d in a channel of the matching kind, next to what the filter did with   *)
(* the creation of d.                                                      *)
(*                                                                         *)
(* Mismatches are noted (AdvNote) and validation continues; the scenario   *)
(* is rejected at its end with the names of all violated clauses.          *)
(***************************************************************************)
EXTENDS EventFilter, TraceBase

TInit == TBInit

\* ---- C14 ---------------------------------------------------------------
Tree == Hdr.tree

JudgeOne(o, R, G, x) ==
  IF x.raised THEN {"C14-listing-raised"} ELSE Judge(Tree, o, R, G, x.res)

Reversed(S) == {c \o "-reversed" : c \in S}

TLs ==
  /\ E.ev = "ls"
  /\ LET G == SeqSet(E.gone)
         of == [E.o EXCEPT !.rev = FALSE]
         or == [E.o EXCEPT !.rev = TRUE]
         a == JudgeOne(of, E.R, G, E.f)
         b == IF E.hasr THEN Reversed(JudgeOne(or, E.R, G, E.r)) ELSE {}
         c == IF E.hasr /\ ~E.f.raised /\ ~E.r.raised /\ SeqSet(E.f.res) # SeqSet(E.r.res)
              THEN {"C14-reverse-changes-the-set"} ELSE {}
     IN  AdvNote(a \cup b \cup c)

\* ---- C15 ---------------------------------------------------------------
D == Hdr.descs

DispClauses(e) ==
  LET ev == [k |-> e.k, dir |-> e.dir, s |-> e.s, d |-> e.d]
      allowed == Deliver(D, ev, Hdr.o)
      got == IF e.outs = <<>> THEN Nothing ELSE e.outs[1]
  IN  IF e.raised THEN {"C15-dispatch-raised"}
      ELSE (IF Len(e.outs) > 1 THEN {"C15-more-than-one-delivery"} ELSE {})
        \cup (IF got \in allowed THEN {}
              ELSE IF allowed = {Nothing} THEN
                     (IF e.dir THEN {"C15-delivers-directory-event"}
                      ELSE {"C15-delivers-event-for-path-the-listing-would-not-list"})
              ELSE IF e.k = "moved" /\ allowed = {Out("created", e.d, 0)} THEN {"C15-finalizing-rename-is-not-a-creation"}
              ELSE IF e.k = "moved" /\ allowed = {Out("deleted", e.s, 0)} THEN {"C15-rename-to-non-matching-name-is-not-a-deletion"}
              ELSE IF got = Nothing THEN {"C15-drops-event-for-listable-path"}
              ELSE {"C15-delivers-wrong-event"})

TDisp == E.ev = "disp" /\ AdvNote(DispClauses(E))

TLsq ==
  /\ E.ev = "lsq"
  /\ LET f == D[E.d] IN
     AdvNote(IF E.raised THEN {"C14-listing-raised"}
             ELSE (IF E.listed \notin ListedAlone(f, Hdr.o) THEN {"C14-listing-of-single-path"} ELSE {})
                  \cup (IF ~Unsure(f, Hdr.o) /\ ~ForwardFillOnly(f, Hdr.o) /\ E.listed # E.dlv
                        THEN {"C15-filter-and-listing-disagree"} ELSE {}))

TOther == E.ev \notin {"ls", "disp", "lsq"} /\ Rej({"unknown-event"})
TNext == (HasEvent /\ (TLs \/ TDisp \/ TLsq \/ TOther)) \/ Finish
TSpec == TInit /\ [][TNext]_tvars
=============================================================================
