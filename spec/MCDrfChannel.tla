--------------------------- MODULE MCDrfChannel ---------------------------
(* Bounded instance of DrfChannel for exhaustive checking (E1) and behaviour export (E2). *)
EXTENDS DrfChannel
CONSTANTS Depth, Scope

B5 == <<1, 5, 8, 11, 15, 18>>            \* 10/3 Hz, 1 s files: capacities 4,3,3,4,3
B4 == <<1, 5, 8, 11, 15>>
Cfgs ==
  IF Scope = "quick" THEN {[bound |-> B4, mode |-> m, nd |-> 1] : m \in {"gapped", "contU"}}
  ELSE IF Scope = "sim" THEN {[bound |-> B5, mode |-> m, nd |-> n] : m \in {"gapped", "contU", "contC"}, n \in {1, 2}}
  ELSE {[bound |-> B5, mode |-> m, nd |-> n] : m \in {"gapped", "contU"}, n \in {1, 2}}

MaxLen == IF Scope = "quick" THEN 4 ELSE 6
MaxGap == IF Scope = "quick" THEN 2 ELSE 4
Starts == IF Scope = "quick" THEN {1, 3} ELSE {1, 3, 8, 9, 12}
MaxSess == IF Scope = "quick" THEN 2 ELSE 3

Init == \E c \in Cfgs : CInit(c)

\* the format does not allow the same file period to be recorded in two directories: with two directories,
\* directory 1 records windows 1..2 and directory 2 the rest
RegLo(d) == IF cfg.nd = 1 \/ d = 1 THEN Bound[1] ELSE Bound[3]
RegHi(d) == IF cfg.nd = 1 \/ d = 2 THEN Bound[NW + 1] - 1 ELSE Bound[3] - 1
InRegion(runs) == \A i \in 1..Len(runs) : RegLo(s.d) <= runs[i][1] /\ runs[i][1] + runs[i][2] - 1 <= RegHi(s.d)

NOpen == \E d \in Dirs, st \in Starts, pid \in {1, 2} :
           s.n < MaxSess /\ RegLo(d) <= st /\ st <= RegHi(d) /\ (props[d] = 0 => pid = 1) /\ Open(d, st, pid)
NOpenRefused == \E d \in Dirs, pid \in {1, 2} : s.n < MaxSess /\ OpenRefused(d, pid)
NWrite == \E g \in 0..MaxGap, n \in 1..MaxLen :
            s.open /\ InRegion(<< <<s.start + s.cnext + g, n>> >>) /\ Write(<< <<s.start + s.cnext + g, n>> >>)
NWriteBlocks ==
  \E g1 \in {0, 1}, n1 \in {1, 2}, g2 \in {0, 1, 3}, n2 \in {1, 3} :
    /\ s.open /\ cfg.mode # "quickskip"
    /\ LET a1 == s.start + s.cnext + g1
           a2 == a1 + n1 + g2
       IN  InRegion(<< <<a1, n1>>, <<a2, n2>> >>) /\ Write(<< <<a1, n1>>, <<a2, n2>> >>)
NBadWrite == \E k \in BadKinds : BadWrite(k)
NWriteEmpty == WriteEmpty
NClose == Close
NRegen == \E d \in Dirs, j \in 1..NW : RegenProps(d, j)

Next == NOpen \/ NOpenRefused \/ NWrite \/ NWriteBlocks \/ NBadWrite \/ NWriteEmpty \/ NClose \/ NRegen
Spec == Init /\ [][Next]_vars
Bounded == TLCGet("level") <= Depth

\* witnesses (must be violated): the bounded model reaches the interesting situations
W_NoGapInsideFile == \A d \in Dirs : \A j \in fin[d] : Len(WinTruth(d, j)) <= 1
W_NoMultiFileWrite == ~(last.a = "Write" /\ last.ok /\ Len(last.runs) = 1 /\ WinOf(last.runs[1][1]) < WinOf(last.runs[1][1] + last.runs[1][2] - 1))
W_NoRefusal == ~(last.a = "Write" /\ ~last.ok)
W_NoPartialRefusal == ~(last.a = "Write" /\ ~last.ok /\ s.cnext > s.next)
W_NoSecondSessionData == ~(s.n >= 2 /\ s.written > 0)
W_NoSkippedFile == \A d \in Dirs : \A j \in 2..NW - 1 : ~(j \notin fin[d] /\ (j - 1) \in fin[d] /\ (j + 1) \in fin[d])
=============================================================================
