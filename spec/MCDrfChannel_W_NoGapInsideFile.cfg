SPECIFICATION Spec
CONSTANTS Depth = 6
          Scope = "quick"
CONSTRAINT Bounded
INVARIANT W_NoGapInsideFile
CHECK_DEADLOCK FALSE
