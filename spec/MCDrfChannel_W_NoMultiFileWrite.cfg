SPECIFICATION Spec
CONSTANTS Depth = 6
          Scope = "quick"
CONSTRAINT Bounded
INVARIANT W_NoMultiFileWrite
CHECK_DEADLOCK FALSE
