SPECIFICATION Spec
CONSTANTS Depth = 6
          Scope = "quick"
CONSTRAINT Bounded
INVARIANT W_NoPartialRefusal
CHECK_DEADLOCK FALSE
