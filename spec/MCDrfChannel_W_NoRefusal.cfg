SPECIFICATION Spec
CONSTANTS Depth = 6
          Scope = "quick"
CONSTRAINT Bounded
INVARIANT W_NoRefusal
CHECK_DEADLOCK FALSE
