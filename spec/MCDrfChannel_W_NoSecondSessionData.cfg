SPECIFICATION Spec
CONSTANTS Depth = 6
          Scope = "quick"
CONSTRAINT Bounded
INVARIANT W_NoSecondSessionData
CHECK_DEADLOCK FALSE
