SPECIFICATION Spec
CONSTANTS Depth = 6
          Scope = "quick"
CONSTRAINT Bounded
INVARIANT W_NoSkippedFile
CHECK_DEADLOCK FALSE
