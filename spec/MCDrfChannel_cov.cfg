SPECIFICATION Spec
CONSTANTS Depth = 4
          Scope = "quick"
CONSTRAINT Bounded
VIEW cvars
INVARIANT TypeOK
CHECK_DEADLOCK FALSE
