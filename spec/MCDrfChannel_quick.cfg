SPECIFICATION Spec
CONSTANTS Depth = 5
          Scope = "quick"
CONSTRAINT Bounded
VIEW cvars
INVARIANT TypeOK
INVARIANT InWindow
INVARIANT Counters
INVARIANT CleanCloseComplete
INVARIANT Coherent
PROPERTY AppendOnly
PROPERTY RejectAtomic
PROPERTY FinalGrows
PROPERTY FinalFrozen
CHECK_DEADLOCK FALSE
