SPECIFICATION Spec
CONSTANTS Depth = 40
          Scope = "sim"
CHECK_DEADLOCK FALSE
