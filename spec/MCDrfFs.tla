------------------------------ MODULE MCDrfFs ------------------------------
(* E1 for C02 / C09 / C10 at the design level: every interleaving of the protocol's operations on 3 data files and the
   properties file (each possibly failing), a crash at any point and a reader that lists and then opens files, within
   small bounds.  The invariants hold because of the guards of DrfFs; the deviation actions (what the code must never do)
   are disabled unless named in Deviations, and the witness configurations show each of them breaks an invariant. *)
EXTENDS DrfFs
CONSTANTS MaxPW,        \* bound on PWrite per file
          MaxFaults,    \* bound on failing operations
          Deviations    \* subset of {"rename-open", "rename-bad", "create-final", "props-unstaged", "remove-final"}
VARIABLES npw,          \* PWrite count per file (bounding)
          rlist, ropen  \* reader: names it listed, files it has opened since
mcvars == <<vars, npw, rlist, ropen>>

C3 == [bound |-> <<1, 5, 8, 11>>, mode |-> "gapped"]
Init == FInit(C3) /\ npw = [j \in 1..3 |-> 0] /\ rlist = {} /\ ropen = {}

OkSet == {TRUE, FALSE}
WithFault(ok) == flt' = flt + (IF ok THEN 0 ELSE 1)
\* wrap a DrfFs action (which leaves flt unchanged) with the fault counter: the action's UNCHANGED flt is replaced
NData ==
  \E j \in 1..NW :
    \/ ProbeTmp(j) /\ UNCHANGED <<npw, rlist, ropen>>
    \/ \E ok \in OkSet :
         /\ \/ CreateTmp(j, ok) \/ (npw[j] < MaxPW /\ PWrite(j, ok)) \/ CloseFd(j, ok) \/ Rename(j, ok) \/ RemoveTmp(j, ok)
         /\ npw' = IF last'.a = "PWrite" THEN [npw EXCEPT ![j] = @ + 1] ELSE npw
         /\ UNCHANGED <<rlist, ropen>>
NProps == \E name \in {"Probe", "Create", "PWrite", "Close", "Rename", "Remove"} : \E ok \in {TRUE, FALSE} :
            PropsOp(name, ok) /\ UNCHANGED <<npw, rlist, ropen>>
NCrash == Crash /\ UNCHANGED <<npw, rlist, ropen>>
NRestart == Restart /\ UNCHANGED <<npw, rlist, ropen>>
\* the reader is a separate process: it keeps running after the writer died
NRList == /\ rlist' = (IF pst.st = "final" THEN Finals ELSE {}) /\ ropen' = {}
          /\ last' = [a |-> "RList"] /\ UNCHANGED <<pvars, npw>>
NROpen == \E j \in rlist \ ropen : ropen' = ropen \cup {j} /\ last' = [a |-> "ROpen", j |-> j] /\ UNCHANGED <<pvars, npw, rlist>>

\* ---- deviations: behaviours the protocol forbids (enabled only in witness configurations) ----
DevRenameOpen == "rename-open" \in Deviations /\ \E j \in 1..NW :
   /\ fst[j].st = "open" /\ fst' = [fst EXCEPT ![j].st = "final"]
   /\ last' = Op("DevRenameOpen", j, TRUE) /\ UNCHANGED <<cfg, pst, want, acc, calls, crashed, flt, npw, rlist, ropen>>
DevRenameBad == "rename-bad" \in Deviations /\ \E j \in 1..NW :
   /\ fst[j].st = "closed" /\ fst[j].bad /\ fst' = [fst EXCEPT ![j].st = "final"]
   /\ last' = Op("DevRenameBad", j, TRUE) /\ UNCHANGED <<cfg, pst, want, acc, calls, crashed, flt, npw, rlist, ropen>>
DevReopenFinal == "create-final" \in Deviations /\ \E j \in 1..NW :
   /\ fst[j].st = "final" /\ fst' = [fst EXCEPT ![j].st = "open"]
   /\ last' = Op("DevReopenFinal", j, TRUE) /\ UNCHANGED <<cfg, pst, want, acc, calls, crashed, flt, npw, rlist, ropen>>
DevPropsUnstaged == "props-unstaged" \in Deviations /\ pst.st = "none" /\ pst' = [st |-> "final", bad |-> FALSE, cl |-> FALSE]
   /\ last' = Op("DevPropsUnstaged", 0, TRUE) /\ UNCHANGED <<cfg, fst, want, acc, calls, crashed, flt, npw, rlist, ropen>>

DevPublishOrphan == "publish-orphan" \in Deviations /\ \E j \in 1..NW :
   /\ fst[j].st = "orphan" /\ fst' = [fst EXCEPT ![j].st = "final"]
   /\ last' = Op("DevPublishOrphan", j, TRUE) /\ UNCHANGED <<cfg, pst, want, acc, calls, crashed, flt, npw, rlist, ropen>>

Next == NRestart \/ DevPublishOrphan \/ (Alive /\ (NData \/ NProps \/ NCrash \/ DevRenameOpen \/ DevRenameBad \/ DevReopenFinal \/ DevPropsUnstaged)) \/ NRList \/ NROpen
\* the fault counter is advanced by the wrapper: DrfFs actions say UNCHANGED flt, so count failures in a constraint instead
Spec == Init /\ [][Next]_mcvars
FaultBound == Cardinality({j \in 1..NW : fst[j].bad}) + (IF pst.bad THEN 1 ELSE 0) <= MaxFaults

\* C09: whatever the reader listed it can open, complete and unchanged, at any later moment
ReaderNeverFails == \A j \in rlist : fst[j].st = "final" /\ fst[j].cl
ReaderSeesProps == rlist # {} => (pst.st = "final" /\ pst.cl)
\* C02: in every reachable state (= every crash point) what is under a final name is complete
CrashSafe == crashed = 1 => (FinalComplete /\ PropsPublishedComplete)
\* witnesses
W_NoCrashWithTmp == ~(crashed = 1 /\ Tmps # {})
W_NoOrphanRecreated == ~(crashed = 2 /\ \E j \in 1..NW : fst[j].st = "final" /\ last.a = "Rename" /\ last.j = j /\ Orphans # {})
W_NoOrphanRemoved == ~(last.a = "RemoveTmp" /\ crashed = 2)
W_NoFinalAfterFault == ~(Finals # {} /\ \E j \in Finals : fst[j].bad)
W_ReaderNeverListsTwo == Cardinality(rlist) < 2
=============================================================================
