SPECIFICATION Spec
CONSTANTS MaxPW = 1
          MaxFaults = 1
          Deviations = {}
CONSTRAINT FaultBound
INVARIANT W_NoCrashWithTmp
CHECK_DEADLOCK FALSE
