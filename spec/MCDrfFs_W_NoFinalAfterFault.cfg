SPECIFICATION Spec
CONSTANTS MaxPW = 1
          MaxFaults = 1
          Deviations = {}
CONSTRAINT FaultBound
INVARIANT W_NoFinalAfterFault
CHECK_DEADLOCK FALSE
