SPECIFICATION Spec
CONSTANTS MaxPW = 1
          MaxFaults = 1
          Deviations = {}
CONSTRAINT FaultBound
INVARIANT W_NoOrphanRecreated
CHECK_DEADLOCK FALSE
