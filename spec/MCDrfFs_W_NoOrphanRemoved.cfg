SPECIFICATION Spec
CONSTANTS MaxPW = 1
          MaxFaults = 1
          Deviations = {}
CONSTRAINT FaultBound
INVARIANT W_NoOrphanRemoved
CHECK_DEADLOCK FALSE
