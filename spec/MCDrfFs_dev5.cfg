SPECIFICATION Spec
CONSTANTS MaxPW = 2
          MaxFaults = 1
          Deviations = {"publish-orphan"}
CONSTRAINT FaultBound
INVARIANT TypeOK
INVARIANT FinalComplete
INVARIANT PropsPublishedComplete
INVARIANT ReaderNeverFails
INVARIANT ReaderSeesProps
INVARIANT CrashSafe
PROPERTY FinalImmutable
PROPERTY VisibilityMonotone
CHECK_DEADLOCK FALSE
