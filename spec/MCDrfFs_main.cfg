SPECIFICATION Spec
CONSTANTS MaxPW = 2
          MaxFaults = 1
          Deviations = {}
CONSTRAINT FaultBound
INVARIANT TypeOK
INVARIANT FinalComplete
INVARIANT PropsPublishedComplete
INVARIANT DataImpliesProps
INVARIANT ReaderNeverFails
INVARIANT ReaderSeesProps
INVARIANT CrashSafe
PROPERTY FinalImmutable
PROPERTY VisibilityMonotone
PROPERTY OrphanNeverPublished
CHECK_DEADLOCK FALSE
