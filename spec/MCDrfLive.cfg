SPECIFICATION Spec
INVARIANT PassOnlyFinal
INVARIANT SeesAllAfterClose
PROPERTY Monotone
CHECK_DEADLOCK FALSE
