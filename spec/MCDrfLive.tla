----------------------------- MODULE MCDrfLive -----------------------------
EXTENDS DrfLive
VARIABLE startedAfterClose    \* readers whose current pass began after the writer closed
mv == <<vars, startedAfterClose>>
Init == LInit([nfiles |-> 4, nreaders |-> 2]) /\ startedAfterClose = {}
Next == \/ (\E j \in Files : (\A i \in 1..(j - 1) : i \in fin) /\ Finalize(j)) /\ UNCHANGED startedAfterClose   \* files finalize in time order
        \/ CloseW /\ UNCHANGED startedAfterClose
        \/ \E r \in Readers : \/ BeginPass(r) /\ startedAfterClose' = IF closed THEN startedAfterClose \cup {r} ELSE startedAfterClose \ {r}
                              \/ Visit(r) /\ UNCHANGED startedAfterClose
                              \/ EndPass(r) /\ UNCHANGED startedAfterClose
Spec == Init /\ [][Next]_mv
SeesAllAfterClose == \A r \in Readers : (r \in startedAfterClose /\ scan[r].pos = 0 /\ closed) => seen[r] = fin
W_AlwaysPrefix == \A r \in Readers : \A j \in seen[r] : \A i \in 1..(j - 1) : i \in seen[r]   \* false: a pass may hold j+1 without j
=============================================================================
