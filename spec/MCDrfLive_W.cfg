SPECIFICATION Spec
INVARIANT W_AlwaysPrefix
CHECK_DEADLOCK FALSE
