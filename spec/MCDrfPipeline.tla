----------------------------- MODULE MCDrfPipeline -----------------------------
EXTENDS DrfPipeline
CONSTANTS CNF, CMaxLost, CFilterTmp, CMaxCrash, CRmdir
\* subdirectory layouts: one subdirectory for all files, one per file, a switch after the first file
Layouts == {[j \in 1..CNF |-> 1], [j \in 1..CNF |-> j], [j \in 1..CNF |-> IF j = 1 THEN 1 ELSE 2]}
Init == \E sf \in BOOLEAN : \E lay \in Layouts :
          PInit([nf |-> CNF, maxlost |-> CMaxLost, filtertmp |-> CFilterTmp, samefs |-> sf, maxcrash |-> CMaxCrash,
                 rmdir |-> CRmdir, sub |-> lay])
Spec == Init /\ [][Next]_vars
LiveSpec == Init /\ [][Next]_vars /\ Fairness
=============================================================================
