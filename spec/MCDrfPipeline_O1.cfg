SPECIFICATION Spec
CONSTANTS CNF = 2
          CMaxLost = 0
          CFilterTmp = TRUE
          CMaxCrash = 0
          CRmdir = TRUE
INVARIANT WriterUndisturbed
CHECK_DEADLOCK FALSE
