SPECIFICATION Spec
CONSTANTS CNF = 3
          CMaxLost = 0
          CFilterTmp = TRUE
          CMaxCrash = 1
          CRmdir = TRUE
INVARIANT W_NeverCrashMidMove
CHECK_DEADLOCK FALSE
