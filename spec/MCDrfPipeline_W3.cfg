SPECIFICATION Spec
CONSTANTS CNF = 3
          CMaxLost = 0
          CFilterTmp = TRUE
          CMaxCrash = 0
          CRmdir = TRUE
INVARIANT W_CopyNeverOverlapsWriter
CHECK_DEADLOCK FALSE
