SPECIFICATION Spec
CONSTANTS CNF = 2
          CMaxLost = 0
          CFilterTmp = FALSE
          CMaxCrash = 0
          CRmdir = FALSE
INVARIANT WriterUndisturbed
CHECK_DEADLOCK FALSE
