SPECIFICATION LiveSpec
CONSTANTS CNF = 3
          CMaxLost = 0
          CFilterTmp = TRUE
          CMaxCrash = 0
          CRmdir = TRUE
PROPERTY EverythingArrives
CHECK_DEADLOCK FALSE
