SPECIFICATION Spec
CONSTANTS CNF = 3
          CMaxLost = 1
          CFilterTmp = TRUE
          CMaxCrash = 1
          CRmdir = TRUE
INVARIANT TypeOK
INVARIANT ArchiveFinalComplete
INVARIANT NoTmpNameArchived
INVARIANT NoLoss
INVARIANT ReaderNeverSeesPartial
INVARIANT Delivered
INVARIANT DirsConsistent
PROPERTY OnlyFinalLeaves
PROPERTY ArchiveStable
CHECK_DEADLOCK FALSE
