SPECIFICATION Spec
CONSTANTS CNF = 4
          CMaxLost = 2
          CFilterTmp = TRUE
          CMaxCrash = 2
          CRmdir = TRUE
INVARIANT TypeOK
INVARIANT ArchiveFinalComplete
INVARIANT NoTmpNameArchived
INVARIANT NoLoss
INVARIANT ReaderNeverSeesPartial
INVARIANT Delivered
INVARIANT DirsConsistent
PROPERTY OnlyFinalLeaves
PROPERTY ArchiveStable
CHECK_DEADLOCK FALSE
