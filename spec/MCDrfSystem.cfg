SPECIFICATION Spec
CONSTANTS CNF = 4
          CCount = 2
          CMaxLost = 1
          CFilterTmp = TRUE
INVARIANT TypeOK
INVARIANT ReaderNeverSeesPartial
INVARIANT BoundedRetention
INVARIANT NewestKept
INVARIANT RbTracksOnlyFinal
PROPERTY RbNeverTouchesLiveFile
CONSTRAINT QueueBound
CHECK_DEADLOCK FALSE
