----------------------------- MODULE MCDrfSystem -----------------------------
EXTENDS DrfSystem
CONSTANTS CNF, CCount, CMaxLost, CFilterTmp
Init == SInit([nf |-> CNF, count |-> CCount, maxlost |-> CMaxLost, filtertmp |-> CFilterTmp])
Spec == Init /\ [][Next]_vars
=============================================================================
