SPECIFICATION Spec
CONSTANTS CNF = 4
          CCount = 2
          CMaxLost = 0
          CFilterTmp = TRUE
INVARIANT W_NeverExpires
CONSTRAINT QueueBound
CHECK_DEADLOCK FALSE
