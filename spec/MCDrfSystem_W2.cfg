SPECIFICATION Spec
CONSTANTS NF = 4
          Count = 2
          MaxLost = 0
          FilterTmp = TRUE
INVARIANT W_ReaderNeverSkips
CONSTRAINT QueueBound
CHECK_DEADLOCK FALSE
