SPECIFICATION Spec
CONSTANTS NF = 4
          Count = 2
          MaxLost = 1
          FilterTmp = FALSE
INVARIANT TypeOK
INVARIANT ReaderNeverSeesPartial
INVARIANT BoundedRetention
INVARIANT NewestKept
INVARIANT RbTracksOnlyFinal
PROPERTY RbNeverTouchesLiveFile
CONSTRAINT QueueBound
CHECK_DEADLOCK FALSE
