--------------------------- MODULE MCListing ---------------------------
(***************************************************************************)
(* Bounded universe for the functional specifications Listing and          *)
(* EventFilter (engine E1 of C14 / C15).                                   *)
(*                                                                         *)
(* A tree of the universe: one candidate channel directory (listed itself, *)
(* or found below the listed directory), its property files given by       *)
(* ChanKinds, NSub timestamped subdirectories Cad time units apart, and in *)
(* every subdirectory one slot per offset in Offs holding nothing, a       *)
(* metadata file, an RF file or a tmp. file.  The trees are the initial    *)
(* states; steps choose the flags and set, widen or drop the two ends of   *)
(* the window, so every option combination is reached for every tree and   *)
(* window monotonicity is an action property of the widening steps.        *)
(***************************************************************************)
EXTENDS EventFilter

CONSTANTS NSub, Cad, Offs, SlotKinds, ChanKinds, Tops, Recs, PropFlags

VARIABLES T, o, R,
          ref,     \* derived: the reference listing of (T, o, R) forward and reversed - computed once per state
          last     \* history: name of the step just taken (excluded from the state by VIEW view)
vars == <<T, o, R, ref, last>>
view == <<T, o, R, ref>>

Slots == (1..NSub) \X Offs
SlotSeq == SetToSortSeq(Slots, LAMBDA a, b : a[1] < b[1] \/ (a[1] = b[1] /\ a[2] < b[2]))

PropFile(k, present) ==
  [ch |-> 1, sd |-> 0, kind |-> k, pfx |-> 0, t |-> 0, tmp |-> ~present, ext |-> TRUE, tok |-> TRUE, depth |-> TRUE]
SlotFile(sl, k) ==
  [ch |-> 1, sd |-> sl[1], kind |-> IF k = "rf" THEN "rf" ELSE IF k = "none" THEN "other" ELSE "md", pfx |-> 1,
   t |-> (sl[1] - 1) * Cad + sl[2], tmp |-> (k = "tmp"), ext |-> (k # "none"), tok |-> TRUE, depth |-> TRUE]

MkTree(ck, asg) ==
  [chans |-> <<[root |-> TRUE]>>,
   subs  |-> [s \in 1..NSub |-> [ch |-> 1, t |-> (s - 1) * Cad, ok |-> TRUE]],
   files |-> << PropFile("drfprop", ck \in {"drf", "both"}),
                PropFile("dmdprop", ck \in {"dmd", "both"}),
                PropFile("legacy", ck = "legacy") >>
             \o [j \in 1..Len(SlotSeq) |-> SlotFile(SlotSeq[j], asg[SlotSeq[j]])]]

Trees == {MkTree(ck, asg) : ck \in ChanKinds, asg \in [Slots -> SlotKinds]}
Roots == {[top |-> tp, mem |-> <<1>>] : tp \in Tops}

Times == (-1)..(NSub * Cad)
Opts == {[drf |-> a, dmd |-> b, dp |-> p, mp |-> q, rec |-> rc, rev |-> rv, hs |-> hs, s |-> s, he |-> he, e |-> e] :
           a \in BOOLEAN, b \in BOOLEAN, p \in PropFlags, q \in PropFlags, rc \in Recs, rv \in {FALSE},
           hs \in BOOLEAN, s \in Times, he \in BOOLEAN, e \in Times}
GoodOpt(x) == /\ (~x.hs => x.s = 0) /\ (~x.he => x.e = 0)        \* canonical when absent
              /\ ((x.hs /\ x.he) => x.s <= x.e)                  \* precondition: start <= end

\* TLC evaluates initial states on one thread: only the trees are initial, the options are reached by steps
Base == [drf |-> TRUE, dmd |-> TRUE, dp |-> 2, mp |-> 2, rec |-> FALSE, rev |-> FALSE, hs |-> FALSE, s |-> 0, he |-> FALSE, e |-> 0]
Both(t, x, r) == [fwd |-> RefList(t, [x EXCEPT !.rev = FALSE], r, FALSE), bwd |-> RefList(t, [x EXCEPT !.rev = TRUE], r, FALSE)]
Init == /\ T \in Trees /\ R \in Roots /\ o = [Base EXCEPT !.rec = (FALSE \notin Recs)]
        /\ ref = Both(T, o, R) /\ last = "Init"

NoWindow(x) == ~x.hs /\ ~x.he
SetFlags     == /\ NoWindow(o) /\ o' \in {x \in Opts : GoodOpt(x) /\ NoWindow(x)} /\ UNCHANGED <<T, R>>
SetStart     == /\ ~o.hs /\ \E s \in Times : (o.he => s <= o.e) /\ o' = [o EXCEPT !.hs = TRUE, !.s = s]
                /\ UNCHANGED <<T, R>>
SetEnd       == /\ ~o.he /\ \E e \in Times : (o.hs => o.s <= e) /\ o' = [o EXCEPT !.he = TRUE, !.e = e]
                /\ UNCHANGED <<T, R>>
StartEarlier == o.hs /\ o.s - 1 \in Times /\ o' = [o EXCEPT !.s = @ - 1] /\ UNCHANGED <<T, R>>
DropStart    == o.hs /\ o' = [o EXCEPT !.hs = FALSE, !.s = 0] /\ UNCHANGED <<T, R>>
EndLater     == o.he /\ o.e + 1 \in Times /\ o' = [o EXCEPT !.e = @ + 1] /\ UNCHANGED <<T, R>>
DropEnd      == o.he /\ o' = [o EXCEPT !.he = FALSE, !.e = 0] /\ UNCHANGED <<T, R>>
Step == \/ SetFlags /\ last' = "SetFlags"
        \/ SetStart /\ last' = "SetStart"
        \/ SetEnd /\ last' = "SetEnd"
        \/ StartEarlier /\ last' = "StartEarlier"
        \/ DropStart /\ last' = "DropStart"
        \/ EndLater /\ last' = "EndLater"
        \/ DropEnd /\ last' = "DropEnd"
Next == Step /\ ref' = Both(T', o', R')
Spec == Init /\ [][Next]_vars

(***************************************************************************)
(* Theorems of the functional specification on the bounded universe        *)
(***************************************************************************)
Listed    == RSet(ref.fwd.seq)
Rev(x)    == [x EXCEPT !.rev = TRUE]

UniverseConsistent == TimeConsistent(T)

\* the repaired subdirectory walk computes what the set-theoretic specification demands, in both directions
RefCorrect == /\ ~ref.fwd.raised /\ Judge(T, o, R, {}, ref.fwd.seq) = {}
              /\ ~ref.bwd.raised /\ Judge(T, Rev(o), R, {}, ref.bwd.seq) = {}

\* reversing changes only the order, not the set
ReverseOnlyOrder == RSet(ref.fwd.seq) = RSet(ref.bwd.seq) /\ Len(ref.fwd.seq) = Len(ref.bwd.seq)

\* sound: only finalized, well-formed files at the right depth of a reachable channel directory
ListSubsetOfFiles == \A i \in Listed : i \in LFs(T) /\ (DataName(LF(T, i)) \/ PropName(LF(T, i)))
                                       /\ IsChan(T, LF(T, i).ch) /\ Reach(LF(T, i).ch, o, R)
\* complete and window-exact: every selected file inside the window is listed, anything else listed lies before start
WindowExact == /\ Win(T, o, R, {}) \subseteq Listed
               /\ \A i \in Listed : IsData(T, i) => (InWin(LF(T, i).t, o) \/ (o.hs /\ LF(T, i).t < o.s /\ o.dmd /\ DmdChan(T, LF(T, i).ch)))
\* forward fill adds at most one file per metadata channel, and none to an RF-only channel or without a start time
FFAtMostOne == \A c \in Chans(T) : Cardinality({i \in Listed : IsData(T, i) /\ LF(T, i).ch = c /\ ~InWin(LF(T, i).t, o)}) <= 1
\* ... and it is the latest before start
FFIsLatest == LET S == Sel(T, o, R, {}) IN \A i \in Listed : (IsData(T, i) /\ ~InWin(LF(T, i).t, o)) =>
                 \A j \in S : (LF(T, j).ch = LF(T, i).ch /\ LF(T, j).t < o.s) => LF(T, j).t <= LF(T, i).t

\* the event filter delivers the creation of a path exactly when the listing lists it (forward-fill file aside),
\* for paths in a channel directory of the matching kind
Ev(k, s, d) == [k |-> k, dir |-> FALSE, s |-> s, d |-> d]
InMatchingChan(i) == LET f == LF(T, i) IN IsChan(T, f.ch) /\ (f.kind \in DataKinds => KindChan(T, f))
FilterAgreesWithListing ==
  LET lst == RSet(RefList(T, [o EXCEPT !.rec = TRUE], R, FALSE).seq) IN
  \A i \in LFs(T) : LET f == LF(T, i) IN
    (InMatchingChan(i) /\ ~Unsure(f, o)) =>
       LET ffonly == IsData(T, i) /\ ~InWin(f.t, o)
       IN  /\ (Deliver(T.files, Ev("created", i, 0), o) = {Out("created", i, 0)}) <=> (i \in lst /\ ~ffonly)
           /\ (Deliver(T.files, Ev("created", i, 0), o) = {Nothing}) <=> ~(i \in lst /\ ~ffonly)
           /\ (TRUE \in ListedAlone(f, o)) <=> (Listable(f, o) \/ ForwardFillOnly(f, o))
\* the finalizing rename of a tmp. file is the creation of the final file; renaming a tracked file away is its deletion
RenameRules ==
  LET non == {i \in LFs(T) : ~NameListable(LF(T, i), o)} IN
  \A i \in (IF non = {} THEN {} ELSE {Min(non), Max(non)}) : \A j \in LFs(T) :
    LET g == LF(T, j) IN
    ~Unsure(g, o) =>
       /\ Deliver(T.files, Ev("moved", i, j), o) = (IF Listable(g, o) THEN {Out("created", j, 0)} ELSE {Nothing})
       /\ Deliver(T.files, Ev("moved", j, i), o) = (IF Listable(g, o) THEN {Out("deleted", j, 0)} ELSE {Nothing})
DirEventsIgnored == \A i \in LFs(T) : Deliver(T.files, [k |-> "created", dir |-> TRUE, s |-> i, d |-> 0], o) = {Nothing}

\* widening the window never removes a file from the listing (the forward-fill file becomes an in-window file)
SameFlags(x, y) == [x EXCEPT !.hs = FALSE, !.s = 0, !.he = FALSE, !.e = 0] = [y EXCEPT !.hs = FALSE, !.s = 0, !.he = FALSE, !.e = 0]
Wider(x, y) == /\ SameFlags(x, y)
               /\ (y.hs => (x.hs /\ y.s <= x.s))
               /\ (y.he => (x.he /\ y.e >= x.e))
WindowMonotone == [][Wider(o, o') => RSet(ref.fwd.seq) \subseteq RSet(ref'.fwd.seq)]_vars

(***************************************************************************)
(* Witnesses - each MUST be violated (vacuity guards)                      *)
(***************************************************************************)
\* every step of the model is taken (TLC's -coverage does not terminate on this module, so reachability of the
\* actions is shown by witnesses over the history variable; run with -continue)
Both2 == o.drf /\ o.dmd
W_NeverSetFlags     == ~(last = "SetFlags" /\ ~o.drf /\ o.dmd)
W_NeverSetStart     == ~(last = "SetStart" /\ Both2 /\ o.hs /\ o.s = 0 /\ ~o.he)
W_NeverSetEnd       == ~(last = "SetEnd" /\ Both2 /\ o.he /\ o.e = 0 /\ ~o.hs)
W_NeverStartEarlier == ~(last = "StartEarlier" /\ Both2 /\ o.hs /\ o.s = -1 /\ ~o.he)
W_NeverDropStart    == ~(last = "DropStart" /\ Both2 /\ ~o.hs /\ o.he /\ o.e = 0)
W_NeverEndLater     == ~(last = "EndLater" /\ Both2 /\ o.he /\ o.e = NSub * Cad /\ ~o.hs)
W_NeverDropEnd      == ~(last = "DropEnd" /\ Both2 /\ ~o.he /\ o.hs /\ o.s = 0)
\* the universe reaches forward fill from an earlier subdirectory across an empty one
W_NoLookBackAcrossEmptySubdir ==
  ~(\E i \in Listed : /\ IsData(T, i) /\ ~InWin(LF(T, i).t, o)
                      /\ \E s \in 1..NSub : /\ T.subs[s].t > T.subs[LF(T, i).sd].t /\ T.subs[s].t <= o.s
                                            /\ FilesOfSub(T, Sel(T, o, R, {}), s) = <<>>
                                            /\ \E s2 \in 1..NSub : T.subs[s2].t > T.subs[s].t /\ T.subs[s2].t <= o.s)
\* Judge tells the repaired walk from the walk with defect F05 (forward fill keyed on the first *enumerated* subdirectory)
W_JudgeBlindToF05 == LET b == RefList(T, Rev(o), R, TRUE) IN ~b.raised => Judge(T, Rev(o), R, {}, b.seq) = {}
\* ... also as a difference between the forward and the reversed set
W_F05SameSet == LET a == RefList(T, [o EXCEPT !.rev = FALSE], R, TRUE)  b == RefList(T, [o EXCEPT !.rev = TRUE], R, TRUE)
                IN  (~a.raised /\ ~b.raised) => RSet(a.seq) = RSet(b.seq)
\* the universe reaches the empty-first-subdirectory failure F06
W_F06NeverRaises == ~RefList(T, o, R, TRUE).raised
\* the subdirectory pruning is only right on time-consistent trees (run with an offset beyond the cadence)
W_PruningRightOnAnyTree == (o.hs \/ o.he) => Judge(T, o, R, {}, ref.fwd.seq) \subseteq {"C14-order-within-channel"}
\* mixed channels and the open forward-fill choice are reached
W_NoMixedChannel == LET S == Sel(T, o, R, {}) IN
  ~(\E c \in ChanCtx(T, o, R).dmd : o.hs /\ o.dmd /\ Mixed(T, o, S, c) /\ MdBef(T, o, S, c) # {})
W_NoFinalizingRename == ~(\E i, j \in LFs(T) : o.hs /\ o.he /\ LF(T, i).tmp /\ Deliver(T.files, Ev("moved", i, j), o) = {Out("created", j, 0)})
W_NoWindowSplitMove == \A i, j \in LFs(T) : Cardinality(Deliver(T.files, Ev("moved", i, j), o)) = 1
=============================================================================
