SPECIFICATION Spec
CONSTANTS NSub = 2
          Cad = 2
          Offs = {0, 1}
          SlotKinds = {"none", "md", "tmp"}
          ChanKinds = {"dmd"}
          Tops = {1}
          Recs = {FALSE}
          PropFlags = {2}
INVARIANT W_NoFinalizingRename
CHECK_DEADLOCK FALSE
