SPECIFICATION Spec
CONSTANTS NSub = 3
          Cad = 2
          Offs = {0, 1}
          SlotKinds = {"none", "md"}
          ChanKinds = {"dmd"}
          Tops = {1}
          Recs = {FALSE}
          PropFlags = {2}
INVARIANT W_NoLookBackAcrossEmptySubdir
CHECK_DEADLOCK FALSE
