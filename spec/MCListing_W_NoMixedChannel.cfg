SPECIFICATION Spec
CONSTANTS NSub = 3
          Cad = 2
          Offs = {0, 1}
          SlotKinds = {"none", "md", "rf"}
          ChanKinds = {"legacy"}
          Tops = {1}
          Recs = {FALSE}
          PropFlags = {2}
INVARIANT W_NoMixedChannel
CHECK_DEADLOCK FALSE
