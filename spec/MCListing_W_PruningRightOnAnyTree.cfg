SPECIFICATION Spec
CONSTANTS NSub = 3
          Cad = 2
          Offs = {0, 3}
          SlotKinds = {"none", "md"}
          ChanKinds = {"dmd"}
          Tops = {1}
          Recs = {FALSE}
          PropFlags = {2}
INVARIANT W_PruningRightOnAnyTree
CHECK_DEADLOCK FALSE
