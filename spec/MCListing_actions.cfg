SPECIFICATION Spec
CONSTANTS NSub = 1
          Cad = 2
          Offs = {0}
          SlotKinds = {"md"}
          ChanKinds = {"dmd"}
          Tops = {1}
          Recs = {FALSE}
          PropFlags = {2}
INVARIANT W_NeverSetFlags
INVARIANT W_NeverSetStart
INVARIANT W_NeverSetEnd
INVARIANT W_NeverStartEarlier
INVARIANT W_NeverDropStart
INVARIANT W_NeverEndLater
INVARIANT W_NeverDropEnd
CHECK_DEADLOCK FALSE
