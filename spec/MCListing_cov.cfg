SPECIFICATION Spec
CONSTANTS NSub = 2
          Cad = 2
          Offs = {0}
          SlotKinds = {"none", "md"}
          ChanKinds = {"dmd"}
          Tops = {1}
          Recs = {FALSE}
          PropFlags = {2}
INVARIANT RefCorrect
INVARIANT FilterAgreesWithListing
PROPERTY WindowMonotone
CHECK_DEADLOCK FALSE
