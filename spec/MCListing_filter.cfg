SPECIFICATION Spec
CONSTANTS NSub = 2
          Cad = 2
          Offs = {0, 1}
          SlotKinds = {"md", "rf", "tmp"}
          ChanKinds = {"dmd", "drf", "legacy"}
          Tops = {1}
          Recs = {FALSE}
          PropFlags = {2}
INVARIANT FilterAgreesWithListing
INVARIANT RenameRules
INVARIANT DirEventsIgnored
VIEW view
CHECK_DEADLOCK FALSE
