SPECIFICATION Spec
CONSTANTS NSub = 3
          Cad = 2
          Offs = {0, 1}
          SlotKinds = {"none", "md"}
          ChanKinds = {"dmd", "legacy"}
          Tops = {1}
          Recs = {FALSE}
          PropFlags = {2}
INVARIANT UniverseConsistent
INVARIANT RefCorrect
INVARIANT ReverseOnlyOrder
INVARIANT ListSubsetOfFiles
INVARIANT WindowExact
INVARIANT FFAtMostOne
INVARIANT FFIsLatest
INVARIANT FilterAgreesWithListing
INVARIANT RenameRules
INVARIANT DirEventsIgnored
PROPERTY WindowMonotone
VIEW view
CHECK_DEADLOCK FALSE
