SPECIFICATION Spec
CONSTANTS NSub = 2
          Cad = 2
          Offs = {0, 1}
          SlotKinds = {"none", "md", "rf"}
          ChanKinds = {"drf", "legacy", "both", "none"}
          Tops = {0, 1}
          Recs = {FALSE, TRUE}
          PropFlags = {2}
INVARIANT UniverseConsistent
INVARIANT RefCorrect
INVARIANT ReverseOnlyOrder
INVARIANT ListSubsetOfFiles
INVARIANT WindowExact
INVARIANT FFAtMostOne
INVARIANT FFIsLatest
INVARIANT FilterAgreesWithListing
INVARIANT RenameRules
INVARIANT DirEventsIgnored
PROPERTY WindowMonotone
VIEW view
CHECK_DEADLOCK FALSE
