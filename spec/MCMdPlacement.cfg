SPECIFICATION Spec
CONSTANTS MSPS = 1000
          KMax = 100
          NMax = 12
          DMax = 7
          FMax = 6
INVARIANT WriterReaderAgree
INVARIANT MdOwn
INVARIANT MdUnique
INVARIANT MdSubdirHolds
INVARIANT MdBoundary
PROPERTY MdMonotone
CHECK_DEADLOCK FALSE
