--------------------------- MODULE MCMdPlacement ---------------------------
(* E1 for C13 (metadata half of Placement): for every rate n/d, file cadence fc and subdirectory cadence sc of a small
   scope and every index k, the file second T = MdFileSec(k) is the unique multiple of fc with T*n <= k*d < (T+fc)*n;
   the writer's way to the file (one division by the samples per file) and the reader's way (whole seconds first, then
   rounding down to the cadence) are the same function when done in exact integers; the file lies inside the
   subdirectory named for T rounded down to sc; k = ceil(T*n/d) is the first index of file T and its predecessor
   belongs to an earlier file. *)
EXTENDS Placement
CONSTANTS KMax, NMax, DMax, FMax
VARIABLES k, n, d, fc, sc
vars == <<k, n, d, fc, sc>>
Init == /\ k = 0 /\ n \in 1..NMax /\ d \in 1..DMax /\ fc \in 1..FMax /\ sc \in {fc, 2 * fc, 5 * fc}
Next == k < KMax /\ k' = k + 1 /\ UNCHANGED <<n, d, fc, sc>>
Spec == Init /\ [][Next]_vars

F(x) == MdFileSec(x, n, d, fc)
T == F(k)
WriterSec == ((k * d) \div (n * fc)) * fc          \* file index = floor(k / (fc * n/d)), file second = index * fc
ReaderSec == (((k * d) \div n) \div fc) * fc       \* second = floor(k / (n/d)), rounded down to the cadence
WriterReaderAgree == WriterSec = T /\ ReaderSec = T
MdOwn == T % fc = 0 /\ T * n <= k * d /\ k * d < (T + fc) * n
MdUnique == \A j \in 0..((KMax * DMax) \div fc + 1) : (j * fc * n <= k * d /\ k * d < (j * fc + fc) * n) => j * fc = T
MdMonotone == [][F(k') >= T]_vars
SubdirSecOf(t) == (t \div sc) * sc
MdSubdirHolds == SubdirSecOf(T) % sc = 0 /\ SubdirSecOf(T) <= T /\ T + fc <= SubdirSecOf(T) + sc
First(t) == CeilD(t * n, d)                         \* first index whose time is >= t seconds
MdBoundary == /\ First(T) <= k
              /\ F(First(T)) >= T
              /\ (First(T) > 0 => F(First(T) - 1) < T)
\* witnesses (false in the scope): every file second holds some index; every file boundary falls on an index
W_NoEmptyFile == k > 0 => F(k + 1) <= T + fc
W_BoundaryOnGrid == (T * n) % d = 0
=============================================================================
