SPECIFICATION Spec
CONSTANTS MSPS = 1000
          KMax = 100
          NMax = 12
          DMax = 7
          FMax = 6
CHECK_DEADLOCK FALSE
INVARIANT W_BoundaryOnGrid
