--------------------------- MODULE MCMetadata ---------------------------
(* Bounded instance of Metadata for exhaustive checking (E1) and behaviour export (E2).
   Indices 0..MaxIdx, files of FileSize indices, calls of at most MaxBatch samples in the three forms
   (with the dict form's distribution rule exercised both ways), duplicate attempts, every inclusive range
   with both fill methods and several column selections, readers created at any time. *)
EXTENDS Metadata

CONSTANTS MaxIdx, FileSize, MaxBatch, MaxReaders, MaxRF, Depth,
          ReaderAtStart,  \* TRUE: one metadata reader exists from the start (C12 scope: the age of readers is C20's subject)
          DupMode,   \* "any": a refused call may have stored any prefix of its samples before the duplicate (E1);
                     \* "all": it stored all of them - the choice the implementation makes, used for behaviour export (E2)
          QMode      \* "all": every query is also taken as a transition; "edge": transitions only for a subset (the invariant
                     \* AnswersExactAll still evaluates every query in every reachable state)

NW0 == MaxIdx \div FileSize + 1
Schema == << [name |-> "a", top |-> "a"], [name |-> "b", top |-> "b"], [name |-> "n/x", top |-> "n"] >>
Cfg0 == [bound |-> [j \in 1..(NW0 + 1) |-> (j - 1) * FileSize],
         sec |-> [j \in 1..NW0 |-> (j - 1) * FileSize],
         schema |-> Schema, fields |-> <<"a", "b", "n">>]

Init ==
  /\ cfg = Cfg0
  /\ store = [k \in {} |-> <<>>]
  /\ mfiles = [j \in 1..NW0 |-> {}]
  /\ readers = [r \in (IF ReaderAtStart THEN {1} ELSE {}) |-> [kind |-> "md", fk |-> FALSE, old |-> FALSE]]
  /\ rf = 0 /\ disk = 0 /\ resp = "ok"
  /\ last = Act("Init", 0, NoW, NoQ, {})

(* Abstract inputs.  Value ids: leaf a = 1 (a string as long as the batch: never distributed), leaf b = 10 + index
   when the array is as long as the batch (distributed) or 2 when it is one longer (stored whole), leaf n/x = 3.
   `o` shifts the ids of the samples that already exist: a duplicate attempt carries another value than the stored
   sample (o = 50), so an overwrite would show. *)
Scalar(v) == [isstr |-> FALSE, len |-> 0 - 1, whole |-> v, elems |-> <<>>]
Str(v, n) == [isstr |-> TRUE, len |-> n, whole |-> v, elems |-> <<>>]
Arr(v, ids) == [isstr |-> FALSE, len |-> Len(ids), whole |-> v, elems |-> ids]
Req(var, idxs, o) ==
  LET n == Len(idxs)
      el == [i \in 1..n |-> 10 + idxs[i] + (IF idxs[i] \in Dom \/ \E j \in 1..(i - 1) : idxs[j] = idxs[i] THEN o ELSE 0)]
  IN CASE var = "single"  -> [form |-> "single", var |-> var, idxs |-> idxs, recs |-> <<>>,
                              fields |-> <<Scalar(1), Scalar(el[1]), Scalar(3)>>]
       [] var = "single1" -> [form |-> "single", var |-> var, idxs |-> idxs, recs |-> <<>>,   \* a one-element array is distributed
                              fields |-> <<Str(1, 1), Arr(2, el), Scalar(3)>>]
       [] var = "dictD"   -> [form |-> "dict", var |-> var, idxs |-> idxs, recs |-> <<>>,
                              fields |-> <<Str(1, n), Arr(2, el), Scalar(3)>>]
       [] var = "dictW"   -> [form |-> "dict", var |-> var, idxs |-> idxs, recs |-> <<>>,
                              fields |-> <<Str(1, n), Arr(2, el \o <<99>>), Scalar(3)>>]
       [] var = "list"    -> [form |-> "list", var |-> var, idxs |-> idxs, fields |-> <<>>,
                              recs |-> [i \in 1..n |-> <<1, el[i], 3>>]]
VarsFor(n) == IF n = 1 THEN {"single", "single1", "dictD", "dictW", "list"} ELSE {"dictD", "dictW", "list"}

Top == IF Dom = {} THEN 0 - 1 ELSE Max(Dom)
Batches == {S \in SUBSET ((Top + 1)..MaxIdx) : Cardinality(S) \in 1..MaxBatch}
\* duplicate attempts that stay inside the property's "ascending" quantifier: the call starts with an index that
\* exists, or it repeats its own last index
DupSeqs == {Sorted(S) : S \in {T \in SUBSET (0..MaxIdx) : Cardinality(T) \in 1..2 /\ Min(T) \in Dom}}
           \cup {Sorted(S) \o <<Max(S)>> : S \in {T \in Batches : Cardinality(T) < MaxBatch}}

Ranges == {<<a, b>> \in (0..MaxIdx) \X (0..MaxIdx) : a <= b}
Cols == {<<>>, <<"b">>, <<"a", "n">>}
Queries == {[a |-> ab[1], b |-> ab[2], cols |-> c, method |-> m] : ab \in Ranges, c \in Cols, m \in {"none", "ffill"}}

NWriteBatch == \E S \in Batches : \E var \in VarsFor(Cardinality(S)) :
                 WriteBatch(Req(var, Sorted(S), 0), disk + 1)
DupVars(n) == IF QMode = "all" THEN VarsFor(n) \ {"dictW"} ELSE IF n = 1 THEN {"single", "list"} ELSE {"dictD"}
NWriteDup   == \E idxs \in DupSeqs : \E var \in DupVars(Len(idxs)) :
                 LET w == Req(var, idxs, 50) IN
                 \E m \in (IF DupMode = "all" THEN {DupPos(w) - 1} ELSE 0..(DupPos(w) - 1)) :
                    WriteDup(w, {idxs[j] : j \in 1..m}, disk + 1)
NRFWrite    == rf < MaxRF /\ RFWrite(disk + 1)
NNewReader  == /\ Cardinality(DOMAIN readers) < MaxReaders
               /\ \E kind \in (IF MaxRF > 0 THEN {"md", "rf"} ELSE {"md"}) :
                    NewReader(Cardinality(DOMAIN readers) + 1, kind)
TQueries == IF QMode = "all" THEN Queries
            ELSE {q \in Queries : IF q.cols = <<>> THEN q.a = q.b \/ q.b = MaxIdx ELSE q.a = 0 /\ q.b = MaxIdx}
NRead       == \E r \in DOMAIN readers : \E q \in TQueries : Read(r, q)
NBounds     == \E r \in DOMAIN readers : Bounds(r)
NLatest     == \E r \in DOMAIN readers : Latest(r)
NFields     == \E r \in DOMAIN readers : IsMd(r) /\ \E ans \in FieldsAns(r) : Fields(r, ans)
NRFMeta     == \E r \in DOMAIN readers : \E q \in {x \in TQueries : x.cols = <<>>} : RFMeta(r, q)
NRFObs      == \E r \in DOMAIN readers : \E what \in {"bounds", "read", "props", "fileprops", "blocks"} : RFObs(r, what)
NList       == List

Next == \/ NWriteBatch \/ NWriteDup \/ NRFWrite \/ NNewReader
        \/ NRead \/ NBounds \/ NLatest \/ NFields \/ NRFMeta \/ NRFObs \/ NList
Spec == Init /\ [][Next]_vars
Bounded == TLCGet("level") <= Depth

\* every range, both fill methods, every column selection, in every reachable state
AnswersExactAll == AnswersExact({q \in Queries : q.cols = <<>>})

\* witnesses: each is false in the bounded model (vacuity guards)
FillK(l) == FillSet(l.q.a) \ In(l.q.a, l.q.b)
W_NoFfillFromEarlierFile ==      \* the fill sample lies in an earlier file than the start of the range
  ~(last.a = "Read" /\ last.q.method = "ffill" /\ \E k \in FillK(last) : FileOf(k) < FileOf(last.q.a))
W_NoQueryBetweenSamplesOfOneFile ==   \* an empty answer for a range strictly between two samples of one file
  ~(last.a = "Read" /\ last.q.method = "none" /\ resp = <<>>
    /\ \E k1, k2 \in mfiles[FileOf(last.q.a)] : k1 < last.q.a /\ last.q.b < k2 /\ FileOf(last.q.b) = FileOf(last.q.a))
W_NoFfillWithLaterSampleInFile ==     \* the file of the start holds a sample later than the query (F02's blind spot)
  ~(last.a = "Read" /\ last.q.method = "ffill" /\ FillK(last) # {}
    /\ \E k \in mfiles[FileOf(last.q.a)] : k > last.q.b)
W_NoPartialDup == ~(last.a = "WriteDup" /\ last.S # {})
W_NoDistributedValue == ~(last.a = "WriteBatch" /\ last.w.form = "dict" /\ N(last.w) > 1
                          /\ \E f \in 1..NL : Distributed(last.w.fields[f], N(last.w)))
W_NoWholeArray == ~(last.a = "WriteBatch" /\ last.w.form = "dict"
                    /\ \E f \in 1..NL : ~last.w.fields[f].isstr /\ last.w.fields[f].len > N(last.w))
W_NoBatchAcrossFiles == ~(last.a = "WriteBatch" /\ \E k1, k2 \in last.S : FileOf(k1) # FileOf(k2))
W_NoOldReaderSeesNewSample ==    \* a reader created before a write returns that write's sample
  ~(last.a = "Read" /\ readers[last.r].old /\ ~readers[last.r].fk /\ resp # <<>>)
W_NoOldAndNewReader == ~(\E r1, r2 \in DOMAIN readers : readers[r1].old /\ ~readers[r2].old /\ Dom # {})
W_NoRFWriteBetween == ~(last.a = "RFMeta" /\ rf > 0 /\ resp # <<>> /\ readers[last.r].old)
W_NoBoundaryIndex == ~(last.a = "Read" /\ last.q.a = last.q.b /\ resp # <<>> /\ last.q.a = Lo(FileOf(last.q.a)) /\ last.q.a > 0)
=============================================================================
