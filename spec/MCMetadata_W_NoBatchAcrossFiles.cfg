SPECIFICATION Spec
CONSTANTS MaxIdx = 5
          FileSize = 3
          MaxBatch = 3
          MaxReaders = 2
          MaxRF = 1
          Depth = 5
          ReaderAtStart = FALSE
          DupMode = "any"
          QMode = "all"
CONSTRAINT Bounded
INVARIANT W_NoBatchAcrossFiles
CHECK_DEADLOCK FALSE
