SPECIFICATION Spec
CONSTANTS MaxIdx = 2
          FileSize = 3
          MaxBatch = 1
          MaxReaders = 2
          MaxRF = 1
          Depth = 5
          ReaderAtStart = FALSE
          DupMode = "any"
          QMode = "edge"
CONSTRAINT Bounded
INVARIANT W_NoOldAndNewReader
CHECK_DEADLOCK FALSE
