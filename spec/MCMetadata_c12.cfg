SPECIFICATION Spec
CONSTANTS MaxIdx = 9
          FileSize = 3
          MaxBatch = 3
          MaxReaders = 1
          MaxRF = 0
          Depth = 99
          ReaderAtStart = TRUE
          DupMode = "any"
          QMode = "edge"
VIEW core
INVARIANT TypeOK
INVARIANT PlacementExact
INVARIANT AnswersExactAll
PROPERTY WriteOnce
PROPERTY NothingElse
PROPERTY ReadExact
PROPERTY FfillExact
PROPERTY BoundsExact
PROPERTY LatestIsMax
PROPERTY AllReadersAgree
PROPERTY ObservationsReadOnly
CHECK_DEADLOCK FALSE
