SPECIFICATION Spec
CONSTANTS MaxIdx = 3
          FileSize = 3
          MaxBatch = 2
          MaxReaders = 2
          MaxRF = 1
          Depth = 99
          ReaderAtStart = FALSE
          DupMode = "any"
          QMode = "edge"
VIEW core
INVARIANT TypeOK
INVARIANT PlacementExact
INVARIANT AnswersExactAll
PROPERTY WriteOnce
PROPERTY NothingElse
PROPERTY ReadExact
PROPERTY FfillExact
PROPERTY BoundsExact
PROPERTY LatestIsMax
PROPERTY AllReadersAgree
PROPERTY ObservationsReadOnly
CHECK_DEADLOCK FALSE
