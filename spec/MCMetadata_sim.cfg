SPECIFICATION Spec
CONSTANTS MaxIdx = 9
          FileSize = 3
          MaxBatch = 3
          MaxReaders = 4
          MaxRF = 3
          Depth = 99
          ReaderAtStart = FALSE
          DupMode = "all"
          QMode = "all"
CHECK_DEADLOCK FALSE
