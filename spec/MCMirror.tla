--------------------------- MODULE MCMirror ---------------------------
(* Bounded instance of Mirror for exhaustive checking (E1) and behaviour export (E2):
   one properties file, two RF files and two metadata files of one channel; every event is delivered
   up to MaxDeliv times in any order (so late, repeated and stale deliveries all occur), the mirror
   may crash between any two of its operations and be restarted, a source file may vanish. *)
EXTENDS Mirror

CONSTANTS Scope,      \* "quick" | "thorough" | "sim"
          MaxDeliv, MaxCrash, MaxVanish

U == [kind |-> <<"pr", "rf", "rf", "md", "md">>, grp |-> <<0, 1, 1, 2, 2>>, key |-> <<0, 1, 2, 1, 2>>]
\* thorough: a third metadata file, so that the ringbuffer expires twice and events of three ages reorder
U6 == [kind |-> <<"pr", "rf", "rf", "md", "md", "md">>, grp |-> <<0, 1, 1, 2, 2, 2>>, key |-> <<0, 1, 2, 1, 2, 3>>]

Sels(u) ==
  LET n == Len(u.kind) IN
  {[f \in 1..n |-> TRUE]} \cup
  (IF Scope \in {"quick", "sim", "cov"} THEN {}
   ELSE {[f \in 1..n |-> u.kind[f] = "pr" \/ u.key[f] >= 2],      \* a time window that starts at the second files
         [f \in 1..n |-> u.kind[f] # "rf"]})                        \* metadata only

Methods == {[method |-> "copy", link |-> FALSE], [method |-> "link", link |-> TRUE],
            [method |-> "move", link |-> FALSE], [method |-> "move", link |-> TRUE]}

CovMethods == {[method |-> "move", link |-> FALSE], [method |-> "link", link |-> TRUE]}
Universes == IF Scope = "thorough" THEN {U, U6} ELSE {U}

Cfgs == {[kind |-> u.kind, grp |-> u.grp, key |-> u.key, sel |-> s, method |-> m.method, link |-> m.link,
          samefs |-> fs, maxdeliv |-> MaxDeliv, maxcrash |-> MaxCrash, maxvanish |-> MaxVanish]
         : u \in Universes, s \in UNION {Sels(v) : v \in Universes},
           m \in IF Scope = "cov" THEN CovMethods ELSE Methods, fs \in BOOLEAN}

Init == \E c \in {c \in Cfgs : Len(c.sel) = Len(c.kind)} : MInit(c)

NDeliver    == \E f \in Files : Deliver(f)
NSkip       == \E f \in Files : Skip(f)
NVanish     == \E f \in Files : Vanish(f) \/ VanishNewest(f) \/ Consume(f)
\* in simulation (E2) a crash is drawn less often than the other actions, so that it falls anywhere in a history
NCrash      == (Scope # "sim" \/ RandomElement(1..8) = 1) /\ Crash
MkDirs      == pc.f # 0 /\ Step("mkdirs", pc.f)
Cmp         == pc.f # 0 /\ Step("cmp", pc.f)
RmTmp       == pc.f # 0 /\ Step("rmtmp", pc.f)
CopyBegin   == pc.f # 0 /\ Step("copyb", pc.f)
CopyEnd     == pc.f # 0 /\ Step("copye", pc.f)
Link        == pc.f # 0 /\ Step("link", pc.f)
MvRename    == pc.f # 0 /\ Step("mvrename", pc.f)
Unlink      == pc.f # 0 /\ Step("unlink", pc.f)
Rename      == pc.f # 0 /\ Step("rename", pc.f)
RmDirSrc    == pc.f # 0 /\ Step("rmdir", pc.f)
RbRemove    == \E g \in MD : Step("rbremove", g)

Next == \/ NDeliver \/ NSkip \/ NVanish \/ NCrash \/ Restart \/ EndHandler
        \/ MkDirs \/ Cmp \/ RmTmp \/ CopyBegin \/ CopyEnd \/ Link \/ MvRename \/ Unlink \/ Rename \/ RmDirSrc \/ RbRemove

Spec == Init /\ [][Next]_vars

CovBound == TLCGet("level") <= 18    \* the coverage run only has to take every action once

\* witnesses: each of these is false in the bounded model (vacuity guards)
W_NoCrashBetweenCopyAndRename ==
  ~(hist.down /\ \E f \in Files : dst.tmp[f] = Full /\ dst.final[f] = Absent /\ src[f] = Full)
W_NoHalfCopyAfterCrash == ~(hist.down /\ \E f \in Files : dst.tmp[f] = Part)
W_NoStaleEventOfNewest == ~(last.a = "EndHandler" /\ pc.r = "rb" /\ src[pc.f] = Absent /\ Newest(pc.f) /\ \E g \in MD : g # pc.f /\ src[g] = Full)
W_NoRemirrorAfterConsume == ~(\E f \in Files : f \in hist.consumed /\ dst.final[f] = Full)
W_NoStaleEvent   == ~(last.a = "Deliver" /\ src[last.f] = Absent)
W_NoRepeatedEvent == ~pc.rep
W_NoStuckTmp     == ~(Quiescent /\ \E f \in Files : StuckTmp(f))
W_NoExpiry       == last.a # "rbremove"
W_NoExpiryOnOlderEvent == ~(last.a = "rbremove" /\ last.f = pc.f)   \* events of metadata files arriving in reverse order
W_NeverTwoCopies == ~(\E f \in RF : cfg.method = "move" /\ src[f] = Full /\ dst.tmp[f] = Full)
W_NoRecopyOverHalf == ~(last.a = "copye" /\ hist.crashes > 0 /\ ~hist.down)
W_NeverQuiescentAfterCrash == ~(Quiescent /\ hist.crashes > 0 /\ \A f \in Files : Obliged(f) => dst.final[f] = Full)
=============================================================================
