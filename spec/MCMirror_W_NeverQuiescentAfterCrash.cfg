SPECIFICATION Spec
CONSTANTS Scope = "quick"
          MaxDeliv = 1
          MaxCrash = 1
          MaxVanish = 0
INVARIANT W_NeverQuiescentAfterCrash
CHECK_DEADLOCK FALSE
