SPECIFICATION Spec
CONSTANTS Scope = "quick"
          MaxDeliv = 1
          MaxCrash = 1
          MaxVanish = 0
INVARIANT W_NoCrashBetweenCopyAndRename
CHECK_DEADLOCK FALSE
