SPECIFICATION Spec
CONSTANTS Scope = "quick"
          MaxDeliv = 1
          MaxCrash = 0
          MaxVanish = 0
INVARIANT W_NoExpiry
CHECK_DEADLOCK FALSE
