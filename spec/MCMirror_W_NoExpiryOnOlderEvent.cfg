SPECIFICATION Spec
CONSTANTS Scope = "quick"
          MaxDeliv = 1
          MaxCrash = 0
          MaxVanish = 0
INVARIANT W_NoExpiryOnOlderEvent
CHECK_DEADLOCK FALSE
