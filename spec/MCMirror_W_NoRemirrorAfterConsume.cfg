SPECIFICATION Spec
CONSTANTS Scope = "quick"
          MaxDeliv = 2
          MaxCrash = 0
          MaxVanish = 1
INVARIANT W_NoRemirrorAfterConsume
CHECK_DEADLOCK FALSE
