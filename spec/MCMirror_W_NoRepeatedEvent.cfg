SPECIFICATION Spec
CONSTANTS Scope = "quick"
          MaxDeliv = 2
          MaxCrash = 0
          MaxVanish = 0
INVARIANT W_NoRepeatedEvent
CHECK_DEADLOCK FALSE
