SPECIFICATION Spec
CONSTANTS Scope = "quick"
          MaxDeliv = 2
          MaxCrash = 0
          MaxVanish = 1
INVARIANT W_NoStaleEventOfNewest
CHECK_DEADLOCK FALSE
