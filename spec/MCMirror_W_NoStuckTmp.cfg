SPECIFICATION Spec
CONSTANTS Scope = "quick"
          MaxDeliv = 1
          MaxCrash = 1
          MaxVanish = 0
INVARIANT W_NoStuckTmp
CHECK_DEADLOCK FALSE
