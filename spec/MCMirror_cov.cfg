SPECIFICATION Spec
CONSTANTS Scope = "cov"
          MaxDeliv = 2
          MaxCrash = 1
          MaxVanish = 1
CONSTRAINT CovBound
VIEW core
INVARIANT TypeOK
INVARIANT Staged
INVARIANT NoLossMove
CHECK_DEADLOCK FALSE
