SPECIFICATION Spec
CONSTANTS Scope = "quick"
          MaxDeliv = 2
          MaxCrash = 1
          MaxVanish = 0
VIEW core
INVARIANT TypeOK
INVARIANT Fidelity
INVARIANT Staged
INVARIANT NoLossMove
INVARIANT PropsAndMdCopied
INVARIANT NewestMdStays
INVARIANT NoLeftovers
PROPERTY Idempotent
PROPERTY FinalStable
PROPERTY SourceOnlyShrinks
PROPERTY NewestMdNeverRemoved
CHECK_DEADLOCK FALSE
