SPECIFICATION Spec
CONSTANTS Scope = "sim"
          MaxDeliv = 2
          MaxCrash = 1
          MaxVanish = 1
INVARIANT TypeOK
CHECK_DEADLOCK FALSE
