SPECIFICATION Spec
CONSTANTS Scope = "thorough"
          MaxDeliv = 2
          MaxCrash = 1
          MaxVanish = 1
VIEW core
INVARIANT TypeOK
INVARIANT Fidelity
INVARIANT Staged
INVARIANT NoLossMove
INVARIANT PropsAndMdCopied
INVARIANT NewestMdStays
INVARIANT NoLeftovers
PROPERTY Idempotent
PROPERTY FinalStable
PROPERTY SourceOnlyShrinks
PROPERTY NewestMdNeverRemoved
CHECK_DEADLOCK FALSE
