SPECIFICATION Spec
CONSTANTS MSPS = 4
          P1 = 3
          P2 = 4
          WORD = 4096
          KMax = 150
          NMax = 40
          DMax = 9
          FMax = 12
INVARIANT InOwnWindow
INVARIANT CapPositive
INVARIANT SubdirHolds
INVARIANT AlgAgrees
INVARIANT MdOwn
PROPERTY Monotone
CHECK_DEADLOCK FALSE
