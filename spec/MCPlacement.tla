----------------------------- MODULE MCPlacement -----------------------------
(* E1 for C04/C13: on a scaled machine (4 ms per second, 12 ps per second) the windows [FileStart(t), FileStart(t+fc))
   partition the index axis, every sample lies in the window of the file its own time selects, capacities are
   positive when n*fc >= MSPS*d, and the transcription of digital_rf_get_subdir_file (floor to ms via picoseconds,
   ceil of the file start, samples_left, max_samples_this_file) agrees with the definitions. *)
EXTENDS Placement, TimeConv
CONSTANTS KMax, NMax, DMax, FMax
VARIABLES k, n, d, fc, sc
vars == <<k, n, d, fc, sc>>
PSPMS == PS \div MSPS
Init == /\ k = 0 /\ n \in 1..NMax /\ d \in 1..DMax /\ fc \in 1..FMax /\ sc \in {1, 2, 3}
        /\ n * fc >= MSPS * d /\ (sc * MSPS) % fc = 0 /\ n * n < WORD /\ n * d < WORD
Next == k < KMax /\ k' = k + 1 /\ UNCHANGED <<n, d, fc, sc>>
Spec == Init /\ [][Next]_vars

T == RfFileMs(k, n, d, fc)
InOwnWindow == FileStart(T, n, d) <= k /\ k < FileStart(T + fc, n, d)
CapPositive == FileStart(T + fc, n, d) > FileStart(T, n, d)
Monotone == [][RfFileMs(k', n, d, fc) >= T]_vars
SubdirHolds == LET ss == SubdirSec(T, sc) IN ss * MSPS <= T /\ T + fc <= (ss + sc) * MSPS
\* the C code
F == FloorAlg(k, n, d)
sample_ms == F.sec * MSPS + F.ps \div PSPMS
file_ms == (sample_ms \div fc) * fc
start_c == CeilAlg(file_ms \div MSPS, (file_ms % MSPS) * PSPMS, n, d).idx
next_c == CeilAlg((file_ms + fc) \div MSPS, ((file_ms + fc) % MSPS) * PSPMS, n, d).idx
AlgAgrees == /\ file_ms = T
             /\ start_c = FileStart(T, n, d) /\ next_c = FileStart(T + fc, n, d)
             /\ next_c - k >= 1 /\ next_c - k <= next_c - start_c
             /\ (F.sec \div sc) * sc = SubdirSec(T, sc)
\* metadata (seconds)
MdOwn == LET Tm == MdFileSec(k, n, d, fc) IN Tm * n <= k * d /\ k * d < (Tm + fc) * n
W_AllFilesSameSize == FileStart(T + fc, n, d) - FileStart(T, n, d) = FileStart(fc, n, d) - FileStart(0, n, d)
=============================================================================
