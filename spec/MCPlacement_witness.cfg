SPECIFICATION Spec
CONSTANTS MSPS = 4
          P1 = 3
          P2 = 4
          WORD = 4096
          KMax = 150
          NMax = 40
          DMax = 9
          FMax = 12
CHECK_DEADLOCK FALSE
INVARIANT W_AllFilesSameSize
