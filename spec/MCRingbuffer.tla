--------------------------- MODULE MCRingbuffer ---------------------------
(* Bounded instance of Ringbuffer for exhaustive checking (E1) and behaviour export (E2). *)
EXTENDS Ringbuffer

CONSTANTS Depth,      \* bound on behaviour length
          Scope       \* "quick" | "thorough" | "sim"

\* universe: files 1..NF; two or three groups; one non-data file (a tmp./properties/stray stand-in)
U3 == [group |-> <<1, 1, 1, 2, 2, 1>>, key |-> <<1, 2, 4, 1, 3, 3>>, data |-> <<TRUE, TRUE, TRUE, TRUE, TRUE, FALSE>>]
U2 == [group |-> <<1, 1, 2, 2, 1>>,    key |-> <<1, 3, 1, 2, 2>>,    data |-> <<TRUE, TRUE, TRUE, TRUE, FALSE>>]
U4 == [group |-> <<1, 1, 1, 2, 2, 3, 3, 1>>, key |-> <<1, 2, 5, 1, 4, 2, 3, 3>>,
       data |-> <<TRUE, TRUE, TRUE, TRUE, TRUE, TRUE, TRUE, FALSE>>]

Limits ==  \* count, dur, size; the size limit is at least one largest file (2) per group
  IF Scope = "quick"
  THEN {[count |-> 2, dur |-> None, size |-> None], [count |-> None, dur |-> 2, size |-> None],
        [count |-> None, dur |-> None, size |-> 4], [count |-> 2, dur |-> 2, size |-> 5]}
  ELSE {[count |-> c, dur |-> d, size |-> s] : c \in {None, 2}, d \in {None, 2},
                                                s \in IF Scope = "sim" THEN {None, 6, 8} ELSE {None, 4, 6}}
         \ {[count |-> None, dur |-> None, size |-> None]}

Universe == IF Scope = "quick" THEN {U2} ELSE IF Scope = "sim" THEN {U4} ELSE {U2, U3}
SizeSet == {1, 2}

MkCfg(u, l) == [group |-> u.group, key |-> u.key, data |-> u.data, count |-> l.count, dur |-> l.dur, size |-> l.size]

Free == [on |-> FALSE, d |-> <<>>]

Init ==
  /\ cfg \in {MkCfg(u, l) : u \in Universe, l \in Limits}
  /\ disk = [f \in Files |-> 0]
  /\ rec = [f \in Files |-> None]
  /\ queue = [g \in Groups |-> <<>>]
  /\ active = 0
  /\ last = Act("Init", 0, 0, {})

Batches == {S \in SUBSET Files : Cardinality(S) \in 1..2}

NFsWrite     == \E f \in Files : \E sz \in SizeSet : FsWrite(f, sz)
NFsDelete    == \E f \in Files : FsDelete(f)
NFsMove      == \E f, g \in Files : IsData(f) = IsData(g) /\ FsMove(f, g)
NEvCreated   == \E f \in Files : EvCreated(f, Free)
NEvModified  == \E f \in Files : EvModified(f, Free)
NEvDeleted   == \E f \in Files : EvDeleted(f, Free)
NEvMoved     == \E f, g \in Files : f # g /\ IsData(f) /\ IsData(g) /\ EvMoved(f, g, Free)
NAddBatch    == \E S \in Batches : AddBatch(S, Free)
NModifyBatch == \E S \in Batches : ModifyBatch(S, Free)
NRemoveBatch == \E S \in Batches : RemoveBatch(S, Free)
NRescan      == Rescan(BatchOrder(OnDisk, disk), Free)
NVerify      == Verify(Free)

Next == \/ NFsWrite \/ NFsDelete \/ NFsMove \/ NEvCreated \/ NEvModified \/ NEvDeleted \/ NEvMoved
        \/ NAddBatch \/ NModifyBatch \/ NRemoveBatch \/ NRescan \/ NVerify

Spec == Init /\ [][Next]_vars
Bounded == TLCGet("level") <= Depth

\* witnesses: each of these is false in the bounded model (vacuity guards)
W_NeverDeletes      == last.del = <<>>
W_NeverTwoDeletions == Len(last.del) < 2
W_NeverCrossGroup   == \A i \in 1..Len(last.del) : last.a \in {"EvCreated", "EvModified"} => Grp(last.del[i]) = Grp(last.f)
W_NeverStaleRecord  == \A f \in Files : rec[f] # None => disk[f] # 0
W_NeverMisSized     == \A f \in Files : (rec[f] # None /\ HasSize /\ disk[f] # 0) => rec[f] = disk[f]
=============================================================================
