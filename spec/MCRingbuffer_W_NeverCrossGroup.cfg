SPECIFICATION Spec
CONSTANTS Depth = 6
          Scope = "quick"
CONSTRAINT Bounded
INVARIANT W_NeverCrossGroup
CHECK_DEADLOCK FALSE
