SPECIFICATION Spec
CONSTANTS Depth = 6
          Scope = "quick"
CONSTRAINT Bounded
INVARIANT W_NeverDeletes
CHECK_DEADLOCK FALSE
