SPECIFICATION Spec
CONSTANTS Depth = 6
          Scope = "quick"
CONSTRAINT Bounded
INVARIANT W_NeverMisSized
CHECK_DEADLOCK FALSE
