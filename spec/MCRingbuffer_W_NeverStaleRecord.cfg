SPECIFICATION Spec
CONSTANTS Depth = 6
          Scope = "quick"
CONSTRAINT Bounded
INVARIANT W_NeverStaleRecord
CHECK_DEADLOCK FALSE
