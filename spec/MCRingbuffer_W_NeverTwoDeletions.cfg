SPECIFICATION Spec
CONSTANTS Depth = 6
          Scope = "quick"
CONSTRAINT Bounded
INVARIANT W_NeverTwoDeletions
CHECK_DEADLOCK FALSE
