SPECIFICATION Spec
CONSTANTS Depth = 3
          Scope = "quick"
CONSTRAINT Bounded
VIEW core
INVARIANT TypeOK
CHECK_DEADLOCK FALSE
