SPECIFICATION Spec
CONSTANTS Depth = 5
          Scope = "quick"
CONSTRAINT Bounded
VIEW core
INVARIANT TypeOK
INVARIANT Accounting
INVARIANT OnlyTracked
INVARIANT LimitsAfterAdd
PROPERTY DeletesOnlyTracked
PROPERTY OldestFirst
PROPERTY DeleteOnlyOnAdd
CHECK_DEADLOCK FALSE
