SPECIFICATION Spec
CONSTANTS Depth = 7
          Scope = "thorough"
CONSTRAINT Bounded
VIEW core
INVARIANT TypeOK
INVARIANT Accounting
INVARIANT OnlyTracked
INVARIANT LimitsAfterAdd
PROPERTY DeletesOnlyTracked
PROPERTY OldestFirst
PROPERTY DeleteOnlyOnAdd
CHECK_DEADLOCK FALSE
