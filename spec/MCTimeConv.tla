----------------------------- MODULE MCTimeConv -----------------------------
(* E1 for C03: the transcribed algorithms equal the exact definitions on the whole input space of a scaled
   machine (P1 = 3, P2 = 4 => 12 "picoseconds" per second; word size 2^12), for every rate n/d the property
   admits there (n < sqrt(WORD), n*d < WORD) and every index k below KMax; plus monotonicity and round trip. *)
EXTENDS TimeConv
CONSTANTS KMax, NMax, DMax
VARIABLES k, n, d
vars == <<k, n, d>>
Admissible(nn, dd) == nn * nn < WORD /\ nn * dd < WORD
Init == /\ k = 0 /\ n \in 1..NMax /\ d \in 1..DMax /\ Admissible(n, d)
Next == k < KMax /\ k' = k + 1 /\ UNCHANGED <<n, d>>
Spec == Init /\ [][Next]_vars

F == FloorAlg(k, n, d)
FloorExact == F.sec = FloorSec(k, n, d) /\ F.ps = FloorPs(k, n, d) /\ F.ps < PS
FloorNoOverflow == (F.sec < WORD) => ~F.ovf
C == CeilAlg(F.sec, F.ps, n, d)
RoundTrip == (d * PS >= n /\ F.sec < WORD) => C.idx = k
\* ceil on arbitrary timestamps of the scaled machine: every (sec, ps) with sec <= SMax
SMax == 6
CeilExact == \A sec \in 0..SMax : \A ps \in 0..(PS - 1) :
               LET c == CeilAlg(sec, ps, n, d) IN c.idx = CeilIndex(sec, ps, n, d) /\ ~c.ovf
Monotone == [][LET g == FloorAlg(k', n, d) IN g.sec > F.sec \/ (g.sec = F.sec /\ g.ps >= F.ps)]_vars
\* calendar: every day of 1970..2400 maps back (checked once, in the first state)
Calendar == (k = 0 /\ n = 1 /\ d = 1) =>
               \A y \in {1970, 1972, 1999, 2000, 2038, 2100, 2399, 2400} : \A m \in 1..12 : \A dd \in 1..MonthLen(y, m) :
                  CivilOK(DaysFromCivil(y, m, dd), y, m, dd)
\* witness: there are inputs where floor and ceil differ from truncation (the scope is not degenerate)
W_AlwaysOnGrid == FloorPs(k, n, d) = 0
=============================================================================
