SPECIFICATION Spec
CONSTANTS P1 = 3
          P2 = 4
          WORD = 4096
          KMax = 200
          NMax = 40
          DMax = 12
INVARIANT FloorExact
INVARIANT FloorNoOverflow
INVARIANT RoundTrip
INVARIANT CeilExact
INVARIANT Calendar
PROPERTY Monotone
CHECK_DEADLOCK FALSE
