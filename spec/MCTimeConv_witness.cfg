SPECIFICATION Spec
CONSTANTS P1 = 3
          P2 = 4
          WORD = 4096
          KMax = 400
          NMax = 63
          DMax = 12
INVARIANT W_AlwaysOnGrid
CHECK_DEADLOCK FALSE
