--------------------------- MODULE MCTransfer ---------------------------
(* Bounded instance of Transfer (engine E1 of C18): two channels (an RF channel and a nested metadata channel, two
   subdirectories each, a tmp. file and a stray file), every sequence of up to Depth cp / mv / ln commands with a few
   option sets, windows and channel lists into two destinations; the transferred set is the reference listing of the
   present source. *)
EXTENDS Transfer

CONSTANTS Depth

F(ch, sd, kind, t, tmp) ==
  [ch |-> ch, sd |-> sd, kind |-> kind, pfx |-> 1, t |-> t, tmp |-> tmp, ext |-> TRUE, tok |-> TRUE,
   depth |-> IF kind \in PropKinds THEN sd = 0 ELSE sd # 0]
U == [chans |-> <<[root |-> FALSE], [root |-> FALSE]>>,
      subs  |-> <<[ch |-> 1, t |-> 0, ok |-> TRUE], [ch |-> 1, t |-> 4, ok |-> TRUE],
                  [ch |-> 2, t |-> 0, ok |-> TRUE], [ch |-> 2, t |-> 4, ok |-> TRUE]>>,
      files |-> << F(1, 0, "drfprop", 0, FALSE), F(1, 1, "rf", 1, FALSE), F(1, 1, "rf", 3, FALSE), F(1, 2, "rf", 5, FALSE),
                   F(1, 2, "rf", 6, TRUE), F(1, 0, "rf", 2, FALSE),
                   F(2, 0, "dmdprop", 0, FALSE), F(2, 3, "md", 1, FALSE), F(2, 4, "md", 5, FALSE), F(2, 4, "md", 7, TRUE) >>]

Base == [drf |-> TRUE, dmd |-> TRUE, dp |-> 2, mp |-> 2, rec |-> TRUE, rev |-> FALSE, hs |-> FALSE, s |-> 0, he |-> FALSE, e |-> 0]
OptSet == {Base, [Base EXCEPT !.drf = FALSE], [Base EXCEPT !.dmd = FALSE, !.mp = 1], [Base EXCEPT !.rec = FALSE],
           [Base EXCEPT !.hs = TRUE, !.s = 2], [Base EXCEPT !.hs = TRUE, !.s = 4, !.he = TRUE, !.e = 5],
           [Base EXCEPT !.he = TRUE, !.e = 3, !.dp = 0, !.mp = 0]}
Whole == [top |-> 0, mem |-> <<1, 2>>]
Ch1   == [top |-> 1, mem |-> <<1, 2>>]      \* channel 2 is nested in channel 1
Ch2   == [top |-> 2, mem |-> <<2>>]
Scopes == {<<Whole>>, <<Ch1>>, <<Ch2>>}

Ref(o, scope) == UNION {RSet(RefList(Present(tree, src), o, scope[k], FALSE).seq) : k \in 1..Len(scope)}

Init == tree = U /\ src = LFs(U) /\ dst = <<{}, {}>> /\ last = Act("init", Base, {}, 0)
NCp == \E o \in OptSet, sc \in Scopes, d \in 1..2 : Cp(o, sc, d, Ref(o, sc))
NMv == \E o \in OptSet, sc \in Scopes, d \in 1..2 : Mv(o, sc, d, Ref(o, sc))
NLn == \E o \in OptSet, sc \in Scopes, d \in 1..2 : Ln(o, sc, d, Ref(o, sc))
Next == NCp \/ NMv \/ NLn
Spec == Init /\ [][Next]_tvars4
Bounded == TLCGet("level") <= Depth
view == <<src, dst>>

\* the reference listing of the present source is always an allowed transfer set (so no command is disabled by the guard)
RefAllowed == \A o \in OptSet, sc \in Scopes : AllowedSet(tree, src, o, sc, Ref(o, sc))
\* after a move the same listing finds nothing of what was moved, and what it still finds it found before
MovedIsGone == last.cmd = "mv" => \A sc \in Scopes : Ref(last.o, sc) \cap last.X = {}
\* tmp. and stray files never leave the source
NearMissesStay == {5, 6, 10} \subseteq src

\* witnesses (must be violated)
W_NeverEmptiesAChannel == ~(TLCGet("level") = 2 /\ last.d = 1 /\ src \cap {1, 2, 3, 4} = {} /\ 7 \in src)
W_NeverPartialWindow   == ~(TLCGet("level") = 2 /\ last.d = 1 /\ last.cmd = "mv" /\ 9 \in last.X /\ 2 \notin last.X /\ 4 \in last.X)
W_NeverForwardFill     == ~(TLCGet("level") = 2 /\ last.d = 1 /\ last.cmd = "cp" /\ last.o.hs /\ last.o.s = 4 /\ 8 \in last.X)
First(c) == TLCGet("level") = 2 /\ last.cmd = c /\ last.o = Base /\ last.d = 1 /\ last.X = {1, 2, 3, 4, 7, 8, 9}
W_NeverLn == ~First("ln")
W_NeverCp == ~First("cp")
W_NeverMv == ~First("mv")
=============================================================================
