SPECIFICATION Spec
CONSTANTS Depth = 2
CONSTRAINT Bounded
VIEW view
INVARIANT RefAllowed
CHECK_DEADLOCK FALSE
