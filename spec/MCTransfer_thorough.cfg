SPECIFICATION Spec
CONSTANTS Depth = 4
CONSTRAINT Bounded
VIEW view
INVARIANT NoLoss
INVARIANT OnlyFormatFiles
INVARIANT MovedIsGone
INVARIANT NearMissesStay
PROPERTY SourceReducedExactly
PROPERTY DestGrowsExactly
CHECK_DEADLOCK FALSE
