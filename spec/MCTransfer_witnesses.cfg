SPECIFICATION Spec
CONSTANTS Depth = 2
CONSTRAINT Bounded
INVARIANT W_NeverEmptiesAChannel
INVARIANT W_NeverPartialWindow
INVARIANT W_NeverForwardFill
INVARIANT W_NeverLn
INVARIANT W_NeverCp
INVARIANT W_NeverMv
CHECK_DEADLOCK FALSE
