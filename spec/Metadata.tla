--------------------------- MODULE Metadata ---------------------------
(***************************************************************************)
(* Digital Metadata channel of digital_rf (python/digital_rf/              *)
(* digital_metadata.py) as a state machine: one action per public call.    *)
(* Properties C12 (round trip), C13 (placement, protocol half) and C20     *)
(* (live visibility, non-destructive reading).                             *)
(*                                                                         *)
(* Sample indices are rebased by the harness (everything here fits in 31   *)
(* bits); the file partition of the index axis is the never-changing       *)
(* configuration (design rule: per-scenario configuration is a variable):  *)
(*   cfg.bound[j]   first index of file window j   (j = 1..NW+1)           *)
(*   cfg.sec[j]     file second (name time, rebased) of window j           *)
(*   cfg.schema[f]  leaf f of a sample: [name |-> "n/x", top |-> "n"]      *)
(*   cfg.fields     top-level field names                                  *)
(* A sample value is the tuple of the canonical value ids of its leaves,   *)
(* aligned with cfg.schema (the harness maps every distinct normalised     *)
(* content to one id >= 1, so that TLC compares ids); id 0 stands for a     *)
(* leaf the sample does not have (a sample may have no field at all).      *)
(*                                                                         *)
(* `store` is what was written (ghost truth, built from accepted calls     *)
(* only); `mfiles` is what the files hold.  Every reader answer is         *)
(* computed from `mfiles` the way a correct reader has to do it (candidate *)
(* files, edge filtering, backward search for the fill sample); the        *)
(* properties say that these answers are exactly the declarative function  *)
(* of `store`, whoever asks and whenever the reader was created.           *)
(***************************************************************************)
EXTENDS Integers, Sequences, FiniteSets, TLC, SequencesExt, FiniteSetsExt

VARIABLES cfg,      \* configuration (never changes)
          store,    \* index -> sample value      (ghost: the accepted writes)
          mfiles,   \* window j -> set of indices stored in that window's file
          readers,  \* reader id -> [kind, fk, old]
          rf,       \* number of RF write calls made on the same tree (C20)
          disk,     \* token standing for the recursive hash of the whole tree
          resp,     \* answer of the last call (observation)
          last      \* history: the call just made

core == <<cfg, store, mfiles, readers, rf>>
vars == <<cfg, store, mfiles, readers, rf, disk, resp, last>>

NW == Len(cfg.sec)
NL == Len(cfg.schema)
Dom == DOMAIN store
Lo(j) == cfg.bound[j]
Hi(j) == cfg.bound[j + 1] - 1
InRange(k) == cfg.bound[1] <= k /\ k < cfg.bound[NW + 1]
FileOf(k) == CHOOSE j \in 1..NW : Lo(j) <= k /\ k <= Hi(j)
Sorted(S) == SetToSortSeq(S, LAMBDA x, y : x < y)
RECURSIVE Cat(_)
Cat(ss) == IF ss = <<>> THEN <<>> ELSE Head(ss) \o Cat(Tail(ss))

NoW == <<>>
NoQ == <<>>
Act(name, r, w, q, S) == [a |-> name, r |-> r, w |-> w, q |-> q, S |-> S]

(***************************************************************************)
(* Write requests.                                                         *)
(*   w.form    "single" | "dict" | "list"                                  *)
(*   w.idxs    the sample indices of the call                              *)
(*   w.fields  (single, dict) per leaf of the schema what was passed:      *)
(*             [isstr, len (-1: the value has no length), whole, elems]    *)
(*   w.recs    (list) one sample value per index                           *)
(* The documented distribution rule of the dict form: a value that is not  *)
(* a string and whose length equals the number of samples is split one     *)
(* element per sample; any other value is stored whole with every sample.  *)
(***************************************************************************)
N(w) == Len(w.idxs)
Distributed(fd, n) == ~fd.isstr /\ fd.len = n
LeafVal(fd, n, i) == IF Distributed(fd, n) THEN fd.elems[i] ELSE fd.whole
SampleVal(w, i) ==
  IF w.form = "list" THEN w.recs[i]
  ELSE [f \in 1..NL |-> LeafVal(w.fields[f], N(w), i)]
WellFormed(w) ==
  /\ w.form \in {"single", "dict", "list"} /\ N(w) >= 1
  /\ w.form = "single" => N(w) = 1
  /\ IF w.form = "list"
     THEN Len(w.recs) = N(w) /\ \A i \in 1..N(w) : Len(w.recs[i]) = NL
     ELSE /\ Len(w.fields) = NL
          /\ \A f \in 1..NL : Distributed(w.fields[f], N(w)) => Len(w.fields[f].elems) = N(w)
  /\ \A i \in 1..N(w) : InRange(w.idxs[i])

Repeats(w, i) == \E j \in 1..(i - 1) : w.idxs[j] = w.idxs[i]
IsDupAt(w, i) == w.idxs[i] \in Dom \/ Repeats(w, i)
\* an acceptable call: ascending, nothing in it exists yet
WriteOK(w) ==
  /\ WellFormed(w)
  /\ \A i \in 1..(N(w) - 1) : w.idxs[i] < w.idxs[i + 1]
  /\ \A i \in 1..N(w) : w.idxs[i] \notin Dom
\* a call whose indices come in any order (C13 and C20 speak of every sample and every write call): nothing in it exists,
\* nothing is named twice
WriteOKAny(w) ==
  /\ WellFormed(w)
  /\ \A i, j \in 1..N(w) : i # j => w.idxs[i] # w.idxs[j]
  /\ \A i \in 1..N(w) : w.idxs[i] \notin Dom
\* the quantifier of C12 speaks of ascending write sequences: the generators (not the actions) respect it
AscendingHistory(w) == Dom = {} \/ w.idxs[1] > Max(Dom)
\* a call that tries to write an index that already exists (in the channel, or earlier in the same call)
HasDup(w) ==
  /\ WellFormed(w)
  /\ \A i \in 1..(N(w) - 1) : w.idxs[i] <= w.idxs[i + 1]
  /\ \E i \in 1..N(w) : IsDupAt(w, i)
DupPos(w) == Min({i \in 1..N(w) : IsDupAt(w, i)})
BeforeDup(w) == {w.idxs[j] : j \in 1..(DupPos(w) - 1)}
NewIn(w) == ToSet(w.idxs) \ Dom
FirstPos(w, k) == Min({i \in 1..N(w) : w.idxs[i] = k})

Apply(S, w) ==
  /\ store' = [k \in Dom \cup S |-> IF k \in Dom THEN store[k] ELSE SampleVal(w, FirstPos(w, k))]
  /\ mfiles' = [j \in 1..NW |-> mfiles[j] \cup {k \in S : FileOf(k) = j}]
Age(flag) == readers' = [r \in DOMAIN readers |-> [readers[r] EXCEPT !.old = @ \/ flag]]

\* `tok` is the hash of the tree after the call: any value (a write may change anything it likes)
WriteBatch(w, tok) ==
  /\ WriteOK(w)
  /\ Apply(ToSet(w.idxs), w)
  /\ Age(TRUE)
  /\ disk' = tok /\ resp' = "ok"
  /\ last' = Act("WriteBatch", 0, w, NoQ, ToSet(w.idxs))
  /\ UNCHANGED <<cfg, rf>>

WriteBatchAny(w, tok) ==
  /\ WriteOKAny(w)
  /\ Apply(ToSet(w.idxs), w)
  /\ Age(TRUE)
  /\ disk' = tok /\ resp' = "ok"
  /\ last' = Act("WriteBatch", 0, w, NoQ, ToSet(w.idxs))
  /\ UNCHANGED <<cfg, rf>>

\* Refused.  The property says the stored sample stays as it is; it is silent about the other samples of
\* the refused call, so any set S of them may have been stored (the code stores those before the duplicate).
WriteDup(w, S, tok) ==
  /\ HasDup(w)
  /\ S \subseteq NewIn(w)
  /\ Apply(S, w)
  /\ Age(S # {})
  /\ disk' = tok /\ resp' = "refused"
  /\ last' = Act("WriteDup", 0, w, NoQ, S)
  /\ UNCHANGED <<cfg, rf>>

RFWrite(tok) ==
  /\ rf' = rf + 1 /\ disk' = tok /\ resp' = "ok"
  /\ last' = Act("RFWrite", 0, NoW, NoQ, {})
  /\ UNCHANGED <<cfg, store, mfiles, readers>>

\* Time passes: every file becomes older than the channel's file cadence (a reader treats a file it cannot read
\* differently when the file is old - the only place where a reader may touch the tree).  Only the tree's hash changes.
TimePasses(tok) ==
  /\ disk' = tok /\ resp' = "ok"
  /\ last' = Act("TimePasses", 0, NoW, NoQ, {})
  /\ UNCHANGED <<cfg, store, mfiles, readers, rf>>

(***************************************************************************)
(* Readers.  kind "md": DigitalMetadataReader; kind "rf": DigitalRFReader  *)
(* on the tree that holds the channel (it reads the same metadata through  *)
(* read_metadata).  fk: the field names were on disk at construction.      *)
(***************************************************************************)
NewReader(r, kind) ==
  /\ r \notin DOMAIN readers
  /\ readers' = [x \in DOMAIN readers \cup {r} |->
                   IF x = r THEN [kind |-> kind, fk |-> Dom # {}, old |-> FALSE] ELSE readers[x]]
  /\ resp' = "ok"
  /\ last' = Act("NewReader", r, NoW, NoQ, {})
  /\ UNCHANGED <<cfg, store, mfiles, rf, disk>>

\* what the files say (the correct algorithm over files) ---------------------
NonEmpty == {j \in 1..NW : mfiles[j] # {}}
FileList(a, b) == Sorted({j \in NonEmpty : FileOf(a) <= j /\ j <= FileOf(b)})
KeysRange(a, b) ==
  IF a > b THEN <<>>
  ELSE LET fl == FileList(a, b) IN
       Cat([i \in 1..Len(fl) |->
              Sorted(IF i = 1 \/ i = Len(fl) THEN {k \in mfiles[fl[i]] : a <= k /\ k <= b} ELSE mfiles[fl[i]])])
BoundsAlg == IF NonEmpty = {} THEN <<>>
             ELSE <<Min(mfiles[Min(NonEmpty)]), Max(mfiles[Max(NonEmpty)])>>
\* forward fill: walk back from the file of `a` to the first file, stop at the first file that has a sample <= a
FillKey(a) ==
  IF NonEmpty = {} THEN <<>>
  ELSE LET lo == BoundsAlg[1]
           cand == {j \in NonEmpty : j <= FileOf(a) /\ \E k \in mfiles[j] : k <= a}
       IN  IF lo > a \/ cand = {} THEN <<>> ELSE << Max({k \in mfiles[Max(cand)] : k <= a}) >>
KeysAlg(q) == IF q.method = "ffill" THEN FillKey(q.a) \o KeysRange(q.a + 1, q.b) ELSE KeysRange(q.a, q.b)

SelIdx(cols) == SelectSeq([f \in 1..NL |-> f], LAMBDA f : cols = <<>> \/ cfg.schema[f].top \in ToSet(cols))
SelNames(cols) == LET s == SelIdx(cols) IN [i \in 1..Len(s) |-> cfg.schema[s[i]].name]
SelIds(v, cols) == LET s == SelIdx(cols) IN [i \in 1..Len(s) |-> v[s[i]]]
NoLeaf == 0
SelIdxOf(v, cols) == SelectSeq(SelIdx(cols), LAMBDA f : v[f] # NoLeaf)
Rows(keys, cols) == [i \in 1..Len(keys) |->
                       LET v == store[keys[i]]  s == SelIdxOf(v, cols) IN
                       <<keys[i], [n \in 1..Len(s) |-> cfg.schema[s[n]].name], [n \in 1..Len(s) |-> v[s[n]]]>>]

QueryOK(q) == /\ q.a <= q.b /\ InRange(q.a) /\ InRange(q.b) /\ q.method \in {"none", "ffill"}
              /\ ToSet(q.cols) \subseteq {cfg.schema[f].top : f \in 1..NL}
ReadAlg(q) == Rows(KeysAlg(q), q.cols)
LatestAlg == IF NonEmpty = {} THEN <<>> ELSE Rows(FillKey(BoundsAlg[2]), <<>>)
FieldSet == ToSet(cfg.fields)
\* C20 does not claim that a reader created before the first write learns the field names later
FieldsAns(r) == IF readers[r].fk THEN {FieldSet} ELSE {FieldSet, {}}

Obs(name, r, q, ans) ==
  /\ r \in DOMAIN readers
  /\ resp' = ans
  /\ last' = Act(name, r, NoW, q, {})
  /\ UNCHANGED <<cfg, store, mfiles, readers, rf, disk>>
IsMd(r) == r \in DOMAIN readers /\ readers[r].kind = "md"
IsRf(r) == r \in DOMAIN readers /\ readers[r].kind = "rf"

Read(r, q)      == IsMd(r) /\ QueryOK(q) /\ Obs("Read", r, q, ReadAlg(q))
Bounds(r)       == IsMd(r) /\ Obs("Bounds", r, NoQ, BoundsAlg)
Latest(r)       == IsMd(r) /\ Obs("Latest", r, NoQ, LatestAlg)
Fields(r, ans)  == IsMd(r) /\ ans \in FieldsAns(r) /\ Obs("Fields", r, NoQ, ans)
\* through the RF reader: read_metadata (all columns); any other RF reader call; a listing of the tree
RFMeta(r, q)    == IsRf(r) /\ QueryOK(q) /\ q.cols = <<>> /\ Obs("RFMeta", r, q, ReadAlg(q))
RFObs(r, what)  == IsRf(r) /\ Obs("RFObs", r, [what |-> what], "unconstrained")
List            == /\ resp' = "unconstrained" /\ last' = Act("List", 0, NoW, NoQ, {})
                   /\ UNCHANGED <<cfg, store, mfiles, readers, rf, disk>>

ObsActs == {"NewReader", "Read", "Bounds", "Latest", "Fields", "RFMeta", "RFObs", "List"}

(***************************************************************************)
(* Properties                                                              *)
(***************************************************************************)
In(a, b) == {k \in Dom : a <= k /\ k <= b}
FillSet(a) == LET S == {k \in Dom : k <= a} IN IF S = {} THEN {} ELSE {Max(S)}
KeysSpec(q) == Sorted(In(q.a, q.b) \cup (IF q.method = "ffill" THEN FillSet(q.a) ELSE {}))
BoundsSpec == IF Dom = {} THEN <<>> ELSE <<Min(Dom), Max(Dom)>>
LatestSpec == IF Dom = {} THEN <<>> ELSE Rows(<<Max(Dom)>>, <<>>)

TypeOK ==
  /\ \A j \in 1..NW : cfg.bound[j] <= cfg.bound[j + 1]
  /\ \A k \in Dom : InRange(k) /\ Len(store[k]) = NL
  /\ DOMAIN mfiles = 1..NW
  /\ rf \in Nat

\* C13, protocol half: every stored sample is in the file of its own window and in no other
PlacementExact == \A j \in 1..NW : mfiles[j] = {k \in Dom : Lo(j) <= k /\ k <= Hi(j)}

\* C12: a stored sample never changes or disappears (in particular not through a refused duplicate)
WriteOnce == [][\A k \in Dom : k \in DOMAIN store' /\ store'[k] = store[k]]_vars
\* ... and nothing appears that was not written by the call just made
NothingElse == [][\A k \in DOMAIN store' \ Dom : last'.a \in {"WriteBatch", "WriteDup"} /\ k \in ToSet(last'.w.idxs)]_vars

IsRead(l) == l.a \in {"Read", "RFMeta"}
\* C12: ascending, exactly the written samples of the inclusive range, with their values and field names
ReadExact == [][(IsRead(last') /\ last'.q.method = "none")
                  => resp' = Rows(Sorted(In(last'.q.a, last'.q.b)), last'.q.cols)]_vars
\* C12: forward fill adds exactly the latest sample at or before the start of the range
FfillExact == [][(IsRead(last') /\ last'.q.method = "ffill")
                   => resp' = Rows(Sorted(In(last'.q.a, last'.q.b) \cup FillSet(last'.q.a)), last'.q.cols)]_vars
BoundsExact == [][last'.a = "Bounds" => resp' = BoundsSpec]_vars
LatestIsMax == [][last'.a = "Latest" => resp' = LatestSpec]_vars
\* the same as state predicates over every query of a finite set Q (used by the bounded models)
\* (the rows of an answer are a function of its keys, so the keys are compared)
AnswersExact(Q) == /\ \A q \in Q : KeysAlg(q) = KeysSpec(q)
                   /\ BoundsAlg = BoundsSpec /\ LatestAlg = LatestSpec

\* C20: whoever asks, whenever created: the answer is the function of what has been written so far
AllReadersAgree ==
  [][/\ (IsRead(last') => resp' = Rows(KeysSpec(last'.q), last'.q.cols))
     /\ (last'.a = "Bounds" => resp' = BoundsSpec)
     /\ (last'.a = "Latest" => resp' = LatestSpec)
     /\ ((last'.a = "Fields" /\ readers[last'.r].fk) => resp' = FieldSet)]_vars
\* C20: reading never creates, modifies or deletes anything
ObservationsReadOnly ==
  [][last'.a \in ObsActs => (disk' = disk /\ store' = store /\ mfiles' = mfiles /\ rf' = rf)]_vars
=============================================================================
