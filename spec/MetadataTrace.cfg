SPECIFICATION TSpec
INVARIANT Report
INVARIANT TraceInvariant
PROPERTY WriteOnce
PROPERTY NothingElse
PROPERTY ReadExact
PROPERTY FfillExact
PROPERTY BoundsExact
PROPERTY LatestIsMax
PROPERTY AllReadersAgree
PROPERTY ObservationsReadOnly
CHECK_DEADLOCK FALSE
