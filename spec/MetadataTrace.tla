--------------------------- MODULE MetadataTrace ---------------------------
(* Trace specification for C12 / C13 (protocol half) / C20: every call made on a real DigitalMetadataWriter,
   DigitalMetadataReader, DigitalRFWriter, DigitalRFReader or lsdrf on one tree is one event.  State-changing events
   run the actions of Metadata (the files found on disk afterwards - read with raw h5py - are compared with the state
   the specification computed), observations are compared with the answer the specification computes from its own
   state.  Every event carries the recursive hash of the tree before (h0) and after (h1) the call as small tokens.
   Clause names say which part of which property an observation contradicts. *)
EXTENDS Metadata, TraceBase

allvars == <<vars, tvars>>

TInit ==
  /\ TBInit
  /\ cfg = Hdr.cfg
  /\ store = [k \in {} |-> <<>>]
  /\ mfiles = [j \in 1..Len(Hdr.cfg.sec) |-> {}]
  /\ readers = [r \in {} |-> 0]
  /\ rf = 0 /\ disk = Hdr.h0 /\ resp = "ok"
  /\ last = Act("Init", 0, NoW, NoQ, {})

Harness(c) == RejU({c}) /\ UNCHANGED vars
Pre == E.h0 = disk    \* nothing but the logged calls touches the tree

(***************************************************************************)
(* Writes: the request as passed to DigitalMetadataWriter.write, the       *)
(* result, and what raw h5py finds in the channel afterwards               *)
(*   E.files[i] = [t |-> file second, sub |-> subdirectory second,         *)
(*                 rows |-> << <<index, leaf ids>>, ... >>]                *)
(***************************************************************************)
W(e) == [form |-> e.form, idxs |-> e.idxs, fields |-> e.fields, recs |-> e.recs]
FileSet == SeqSet(E.files)
ObsPairs == UNION {{<<f.rows[i][1], f.rows[i][2]>> : i \in 1..Len(f.rows)} : f \in FileSet}
ObsCount == FoldSet(LAMBDA f, acc : acc + Len(f.rows), 0, FileSet)
ObsPlace == {<<f.t, f.sub, {f.rows[i][1] : i \in 1..Len(f.rows)}>> : f \in FileSet}
StateClauses ==
  Names({
    <<"C12-stored-sample-changed", \E k \in Dom : <<k, store[k]>> \notin ObsPairs>>,
    <<"C12-stored-samples", ObsPairs # {<<k, store'[k]>> : k \in DOMAIN store'}>>,
    <<"C13-sample-not-in-the-file-of-its-time",
      ObsPlace # {<<cfg.sec[j], cfg.sub[j], mfiles'[j]>> : j \in {x \in 1..NW : mfiles'[x] # {}}}>>,
    <<"C13-sample-in-more-than-one-file", ObsCount # Cardinality(ObsPairs)>>})
\* a wrong content ends the scenario (the state is lost); a misplaced sample does not: later reads show whether the reader finds it
AfterWrite == IF {"C12-stored-samples", "C12-stored-sample-changed"} \cap StateClauses # {}
              THEN RejU(StateClauses) ELSE AdvNote(StateClauses)

\* the harness is single-threaded and brackets everything it does itself: a tree that differs from what the last call left
\* behind was changed by the implementation after that call had returned (a deferred write, a handle closed late)
TreeMoved == RejU({"C20-tree-changed-after-a-call-had-returned"}) /\ UNCHANGED vars

TWrite ==
  /\ E.ev = "write"
  /\ LET w == W(E) IN
     IF ~Pre THEN TreeMoved
     ELSE IF WriteOK(w) \/ (Has(Hdr, "anyorder") /\ Hdr.anyorder /\ WriteOKAny(w))
     \* C12 quantifies over ascending write sequences; C20 over all interleavings of write calls (scenario flag anyorder:
     \* a call may start below what is stored and name its indices in any order)
     THEN IF ~(Has(Hdr, "anyorder") /\ Hdr.anyorder) /\ ~AscendingHistory(w) THEN Harness("harness-write-not-ascending")
          ELSE IF E.resp # "ok" THEN RejU({"C12-valid-write-refused"}) /\ UNCHANGED vars
          ELSE WriteBatchAny(w, E.h1) /\ AfterWrite
     ELSE IF HasDup(w)
     THEN IF E.resp = "ok" THEN RejU({"C12-duplicate-index-accepted"}) /\ UNCHANGED vars
          ELSE IF ~(SeqSet(E.stored) \subseteq NewIn(w))
          THEN RejU({"C12-refused-write-changed-other-samples"}) /\ UNCHANGED vars
          ELSE WriteDup(w, SeqSet(E.stored), E.h1) /\ AfterWrite
     ELSE Harness("harness-invalid-write-request")

TRfWrite ==
  /\ E.ev = "rfwrite"
  /\ IF ~Pre THEN TreeMoved ELSE RFWrite(E.h1) /\ Adv

TAge ==
  /\ E.ev = "age"
  /\ IF ~Pre THEN TreeMoved ELSE TimePasses(E.h1) /\ Adv

(***************************************************************************)
(* Read-only calls                                                         *)
(***************************************************************************)
\* C20: the hash of the tree after a read-only call is the hash before it
ReadOnlyThen(step, notes) ==
  IF ~Pre THEN TreeMoved
  ELSE IF E.h1 # disk THEN RejU({"C20-read-only-call-changed-the-tree"}) /\ UNCHANGED vars
  ELSE step /\ AdvNote(notes)

TNewReader ==
  /\ E.ev = "newreader"
  /\ IF E.r \in DOMAIN readers THEN Harness("harness-reader-id-reused")
     ELSE ReadOnlyThen(NewReader(E.r, E.kind), Names({<<"C12-reader-raised", E.raised>>}))

ObsRows(rows) == [i \in 1..Len(rows) |-> <<rows[i].k, rows[i].names, rows[i].ids>>]
Keys(rs) == [i \in 1..Len(rs) |-> rs[i][1]]

TRead ==
  /\ E.ev = "read"
  /\ LET q == [a |-> E.a, b |-> E.b, cols |-> E.cols, method |-> E.method]
         viaRf == E.api = "rfmeta"
     IN IF E.r \notin DOMAIN readers \/ ~QueryOK(q) THEN Harness("harness-invalid-query")
        ELSE IF (readers[E.r].kind = "rf") # viaRf THEN Harness("harness-wrong-reader-kind")
        ELSE LET \* the RF reader merges the channel's inherent fields into every sample; with those stripped a sample
                 \* without fields cannot be told from "no metadata there", so it is not compared on that path
                 exp == IF viaRf THEN SelectSeq(ReadAlg(q), LAMBDA row : row[2] # <<>>) ELSE ReadAlg(q)
                 obs == ObsRows(E.rows)
                 \* forward fill on a channel that holds nothing yet: the property does not say (the code raises)
                 open == q.method = "ffill" /\ Dom = {}
             IN ReadOnlyThen(IF viaRf THEN RFMeta(E.r, q) ELSE Read(E.r, q),
                  IF open THEN {} ELSE Names({
                    <<"C12-reader-raised", E.raised>>,
                    <<"C12-read-samples", ~E.raised /\ q.method = "none" /\ Keys(obs) # Keys(exp)>>,
                    <<"C12-ffill-samples", ~E.raised /\ q.method = "ffill" /\ Keys(obs) # Keys(exp)>>,
                    <<"C12-read-values", ~E.raised /\ Keys(obs) = Keys(exp) /\ obs # exp>>,
                    \* a point read of a stored sample that comes back empty: the reader did not look where the writer put it
                    <<"C13-reader-did-not-look-in-the-file-of-the-sample",
                      ~E.raised /\ ~viaRf /\ q.method = "none" /\ q.a = q.b /\ q.a \in Dom /\ Keys(obs) = <<>> >>}))

TBounds ==
  /\ E.ev = "bounds"
  /\ IF ~IsMd(E.r) THEN Harness("harness-wrong-reader-kind")
     ELSE ReadOnlyThen(Bounds(E.r),
            IF Dom = {} THEN {}     \* bounds of an empty channel: not defined by the property (the code raises)
            ELSE Names({<<"C12-reader-raised", E.raised>>,
                        <<"C12-bounds", ~E.raised /\ <<E.first, E.last>> # BoundsAlg>>}))

TLatest ==
  /\ E.ev = "latest"
  /\ IF ~IsMd(E.r) THEN Harness("harness-wrong-reader-kind")
     ELSE ReadOnlyThen(Latest(E.r),
            IF Dom = {} THEN {}
            ELSE Names({<<"C12-reader-raised", E.raised>>,
                        <<"C12-latest", ~E.raised /\ ObsRows(E.rows) # LatestAlg>>}))

TFields ==
  /\ E.ev = "fields"
  /\ IF ~IsMd(E.r) THEN Harness("harness-wrong-reader-kind")
     ELSE LET ans == IF E.has THEN SeqSet(E.names) ELSE {} IN
          ReadOnlyThen(Fields(E.r, IF ans \in FieldsAns(E.r) THEN ans ELSE FieldSet),
                       Names({<<"C12-reader-raised", E.raised>>,
                              <<"C12-field-names", ~E.raised /\ ans \notin FieldsAns(E.r)>>}))

\* RF reader calls and listings: only their effect on the tree is judged here (their answers belong to C08 / C09 / C14)
TRfObs ==
  /\ E.ev = "rfobs"
  /\ IF ~IsRf(E.r) THEN Harness("harness-wrong-reader-kind") ELSE ReadOnlyThen(RFObs(E.r, E.what), {})
TList == E.ev = "list" /\ ReadOnlyThen(List, {})

TOther == /\ E.ev \notin {"age", "write", "rfwrite", "newreader", "read", "bounds", "latest", "fields", "rfobs", "list"}
          /\ Harness("harness-unknown-event")

TNext ==
  \/ HasEvent /\ (TWrite \/ TRfWrite \/ TAge \/ TNewReader \/ TRead \/ TBounds \/ TLatest \/ TFields \/ TRfObs \/ TList \/ TOther)
  \/ Finish /\ UNCHANGED vars
TSpec == TInit /\ [][TNext]_allvars

\* the design-level properties are evaluated on every state / step of every implementation trace as well
TraceInvariant == Running => (TypeOK /\ PlacementExact)
=============================================================================
