--------------------------- MODULE Mirror ---------------------------
(***************************************************************************)
(* The mirror of digital_rf (python/digital_rf/mirror.py, with the count=1 *)
(* metadata ringbuffer of ringbuffer.py) as a state machine over two file  *)
(* trees, a bag of file events and the mirror's own file-system            *)
(* operations.  Property C17.                                              *)
(*                                                                         *)
(* Files are 1..Len(cfg.kind); cfg never changes.                          *)
(*   cfg.kind[f]   "rf" data file | "md" metadata file | "pr" properties    *)
(*   cfg.grp[f]    file group (channel path + file-name prefix)            *)
(*   cfg.key[f]    file time (rebased); distinct inside a group            *)
(*   cfg.sel[f]    TRUE: f is of a selected kind and inside the time window *)
(*   cfg.method    "copy" | "move" | "link"                                *)
(*   cfg.link      copy-like transfers hard-link when they can             *)
(*   cfg.samefs    source and destination are one file system (rename and  *)
(*                 link work across them); otherwise shutil.move is        *)
(*                 copy + unlink and linking falls back to copying         *)
(*   cfg.maxdeliv  how often the event of one file may be delivered        *)
(*   cfg.maxcrash, cfg.maxvanish   bounds on environment actions           *)
(*                                                                         *)
(* A path holds Absent, Full (the complete content of the finalized source *)
(* file of that name) or Part (anything else: a half-written copy).        *)
(*   src[f]        the finalized file f in the source tree                 *)
(*   dst.final[f]  the same relative path under the destination            *)
(*   dst.tmp[f]    its staging name  tmp.<name>  under the destination     *)
(*                                                                         *)
(* One event is handled at a time by the handler roles of DigitalRFMirror  *)
(* in their fixed order (copy-like handler, then in move mode the RF move  *)
(* handler and the metadata ringbuffer); pc walks through the operations   *)
(*   MkDirs / Cmp -> stage under tmp.<name> (CopyBegin, CopyEnd | Link |   *)
(*   MvRename | CopyBegin, CopyEnd, Unlink) -> Rename(tmp -> final) ->     *)
(*   RmDir(source directory)                                               *)
(* and a Crash may fall between any two of them.                           *)
(***************************************************************************)
EXTENDS Integers, Sequences, FiniteSets, TLC

VARIABLES cfg,    \* configuration (never changes)
          src,    \* src[f]
          dst,    \* [final |-> ..., tmp |-> ...]
          pend,   \* pend[f] = deliveries of f's event still to come (a bag: any order, duplicates, stale ones)
          pc,     \* [f, h, r, st, rep]: the event being handled, role index / name, position, "is a repeated event"
          rbq,    \* files tracked by the metadata ringbuffer (memory of the mirror process)
          hist,   \* [crashes, down, vanished, consumed]
          last    \* the action just taken [a, f]

core == <<cfg, src, dst, pend, pc, rbq, hist>>
vars == <<cfg, src, dst, pend, pc, rbq, hist, last>>

Absent == 0
Full   == 1
Part   == 2

Files   == 1..Len(cfg.kind)
Kind(f) == cfg.kind[f]
Grp(f)  == cfg.grp[f]
Key(f)  == cfg.key[f]
Sel(f)  == cfg.sel[f]
RF == {f \in Files : Kind(f) = "rf"}
MD == {f \in Files : Kind(f) = "md"}
PR == {f \in Files : Kind(f) = "pr"}
Newest(f) == Kind(f) = "md" /\ \A g \in MD : Grp(g) = Grp(f) => Key(g) <= Key(f)

Idle == [f |-> 0, h |-> 0, r |-> "none", st |-> "idle", rep |-> FALSE]
Act(a, f) == [a |-> a, f |-> f]

(***************************************************************************)
(* Handler roles                                                           *)
(***************************************************************************)
Roles == IF cfg.method = "move" THEN <<"copy", "move", "rb">> ELSE <<"copy">>
MirrorRoles == {"copy", "move"}

KindOK(r, f) ==
  CASE r = "copy" -> Kind(f) \in {"pr", "md"} \/ cfg.method # "move"
    [] r = "move" -> Kind(f) = "rf"
    [] r = "rb"   -> Kind(f) = "md"
    [] OTHER      -> FALSE
Handles(r, f) == Sel(f) /\ KindOK(r, f)

\* how role r brings the content under the staging name
StageKind(r) ==
  IF r = "move" THEN (IF cfg.samefs THEN "mvrename" ELSE "copyb")
  ELSE IF cfg.link /\ cfg.samefs THEN "link" ELSE "copyb"

NeedMirror(f) == src[f] = Full /\ dst.final[f] # Full

RbGroup(q, g) == {x \in q : Grp(x) = g}
RbOver(q, g)  == Cardinality(RbGroup(q, g)) > 1
RbOldest(q, g) == CHOOSE x \in RbGroup(q, g) : \A y \in RbGroup(q, g) : Key(x) <= Key(y)

(***************************************************************************)
(* The mirror's own operations.  An operation is (op, g): its kind and the *)
(* file it acts on.  Guard(strict, op, g): with strict = TRUE this is the  *)
(* handler program checked exhaustively (E1); with strict = FALSE it is    *)
(* what trace validation accepts from an implementation - everything the   *)
(* property leaves open (which way a copy-like handler stages, which       *)
(* tracked file a ringbuffer expires) is then not prescribed, the          *)
(* invariants below judge the result.                                      *)
(***************************************************************************)
StageOps == {"copyb", "link", "mvrename"}
Ops == {"mkdirs", "cmp", "rmtmp", "copyb", "copye", "link", "mvrename", "unlink", "rename", "rmdir", "rbremove"}

StageAllowed(strict, r, op) ==
  IF strict THEN op = StageKind(r)
  ELSE IF r = "move" THEN op \in {"mvrename", "copyb"} ELSE op \in {"link", "copyb"}

Guard(strict, op, g) ==
  LET f == pc.f   r == pc.r   st == pc.st IN
  /\ f # 0
  /\ CASE op \in {"mkdirs", "cmp"} -> r \in MirrorRoles /\ st = "open" /\ g = f
       \* a stale staging file of an interrupted run may be removed before staging again
       [] op = "rmtmp"    -> r \in MirrorRoles /\ st = "open" /\ g = f /\ NeedMirror(f) /\ dst.tmp[f] # Absent
       [] op \in StageOps -> /\ r \in MirrorRoles /\ st = "open" /\ g = f /\ KindOK(r, f)
                             /\ NeedMirror(f) /\ StageAllowed(strict, r, op)
       [] op = "copye"    -> r \in MirrorRoles /\ st = "copying" /\ g = f
       [] op = "unlink"   -> r = "move" /\ st = "unlink" /\ g = f
       [] op = "rename"   -> /\ r \in MirrorRoles /\ g = f /\ dst.tmp[f] = Full
                             \* an implementation may also publish a complete staged copy that an earlier,
                             \* interrupted run left behind (the property only asks for complete content)
                             /\ (st = "publish" \/ (~strict /\ st = "open" /\ NeedMirror(f)))
       [] op = "rmdir"    -> \/ r \in MirrorRoles /\ g = f /\ (st = "clean" \/ (st = "open" /\ ~NeedMirror(f)))
                             \/ r = "rb" /\ st = "track"
       [] op = "rbremove" -> /\ r = "rb" /\ st = "track" /\ g \in MD
                             /\ strict => (RbOver(rbq, Grp(f)) /\ g = RbOldest(rbq, Grp(f)))
       [] OTHER -> FALSE

Eff(op, g) ==   \* the trees after the operation
  CASE op = "copyb"    -> [src |-> src, dst |-> [dst EXCEPT !.tmp[g] = Part]]
    [] op = "rmtmp"    -> [src |-> src, dst |-> [dst EXCEPT !.tmp[g] = Absent]]
    [] op = "copye"    -> [src |-> src, dst |-> [dst EXCEPT !.tmp[g] = Full]]
    [] op = "link"     -> [src |-> src, dst |-> [dst EXCEPT !.tmp[g] = Full]]
    [] op = "mvrename" -> [src |-> [src EXCEPT ![g] = Absent], dst |-> [dst EXCEPT !.tmp[g] = Full]]
    [] op = "unlink"   -> [src |-> [src EXCEPT ![g] = Absent], dst |-> dst]
    [] op = "rename"   -> [src |-> src, dst |-> [dst EXCEPT !.final[g] = dst.tmp[g], !.tmp[g] = Absent]]
    [] op = "rbremove" -> [src |-> [src EXCEPT ![g] = Absent], dst |-> dst]
    [] OTHER           -> [src |-> src, dst |-> dst]

NextSt(op) ==
  CASE op \in {"copyb"}            -> "copying"
    [] op = "copye"                -> IF pc.r = "move" THEN "unlink" ELSE "publish"
    [] op \in {"link", "mvrename", "unlink"} -> "publish"
    [] op = "rename"               -> "clean"
    [] op = "rmdir"                -> IF pc.r = "rb" THEN "track" ELSE "done"
    [] OTHER                       -> pc.st

RbAfter(op, g) == IF op = "rbremove" THEN rbq \ {g} ELSE rbq

Step(op, g) ==
  /\ Guard(TRUE, op, g)
  /\ src' = Eff(op, g).src /\ dst' = Eff(op, g).dst
  /\ rbq' = RbAfter(op, g)
  /\ pc' = [pc EXCEPT !.st = NextSt(op)]
  /\ last' = Act(op, g)
  /\ UNCHANGED <<cfg, pend, hist>>

(***************************************************************************)
(* Entering / leaving a handler activation.  Enter(f, h0, rep, q): the     *)
(* first role from index h0 on that handles f; the ringbuffer records the  *)
(* file on entry when it can stat it.                                      *)
(***************************************************************************)
RECURSIVE Enter(_, _, _, _)
Enter(f, h0, rep, q) ==
  IF h0 > Len(Roles) THEN [pc |-> Idle, rbq |-> q]
  ELSE IF ~Handles(Roles[h0], f) THEN Enter(f, h0 + 1, rep, q)
  ELSE IF Roles[h0] = "rb"
       THEN [pc |-> [f |-> f, h |-> h0, r |-> "rb", st |-> "track", rep |-> rep],
             rbq |-> IF src[f] = Full THEN q \cup {f} ELSE q]
       ELSE [pc |-> [f |-> f, h |-> h0, r |-> Roles[h0], st |-> "open", rep |-> rep], rbq |-> q]

Deliver(f) ==
  /\ pc = Idle /\ ~hist.down /\ pend[f] > 0
  /\ pend' = [pend EXCEPT ![f] = @ - 1]
  /\ LET e == Enter(f, 1, pend[f] < cfg.maxdeliv /\ f \notin hist.consumed, rbq) IN pc' = e.pc /\ rbq' = e.rbq
  /\ last' = Act("Deliver", f)
  /\ UNCHANGED <<cfg, src, dst, hist>>

\* the duplicate of an event that was already handled may also never come
Skip(f) ==
  /\ pc = Idle /\ ~hist.down /\ pend[f] > 0 /\ pend[f] < cfg.maxdeliv
  /\ pend' = [pend EXCEPT ![f] = @ - 1]
  /\ last' = Act("Skip", f)
  /\ UNCHANGED <<cfg, src, dst, pc, rbq, hist>>

EndHandler ==
  /\ pc.f # 0
  /\ \/ pc.r \in MirrorRoles /\ pc.st = "done"
     \/ pc.r = "rb" /\ pc.st = "track" /\ ~RbOver(rbq, Grp(pc.f))
  /\ LET e == Enter(pc.f, pc.h + 1, pc.rep, rbq) IN pc' = e.pc /\ rbq' = e.rbq
  /\ last' = Act("EndHandler", pc.f)
  /\ UNCHANGED <<cfg, src, dst, pend, hist>>

(***************************************************************************)
(* Environment                                                             *)
(***************************************************************************)
Vanishable(f) == Kind(f) = "rf" \/ (Kind(f) = "md" /\ ~Newest(f))
Vanish(f) ==   \* somebody else removes a source file (its events become stale)
  /\ pc = Idle /\ Vanishable(f) /\ src[f] = Full
  /\ Cardinality(hist.vanished) < cfg.maxvanish
  /\ src' = [src EXCEPT ![f] = Absent]
  /\ hist' = [hist EXCEPT !.vanished = @ \cup {f}]
  /\ last' = Act("Vanish", f)
  /\ UNCHANGED <<cfg, dst, pend, pc, rbq>>
\* The newest metadata file itself is removed by somebody else.  The watcher reports that deletion in order, before
\* anything that happens later, so the ringbuffer forgets the file; `created` / `modified` events of the file may still
\* arrive afterwards (pend is untouched) and are stale then.
VanishNewest(f) ==
  /\ pc = Idle /\ Newest(f) /\ src[f] = Full
  /\ Cardinality(hist.vanished) < cfg.maxvanish
  /\ src' = [src EXCEPT ![f] = Absent]
  /\ rbq' = rbq \ {f}
  /\ hist' = [hist EXCEPT !.vanished = @ \cup {f}]
  /\ last' = Act("VanishNewest", f)
  /\ UNCHANGED <<cfg, dst, pend, pc>>

\* Somebody downstream takes a mirrored file out of the destination (a second mirror that moves it on, a consumer that
\* deletes what it has processed) and prunes the directories this empties; the mirror keeps running and has to carry on
\* in whatever is left of the destination tree
Consume(f) ==
  /\ pc = Idle /\ Kind(f) # "pr" /\ dst.final[f] = Full
  /\ Cardinality(hist.consumed) < cfg.maxvanish
  /\ dst' = [dst EXCEPT !.final[f] = Absent]
  /\ hist' = [hist EXCEPT !.consumed = @ \cup {f}]
  /\ last' = Act("Consume", f)
  /\ UNCHANGED <<cfg, src, pend, pc, rbq>>

Crash ==       \* the mirror process dies between two operations: its memory and its event queue are gone
  /\ ~hist.down /\ hist.crashes < cfg.maxcrash
  /\ pc' = Idle /\ rbq' = {} /\ pend' = [f \in Files |-> 0]
  /\ hist' = [hist EXCEPT !.crashes = @ + 1, !.down = TRUE]
  /\ last' = Act("Crash", pc.f)
  /\ UNCHANGED <<cfg, src, dst>>

Restart ==     \* a new mirror replays the files it finds in the source
  /\ hist.down
  /\ pend' = [f \in Files |-> IF src[f] = Full /\ Sel(f) THEN cfg.maxdeliv ELSE 0]
  /\ hist' = [hist EXCEPT !.down = FALSE]
  /\ last' = Act("Restart", 0)
  /\ UNCHANGED <<cfg, src, dst, pc, rbq>>

MInit(c) ==
  /\ cfg = c
  /\ src = [f \in 1..Len(c.kind) |-> Full]
  /\ dst = [final |-> [f \in 1..Len(c.kind) |-> Absent], tmp |-> [f \in 1..Len(c.kind) |-> Absent]]
  /\ pend = [f \in 1..Len(c.kind) |-> IF c.sel[f] THEN c.maxdeliv ELSE 0]
  /\ pc = Idle /\ rbq = {}
  /\ hist = [crashes |-> 0, down |-> FALSE, vanished |-> {}, consumed |-> {}]
  /\ last = Act("Init", 0)

(***************************************************************************)
(* Properties                                                              *)
(***************************************************************************)
Quiescent == pc = Idle /\ ~hist.down /\ \A f \in Files : pend[f] = 0
Obliged(f) == Sel(f) /\ f \notin hist.vanished /\ f \notin hist.consumed

\* a data file whose move was cut by a crash stays intact under its staging name
StuckTmp(f) == /\ hist.crashes > 0 /\ cfg.method = "move" /\ Kind(f) = "rf"
               /\ src[f] = Absent /\ dst.tmp[f] = Full

IntactSomewhere(f) == src[f] = Full \/ dst.final[f] = Full \/ dst.tmp[f] = Full \/ f \in hist.consumed

Fidelity   == Quiescent => \A f \in Files : Obliged(f) => (dst.final[f] = Full \/ StuckTmp(f))
Staged     == \A f \in Files : dst.final[f] \in {Absent, Full}
NoLossMove == \A f \in RF : f \notin hist.vanished => IntactSomewhere(f)
MdNoLoss   == \A f \in MD \cup PR : f \notin hist.vanished => IntactSomewhere(f)
PropsStay  == \A f \in PR : src[f] = Full
NewestMdStays == \A f \in MD : (Newest(f) /\ f \notin hist.vanished) => src[f] = Full
\* the same as a step property, which also speaks about histories in which the newest file vanished: the mirror
\* removes a metadata file from the source only while a newer one of its group is there
NewerInSource(f) == \E g \in MD : Grp(g) = Grp(f) /\ Key(g) > Key(f) /\ src[g] = Full
RemovedByMirror(f) == src[f] = Full /\ src'[f] = Absent /\ f \notin hist'.vanished
NewestMdNeverRemoved == [][\A f \in MD : RemovedByMirror(f) => NewerInSource(f)]_vars
PropsAndMdCopied ==
  /\ PropsStay
  /\ MdNoLoss
  /\ Quiescent => \A f \in MD \cup PR : Obliged(f) => dst.final[f] = Full
NoLeftovers == (Quiescent /\ hist.crashes = 0 /\ hist.vanished = {}) => \A f \in Files : dst.tmp[f] = Absent

\* repeated / late / stale events change nothing; a complete destination file is never touched again
Idempotent  == [][pc.rep => (src' = src /\ dst' = dst)]_vars
FinalStable == [][\A f \in Files : (dst.final[f] = Full /\ last'.a # "Consume") => dst'.final[f] = Full]_vars
\* the source is only ever reduced: by the move of a data file, the expiry of an older metadata file, the environment
SourceOnlyShrinks == [][\A f \in Files : src[f] = Absent => src'[f] = Absent]_vars

TypeOK ==
  /\ \A f \in Files : src[f] \in {Absent, Full} /\ dst.final[f] \in {Absent, Full, Part} /\ dst.tmp[f] \in {Absent, Full, Part}
  /\ \A f \in Files : pend[f] \in 0..cfg.maxdeliv
  /\ rbq \subseteq MD
=============================================================================
