--------------------------- MODULE MirrorTrace ---------------------------
(* Trace specification for C17.  A real DigitalRFMirror (stub observer, real start() replay, real event
   handlers driven by dispatch()) runs on a real recording while os.rename/link/makedirs/rmdir/remove,
   the data copy inside shutil.copy2 / shutil.move and filecmp.cmp are wrapped: every such call is one "op"
   event that carries the projection of both trees (per file of the recording: absent / identical to the
   finalized source file / anything else, for the final and the tmp. name) taken right after it.

   Every op is matched against the handler program of Mirror.tla (Guard with strict = FALSE: the order
   check - stage - publish - clean up, operands of the event being handled, only the operations of the
   handler's role) and its effect is compared with Eff; the state then FOLLOWS the observed trees, so that
   validation continues after a mismatch, and the invariants of Mirror are evaluated as named clauses on the
   observed trees after every operation, crash, restart and environment step; Fidelity, PropsAndMdCopied,
   NoLeftovers and the reader comparison at quiescence. *)
EXTENDS Mirror, TraceBase

VARIABLES seen,   \* files whose event has been handled completely since the mirror was (re)started
          cur     \* the event being dispatched [f, rep, snap]: file, "is a repeated event", the trees when it arrived
allvars == <<vars, tvars, seen, cur>>
NoEvent == [f |-> 0, rep |-> FALSE, snap |-> <<>>]

TInit ==
  /\ TBInit
  /\ MInit(Hdr.cfg)
  /\ seen = {} /\ cur = NoEvent

TreeSrc == E.src
TreeDst == [final |-> E.dstF, tmp |-> E.dstT]
Follow == src' = TreeSrc /\ dst' = TreeDst

Unch == src' = src /\ dst' = dst

\* the invariants of Mirror on the trees just observed (primed), as clause names
TreeClauses ==
  Names({
    <<"C17-Staged-final-name-with-incomplete-content", ~Staged'>>,
    <<"C17-NoLossMove-data-file-intact-nowhere", ~NoLossMove'>>,
    <<"C17-PropsAndMdCopied-metadata-or-properties-file-intact-nowhere", ~MdNoLoss'>>,
    <<"C17-PropsAndMdCopied-properties-file-left-the-source", ~PropsStay'>>,
    <<"C17-NewestMdStays", ~NewestMdStays'>>,
    <<"C17-NewestMdStays-newest-existing-metadata-file-removed-by-the-mirror",
      E.ev = "op" /\ \E f \in MD : src[f] = Full /\ src'[f] = Absent /\ ~NewerInSource(f)>>,
    <<"C17-Idempotent-complete-destination-file-changed",
      \E f \in Files : dst.final[f] = Full /\ dst'.final[f] # Full>>,
    <<"C17-source-file-reappeared", \E f \in Files : src[f] = Absent /\ src'[f] # Absent>>,
    <<"C17-Idempotent-unexpected-path-in-a-tree", E.stray > 0 \/ \E f \in Files : E.srcT[f] # Absent>>})

(***************************************************************************)
(* decoding one wrapped call into an operation of Mirror.tla               *)
(***************************************************************************)
IsPath(p, tree, cls) == p[1] = tree /\ p[2] = cls /\ p[3] \in Files
OpName ==
  CASE E.fn = "makedirs" /\ E.a[1] = "dst" -> "mkdirs"
    [] E.fn = "cmp" /\ IsPath(E.a, "src", "final") /\ IsPath(E.b, "dst", "final") /\ E.a[3] = E.b[3] -> "cmp"
    [] E.fn \in {"copyb", "copye", "link"} /\ IsPath(E.a, "src", "final") /\ IsPath(E.b, "dst", "tmp")
         /\ E.a[3] = E.b[3] -> E.fn
    [] E.fn = "rename" /\ IsPath(E.a, "src", "final") /\ IsPath(E.b, "dst", "tmp") /\ E.a[3] = E.b[3] -> "mvrename"
    [] E.fn = "rename" /\ IsPath(E.a, "dst", "tmp") /\ IsPath(E.b, "dst", "final") /\ E.a[3] = E.b[3] -> "rename"
    [] E.fn = "remove" /\ IsPath(E.a, "src", "final") -> IF pc.r = "rb" THEN "rbremove" ELSE "unlink"
    [] E.fn = "remove" /\ IsPath(E.a, "dst", "tmp") -> "rmtmp"
    [] E.fn = "rmdir" /\ E.a[1] = "src" /\ E.a[2] = "dir" -> "rmdir"
    [] OTHER -> "other"
OpFile == IF E.a[3] \in Files THEN E.a[3] ELSE pc.f

TOp ==
  /\ E.ev = "op"
  /\ Follow
  /\ UNCHANGED <<cfg, pend, hist, seen, cur>>
  /\ last' = Act("op", 0)
  /\ LET op == OpName   g == OpFile IN
     IF E.res # "ok"
     THEN \* a call that failed (rmdir of a non-empty directory, link / rename across devices, a vanished
          \* source) must have changed nothing; it is not a step of the handler program
          /\ UNCHANGED <<pc, rbq>>
          /\ AdvNote(TreeClauses \cup Names({<<"C17-failed-operation-changed-a-tree", ~Unch>>}))
     ELSE IF ~Guard(FALSE, op, g)
     THEN /\ UNCHANGED <<pc, rbq>>
          /\ AdvNote(TreeClauses \cup {"C17-operation-outside-the-handler-program-" \o op})
     ELSE /\ pc' = [pc EXCEPT !.st = NextSt(op)]
          /\ rbq' = RbAfter(op, g)
          /\ AdvNote(TreeClauses \cup
                     Names({<<"C17-effect-of-" \o op \o "-differs-from-the-specification",
                              [src |-> src', dst |-> dst'] # Eff(op, g)>>}))

(***************************************************************************)
(* dispatching                                                             *)
(***************************************************************************)
Counts(kind) == kind \in {"created", "modified", "moved"}
TDeliver ==
  /\ E.ev = "deliver"
  /\ IF E.f \notin Files \/ pc # Idle THEN Rej({"harness-bad-deliver"}) /\ UNCHANGED <<vars, seen, cur>>
     ELSE /\ cur' = [f |-> E.f, rep |-> E.f \in seen /\ Sel(E.f), snap |-> <<src, dst>>]
          /\ last' = Act("Deliver", E.f)
          /\ UNCHANGED <<cfg, src, dst, pend, pc, rbq, hist, seen>> /\ Adv
THandled ==
  /\ E.ev = "handled"
  /\ seen' = IF Counts(E.kind) THEN seen \cup {cur.f} ELSE seen
  /\ cur' = NoEvent
  /\ last' = Act("Handled", cur.f)
  /\ UNCHANGED <<cfg, src, dst, pend, pc, rbq, hist>>
  \* a repeated / late / stale event may be handled in any way (even by staging and publishing the same content
  \* again) as long as nothing is different afterwards
  /\ AdvNote(Names({<<"C17-Idempotent-repeated-event-changed-a-tree", cur.rep /\ cur.snap # <<src, dst>>>>}))
TBegin ==
  /\ E.ev = "begin"
  /\ IF E.f \notin Files \/ E.r \notin {"copy", "move", "rb"} THEN Rej({"harness-bad-begin"}) /\ UNCHANGED <<vars, seen, cur>>
     ELSE /\ pc' = [f |-> E.f, h |-> 0, r |-> E.r, st |-> IF E.r = "rb" THEN "track" ELSE "open",
                    rep |-> cur.f = E.f /\ cur.rep]
          /\ rbq' = IF E.r = "rb" /\ Kind(E.f) = "md" /\ src[E.f] = Full THEN rbq \cup {E.f} ELSE rbq
          /\ last' = Act("Begin", E.f)
          /\ UNCHANGED <<cfg, src, dst, pend, hist, seen, cur>> /\ Adv
TEnd ==
  /\ E.ev = "end"
  /\ pc' = Idle
  /\ last' = Act("EndHandler", pc.f)
  /\ UNCHANGED <<cfg, src, dst, pend, rbq, hist, seen, cur>>
  /\ AdvNote(Names({<<"C17-Staged-handler-returned-between-staging-and-publishing",
                      pc.st \in {"copying", "unlink", "publish"}>>,
                    <<"C17-handler-raised", Has(E, "raised") /\ E.raised>>}))

(***************************************************************************)
(* environment                                                             *)
(***************************************************************************)
TVanish ==
  /\ E.ev = "vanish"
  /\ IF E.f \notin Files \/ Kind(E.f) = "pr" \/ pc # Idle
     THEN Rej({"harness-vanished-a-protected-file"}) /\ UNCHANGED <<vars, seen, cur>>
     ELSE /\ Follow
          /\ hist' = [hist EXCEPT !.vanished = @ \cup {E.f}]
          /\ last' = Act("Vanish", E.f)
          /\ UNCHANGED <<cfg, pend, pc, rbq, seen, cur>>
          /\ AdvNote(Names({<<"harness-vanish-did-more-than-remove-one-file",
                              src' # [src EXCEPT ![E.f] = Absent] \/ dst' # dst>>}))
TConsume ==    \* a file taken out of the destination by somebody downstream (its directories pruned when empty)
  /\ E.ev = "consume"
  /\ IF E.f \notin Files \/ pc # Idle THEN Rej({"harness-bad-consume"}) /\ UNCHANGED <<vars, seen, cur>>
     ELSE /\ Follow
          /\ hist' = [hist EXCEPT !.consumed = @ \cup {E.f}]
          /\ seen' = seen \ {E.f}          \* an event of the file is no repetition any more: the destination lacks it again
          /\ last' = Act("Consume", E.f)
          /\ UNCHANGED <<cfg, pend, pc, rbq, cur>>
          /\ AdvNote(Names({<<"harness-consume-did-more-than-remove-one-destination-file",
                              src' # src \/ dst' # [dst EXCEPT !.final[E.f] = Absent]>>}))
TCrash ==
  /\ E.ev = "crash"
  /\ Follow
  /\ pc' = Idle /\ rbq' = {} /\ seen' = {} /\ cur' = NoEvent
  /\ hist' = [hist EXCEPT !.crashes = @ + 1, !.down = TRUE]
  /\ last' = Act("Crash", pc.f)
  /\ UNCHANGED <<cfg, pend>>
  /\ AdvNote(TreeClauses)
TStart ==    \* a (new) mirror object; its start() replay follows as deliver / begin / op / end events
  /\ E.ev = "start"
  /\ pc' = Idle /\ rbq' = {} /\ seen' = {} /\ cur' = NoEvent
  /\ hist' = [hist EXCEPT !.down = FALSE]
  /\ last' = Act("Restart", 0)
  /\ UNCHANGED <<cfg, src, dst, pend>> /\ Adv

StuckNow(f) == /\ hist.crashes > 0 /\ cfg.method = "move" /\ Kind(f) = "rf"
               /\ src'[f] = Absent /\ dst'.tmp[f] = Full
SeqOf(s) == [i \in 1..Len(s) |-> s[i]]
TQuiesce ==
  /\ E.ev = "quiesce"
  /\ Follow
  /\ UNCHANGED <<cfg, pend, pc, rbq, hist, seen, cur>>
  /\ last' = Act("Quiesce", 0)
  /\ AdvNote(TreeClauses \cup Names({
       <<"harness-quiesce-while-handling", pc # Idle \/ hist.down>>,
       <<"C17-Fidelity-selected-file-missing-or-different-in-destination",
         \E f \in Files : Obliged(f) /\ ~(dst'.final[f] = Full \/ StuckNow(f))>>,
       <<"C17-PropsAndMdCopied-not-in-destination",
         \E f \in MD \cup PR : Obliged(f) /\ dst'.final[f] # Full>>,
       <<"C17-Idempotent-tmp-file-left-in-destination",
         hist.crashes = 0 /\ hist.vanished = {} /\ \E f \in Files : dst'.tmp[f] # Absent>>,
       <<"C17-Fidelity-reader-on-destination-differs-from-source-truth",
         E.has_rd /\ SeqOf(E.rd) # SeqOf(Hdr.rd_truth)>>}))

Known_evs == {"op", "deliver", "handled", "begin", "end", "vanish", "consume", "crash", "start", "quiesce"}
TOther == /\ E.ev \notin Known_evs /\ Rej({"unknown-event"}) /\ UNCHANGED <<vars, seen, cur>>

TNext ==
  \/ HasEvent /\ (TOp \/ TDeliver \/ THandled \/ TBegin \/ TEnd \/ TVanish \/ TConsume \/ TCrash \/ TStart \/ TQuiesce \/ TOther)
  \/ Finish /\ UNCHANGED <<vars, seen, cur>>
TSpec == TInit /\ [][TNext]_allvars

TraceInvariant == Running => (rbq \subseteq MD /\ seen \subseteq Files)
=============================================================================
