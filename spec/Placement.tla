------------------------------ MODULE Placement ------------------------------
(***************************************************************************)
(* Which file and subdirectory hold which sample (C04, C13).               *)
(* MSPS = milliseconds per second (1000).  All divisions floor.            *)
(***************************************************************************)
EXTENDS Integers, Sequences, TLC
CONSTANT MSPS

CeilD(a, b) == (a + b - 1) \div b
\* RF: file time in ms of sample k at rate n/d with file cadence fc (ms)
RfFileMs(k, n, d, fc) == (((k * d * MSPS) \div n) \div fc) * fc
\* first sample whose time is >= t ms
FileStart(t, n, d) == CeilD(t * n, MSPS * d)
SubdirSec(t_ms, sc) == ((t_ms \div MSPS) \div sc) * sc
\* metadata: file time in s of sample k with file cadence fc (s)
MdFileSec(k, n, d, fc) == (((k * d) \div n) \div fc) * fc
=============================================================================
