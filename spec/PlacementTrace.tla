--------------------------- MODULE PlacementTrace ---------------------------
(* Trace specification for C04 / C13: every file the real writers produced contributes one record (rate, cadences,
   the time in its name, its subdirectory name, the first and last sample index it holds) with all magnitudes as
   base-10^4 limbs; TLC checks the placement inequalities exactly in multiplicative form. *)
EXTENDS TimeConv, BigNat, TraceBase

TInit == TBInit
K1000 == FromNat(1000)

\* x = ceil(t*n / (u*d))  <=>  (x-1)*u*d < t*n <= x*u*d      (u = 1000 for ms, 1 for s)
CeilIs(x, t, n, d, u) ==
  LET tn == Mul(t, n)   ud == Mul(u, d)   xud == Mul(x, ud)
  IN  Le(tn, xud) /\ (x = <<>> \/ Lt(xud, Add(tn, ud)))

SubdirNameOK(e) ==
  /\ e.sod \in 0..86399
  /\ e.sub = Add(Mul(FromNat(e.days), FromNat(86400)), FromNat(e.sod))
  /\ CivilOK(e.days, e.Y, e.M, e.D)
  /\ e.h = e.sod \div 3600 /\ e.mi = (e.sod % 3600) \div 60 /\ e.s = e.sod % 60

TRf ==
  /\ E.ev = "rf"
  /\ LET fd == Mul(Mul(E.first, E.d), K1000)
         ld == Mul(Mul(E.last, E.d), K1000)
         endms == Add(E.name, E.fc)
     IN AdvNote(Names({
       <<"C04-name-not-a-multiple-of-the-file-cadence", Mul(E.q, E.fc) # E.name>>,
       <<"C04-sample-before-its-file-window", ~Le(Mul(E.name, E.n), fd)>>,
       <<"C04-sample-after-its-file-window", ~Lt(ld, Mul(endms, E.n))>>,
       <<"C04-subdirectory-time", Mul(E.qs, E.sc) # E.sub
                                  \/ ~Le(Mul(E.sub, K1000), E.name) \/ ~Lt(E.name, Mul(Add(E.sub, E.sc), K1000))>>,
       <<"C04-subdirectory-name", ~SubdirNameOK(E) \/ (Has(E, "subok") /\ ~E.subok)>>,     \* (subok: the file lies in a directory
                                                                                         \*  whose name has the subdirectory form)
       <<"C04-continuous-file-window", E.cont /\ (~CeilIs(E.first, E.name, E.n, E.d, K1000)
                                                  \/ ~CeilIs(Add(E.last, One), endms, E.n, E.d, K1000))>>,
       <<"C04-index-in-two-files", E.overlap>>,
       <<"C04-valid-write-next-to-a-file-boundary-refused", Has(E, "raised") /\ E.raised>>}))

\* a metadata sample k stored by the writer in file <prefix>@T.h5 of subdirectory `sub`; found: the reader returned it for read(k, k)
TMd ==
  /\ E.ev = "md"
  /\ LET kd == Mul(E.k, E.d) IN
     AdvNote(Names({
       <<"C13-file-time-not-a-multiple-of-the-cadence", Mul(E.q, E.fc) # E.name>>,
       <<"C13-sample-before-its-file", ~Le(Mul(E.name, E.n), kd)>>,
       <<"C13-sample-after-its-file", ~Lt(kd, Mul(Add(E.name, E.fc), E.n))>>,
       <<"C13-subdirectory-time", Mul(E.qs, E.sc) # E.sub \/ ~Le(E.sub, E.name) \/ ~Lt(E.name, Add(E.sub, E.sc))>>,
       <<"C13-subdirectory-name", ~SubdirNameOK(E)>>,
       <<"C13-stored-in-more-than-one-file", E.nfiles # 1>>,
       <<"C13-reader-did-not-find-the-sample", ~E.found>>,
       <<"C13-read-latest-missed-the-sample", ~E.latest>>}))

TOther == E.ev \notin {"rf", "md"} /\ Rej({"unknown-event"})
TNext == (HasEvent /\ (TRf \/ TMd \/ TOther)) \/ Finish
TSpec == TInit /\ [][TNext]_tvars
=============================================================================
