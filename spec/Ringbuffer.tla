--------------------------- MODULE Ringbuffer ---------------------------
(***************************************************************************)
(* The ringbuffer event handler of digital_rf (python/digital_rf/          *)
(* ringbuffer.py) as a state machine over file names, sizes and events.    *)
(* Property C16.                                                           *)
(*                                                                         *)
(* Files are 1..Len(cfg.key); cfg never changes (design rule: per-scenario *)
(* configuration is a variable, so that one JVM can validate many traces). *)
(*   cfg.group[f]  file group (channel path, file-name prefix)             *)
(*   cfg.key[f]    file time in ms (rebased)                               *)
(*   cfg.data[f]   TRUE for a finalized data / metadata file; FALSE for    *)
(*                 anything else (properties file, tmp. file, stray file)  *)
(*   cfg.count / cfg.dur / cfg.size   limits, None = not configured        *)
(*                                                                         *)
(* Where the property is silent the specification is nondeterministic:     *)
(* expiry removes the oldest tracked file of SOME group for which a limit  *)
(* is exceeded (own-group count/duration, or the global size), and goes on *)
(* until no limit is exceeded.  Which group the size expiry picks is not   *)
(* prescribed.                                                             *)
(***************************************************************************)
EXTENDS Integers, Sequences, FiniteSets, TLC, SequencesExt, FiniteSetsExt

VARIABLES cfg,     \* configuration (never changes)
          disk,    \* disk[f]  = size of file f on disk, 0 = absent
          rec,     \* rec[f]   = size recorded by the handler, None = not tracked
          queue,   \* queue[g] = sequence of tracked files of group g, ascending key
          active,  \* sum of recorded sizes (0 when no size limit is configured)
          last     \* history: the action just taken [a, f, g, S, del]

core == <<cfg, disk, rec, queue, active>>
vars == <<cfg, disk, rec, queue, active, last>>

None   == -1
Files  == 1..Len(cfg.key)
Groups == {cfg.group[f] : f \in Files}
Key(f) == cfg.key[f]
Grp(f) == cfg.group[f]
IsData(f) == cfg.data[f]
HasSize == cfg.size # None
RecSize(sz) == IF HasSize THEN sz ELSE 1    \* sizes are only kept current when a size limit exists

Dur(q) == IF q = <<>> THEN 0 ELSE Key(q[Len(q)]) - Key(q[1])

Insert(q, f) ==
  LET i == Cardinality({j \in 1..Len(q) : Key(q[j]) < Key(f)})
  IN  SubSeq(q, 1, i) \o <<f>> \o SubSeq(q, i + 1, Len(q))
Without(q, f) == SelectSeq(q, LAMBDA x : x # f)

(***************************************************************************)
(* Working state of one handler call.  `guide` is the deletion order       *)
(* observed in the implementation (trace validation); unguided in E1.      *)
(***************************************************************************)
Work(guided, guide) ==
  [disk |-> disk, rec |-> rec, queue |-> queue, active |-> active,
   del |-> <<>>, guided |-> guided, guide |-> guide, eff |-> FALSE]   \* eff: some report in this call named a file that exists

Exceeded(w, g) ==
  LET q == w.queue[g] IN
  /\ q # <<>>
  /\ \/ cfg.count # None /\ Len(q) > cfg.count
     \/ cfg.dur # None /\ Dur(q) > cfg.dur
     \/ HasSize /\ w.active > cfg.size

DelHead(w, g) ==
  LET d == Head(w.queue[g]) IN
  [w EXCEPT !.queue[g] = Tail(@), !.rec[d] = None,
            !.active = IF HasSize THEN @ - w.rec[d] ELSE 0,
            !.disk[d] = 0, !.del = Append(@, d),
            !.guide = IF w.guided THEN Tail(@) ELSE @]

Cands(w) == {g \in Groups : /\ Exceeded(w, g)
                            /\ (~w.guided \/ (w.guide # <<>> /\ Head(w.queue[g]) = Head(w.guide)))}

RECURSIVE Exp(_)
Exp(w) == IF \A g \in Groups : ~Exceeded(w, g) THEN {w}
          ELSE UNION {Exp(DelHead(w, g)) : g \in Cands(w)}

\* one record added; sz = size returned by stat (0 = file absent / stat failed)
AddOne(w, f, sz) ==
  IF ~IsData(f) \/ sz = 0 THEN {w}
  ELSE LET tracked == w.rec[f] # None
           w1 == [w EXCEPT !.rec[f] = RecSize(sz), !.eff = TRUE,
                           !.queue[Grp(f)] = IF tracked THEN @ ELSE Insert(@, f),
                           !.active = IF HasSize THEN @ + sz - (IF tracked THEN w.rec[f] ELSE 0) ELSE 0]
       IN  Exp(w1)

ModOne(w, f, sz) ==
  IF ~IsData(f) \/ sz = 0 THEN {w}
  ELSE IF w.rec[f] = None THEN AddOne(w, f, sz)
  ELSE {[w EXCEPT !.rec[f] = RecSize(sz),
                  !.active = IF HasSize THEN @ + sz - w.rec[f] ELSE 0]}

RemOne(w, f) ==
  IF w.rec[f] = None THEN {w}
  ELSE {[w EXCEPT !.rec[f] = None, !.queue[Grp(f)] = Without(@, f),
                  !.active = IF HasSize THEN @ - w.rec[f] ELSE 0]}

\* A batch processes a sequence of files.  Sizes are those of the stat made for the batch (snap);
\* if an earlier element of the same batch expired the file meanwhile, skipping it or adding the
\* stale record are both allowed (the property does not say which).
SzChoices(w, f, snap) == IF w.disk[f] = 0 /\ snap[f] # 0 THEN {0, snap[f]} ELSE {snap[f]}
RECURSIVE AddSeq(_, _, _)
AddSeq(W, fs, snap) ==
  IF fs = <<>> THEN W
  ELSE AddSeq(UNION {UNION {AddOne(w, Head(fs), sz) : sz \in SzChoices(w, Head(fs), snap)} : w \in W},
              Tail(fs), snap)
RECURSIVE ModSeq(_, _, _)
ModSeq(W, fs, snap) ==
  IF fs = <<>> THEN W
  ELSE ModSeq(UNION {UNION {ModOne(w, Head(fs), sz) : sz \in SzChoices(w, Head(fs), snap)} : w \in W},
              Tail(fs), snap)
RECURSIVE RemSeq(_, _)
RemSeq(W, fs) == IF fs = <<>> THEN W ELSE RemSeq(UNION {RemOne(w, Head(fs)) : w \in W}, Tail(fs))

\* batch order of the sorted variants: ascending (key, size at the stat, file id)
BatchOrder(S, snap) ==
  SetToSortSeq(S, LAMBDA x, y : \/ Key(x) < Key(y)
                                \/ Key(x) = Key(y) /\ snap[x] < snap[y]
                                \/ Key(x) = Key(y) /\ snap[x] = snap[y] /\ x <= y)

Done(w) == w.guided => w.guide = <<>>

Commit(w, a) ==
  /\ Done(w)
  /\ disk' = w.disk /\ rec' = w.rec /\ queue' = w.queue /\ active' = w.active
  /\ last' = [a EXCEPT !.del = w.del, !.eff = w.eff]
  /\ UNCHANGED cfg

Act(name, f, g, S) == [a |-> name, f |-> f, g |-> g, S |-> S, del |-> <<>>, eff |-> FALSE]

(***************************************************************************)
(* Environment: what happens to the files themselves.                      *)
(***************************************************************************)
FsWrite(f, sz) ==   \* create, grow or rewrite file f
  /\ sz > 0 /\ disk[f] # sz
  /\ disk' = [disk EXCEPT ![f] = sz]
  /\ last' = Act("FsWrite", f, sz, {})
  /\ UNCHANGED <<cfg, rec, queue, active>>
FsDelete(f) ==
  /\ disk[f] # 0
  /\ disk' = [disk EXCEPT ![f] = 0]
  /\ last' = Act("FsDelete", f, 0, {})
  /\ UNCHANGED <<cfg, rec, queue, active>>
FsMove(f, g) ==
  /\ f # g /\ disk[f] # 0 /\ disk[g] = 0
  /\ disk' = [disk EXCEPT ![g] = disk[f], ![f] = 0]
  /\ last' = Act("FsMove", f, g, {})
  /\ UNCHANGED <<cfg, rec, queue, active>>

(***************************************************************************)
(* Handler calls.  Every one may arrive late, twice or never; none of them *)
(* has a precondition on the file-system state.                            *)
(***************************************************************************)
\* candidate outcomes (sets of working states) of each handler call
CCreated(f, G)  == AddOne(Work(G.on, G.d), f, disk[f])
CModified(f, G) == ModOne(Work(G.on, G.d), f, disk[f])
CDeleted(f, G)  == RemOne(Work(G.on, G.d), f)
CMoved(f, g, G) == UNION {AddOne(w1, g, w1.disk[g]) : w1 \in RemOne(Work(G.on, G.d), f)}
CAddBatch(S, G)    == AddSeq({Work(G.on, G.d)}, BatchOrder(S, disk), disk)
CModifyBatch(S, G) == ModSeq({Work(G.on, G.d)}, BatchOrder(S, disk), disk)
CRemoveBatch(S, G) == RemSeq({Work(G.on, G.d)}, SetToSeq(S))

EvCreated(f, G)  == \E w \in CCreated(f, G) : Commit(w, Act("EvCreated", f, 0, {}))
EvModified(f, G) == \E w \in CModified(f, G) : Commit(w, Act("EvModified", f, 0, {}))
EvDeleted(f, G)  == \E w \in CDeleted(f, G) : Commit(w, Act("EvDeleted", f, 0, {}))
EvMoved(f, g, G) == \E w \in CMoved(f, g, G) : Commit(w, Act("EvMoved", f, g, {}))  \* both ends match the filter
AddBatch(S, G)    == \E w \in CAddBatch(S, G) : Commit(w, Act("AddBatch", 0, 0, S))
ModifyBatch(S, G) == \E w \in CModifyBatch(S, G) : Commit(w, Act("ModifyBatch", 0, 0, S))
RemoveBatch(S, G) == \E w \in CRemoveBatch(S, G) : Commit(w, Act("RemoveBatch", 0, 0, S))

\* start-up scan: every data file on disk, in listing order `ord` (unsorted, lazily stat-ed)
OnDisk == {f \in Files : IsData(f) /\ disk[f] # 0}
Tracked == {f \in Files : rec[f] # None}
RECURSIVE AddLazy(_, _)
AddLazy(W, fs) ==
  IF fs = <<>> THEN W
  ELSE AddLazy(UNION {AddOne(w, Head(fs), w.disk[Head(fs)]) : w \in W}, Tail(fs))
CRescan(ord, G) == AddLazy({Work(G.on, G.d)}, ord)
Rescan(ord, G) ==
  /\ ToSet(ord) = OnDisk /\ Len(ord) = Cardinality(OnDisk)
  /\ \E w \in CRescan(ord, G) : Commit(w, Act("Rescan", 0, 0, {}))

\* verification after an observer restart: forget vanished files, (re-)add files on disk, refresh the rest
CVerify(G) ==
  LET gone == Tracked \ OnDisk
      both == Tracked \cap OnDisk
  \* the three phases are separate calls: the refresh phase stats the files after the add phase has run
  IN UNION {UNION {UNION {ModSeq({w2}, BatchOrder(both, w2.disk), w2.disk)
                          : w2 \in AddSeq({w1}, BatchOrder(addset, disk), disk)}
                   : w1 \in RemSeq({Work(G.on, G.d)}, SetToSeq(gone))}
            : addset \in {OnDisk \ Tracked, OnDisk}}
Verify(G) == \E w \in CVerify(G) : Commit(w, Act("Verify", 0, 0, {}))

HandlerActs == {"EvCreated", "EvModified", "EvDeleted", "EvMoved", "AddBatch", "ModifyBatch",
                "RemoveBatch", "Rescan", "Verify"}
AddActs == {"EvCreated", "EvMoved", "AddBatch", "Rescan", "Verify"}

(***************************************************************************)
(* Properties                                                              *)
(***************************************************************************)
SumSizes == FoldSet(LAMBDA f, acc : acc + rec[f], 0, Tracked)

Accounting ==
  /\ \A g \in Groups :
       LET q == queue[g] IN
       /\ ToSet(q) = {f \in Tracked : Grp(f) = g}
       /\ Len(q) = Cardinality(ToSet(q))
       /\ \A i \in 1..Len(q) - 1 : Key(q[i]) <= Key(q[i + 1])
  /\ active = IF HasSize THEN SumSizes ELSE 0

OnlyTracked == \A f \in Tracked : IsData(f)

\* a handler step changes the disk only by deleting data files that it tracked (at the step's start, or
\* because the same call reported them), and every such deletion is in the step's deletion record
DeletesOnlyTracked ==
  [][last'.a \in HandlerActs =>
       \A f \in Files : disk'[f] # disk[f] =>
          /\ disk'[f] = 0 /\ IsData(f) /\ f \in ToSet(last'.del)
          /\ (rec[f] # None \/ last'.a \in {"AddBatch", "ModifyBatch", "Rescan", "Verify"} \/ f \in {last'.f, last'.g})]_vars

\* strictly oldest first within a group: after the step nothing older than a deleted file is still tracked,
\* unless it was (re-)added by the very same batch
OldestFirst ==
  [][\A i \in 1..Len(last'.del) :
       LET d == last'.del[i] IN
       \A f \in Files : (Grp(f) = Grp(d) /\ Key(f) < Key(d) /\ rec[f] # None) =>
                            (rec'[f] = None \/ f \in ToSet(last'.del))]_vars   \* (a batch may re-report a file it expired)

LimitsHold ==
  /\ \A g \in Groups : /\ cfg.count # None => Len(queue[g]) <= cfg.count
                       /\ cfg.dur # None => Dur(queue[g]) <= cfg.dur
LimitsAfterAdd ==
  /\ LimitsHold
  \* (Verify ends with a refresh of the sizes of files already tracked, which - like any `modified` report - does not expire)
  /\ (last.a \in (AddActs \ {"Verify"}) /\ last.eff /\ HasSize) => active <= cfg.size

\* deletions happen only in steps that report or re-scan files (never on a bare delete / remove)
DeleteOnlyOnAdd == [][last'.del # <<>> => last'.a \in (AddActs \cup {"EvModified", "ModifyBatch"})]_vars

\* a deletion needs an exceeded limit, stated on the *truth* rather than on the handler's counters:
\* count: the group held more than `count` files counting the new one; size: tracked sizes exceed `size`
TypeOK ==
  /\ \A f \in Files : disk[f] \in Nat /\ (rec[f] = None \/ rec[f] \in Nat)
  /\ active \in Nat
=============================================================================
