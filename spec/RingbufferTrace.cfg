SPECIFICATION TSpec
INVARIANT Report
INVARIANT TraceInvariant
PROPERTY OldestFirst
PROPERTY DeletesOnlyTracked
CHECK_DEADLOCK FALSE
