--------------------------- MODULE RingbufferTrace ---------------------------
(* Trace specification for C16: events recorded from a real DigitalRFRingbufferHandler are
   replayed through the actions of Ringbuffer; the deletion order seen in the implementation
   guides the nondeterministic expiry, the projected state is compared after every call. *)
EXTENDS Ringbuffer, TraceBase

allvars == <<vars, tvars>>

TInit ==
  /\ TBInit
  /\ cfg = Hdr.cfg
  /\ disk = Hdr.disk0
  \* a scenario may start from any state reached earlier (exhaustive exploration of the implementation, E2)
  /\ rec = IF Has(Hdr, "rec0") THEN Hdr.rec0 ELSE [f \in 1..Len(Hdr.cfg.key) |-> None]
  /\ queue = IF Has(Hdr, "queue0") THEN [g \in {Hdr.cfg.group[f] : f \in 1..Len(Hdr.cfg.key)} |-> Hdr.queue0[g]]
             ELSE [g \in {Hdr.cfg.group[f] : f \in 1..Len(Hdr.cfg.key)} |-> <<>>]
  /\ active = IF Has(Hdr, "active0") THEN Hdr.active0 ELSE 0
  /\ last = Act("Init", 0, 0, {})

G == [on |-> TRUE, d |-> E.del]

\* names of the logged observations that differ from the state the specification computed
Mismatch(w) ==
  {c \in {"disk", "records", "queues", "active_size"} :
     \/ c = "disk" /\ E.disk # w.disk
     \/ c = "records" /\ E.rec # w.rec
     \/ c = "queues" /\ \E g \in Groups : E.queue[g] # w.queue[g]
     \/ c = "active_size" /\ E.active # w.active}

Handle(C, a) ==
  LET V == {w \in C : Done(w)} IN
  IF V = {} THEN Rej({"deletions-not-a-valid-expiry"}) /\ UNCHANGED vars
  ELSE \E w \in V :
         /\ Commit(w, a)
         /\ IF Mismatch(w) = {} THEN Adv ELSE Rej(Mismatch(w))

FileOK(f) == f \in Files

TFs ==
  \/ /\ E.a = "FsWrite" /\ disk' = [disk EXCEPT ![E.f] = E.sz]
     /\ last' = Act("FsWrite", E.f, E.sz, {}) /\ UNCHANGED <<cfg, rec, queue, active>> /\ Adv
  \/ /\ E.a = "FsDelete" /\ disk' = [disk EXCEPT ![E.f] = 0]
     /\ last' = Act("FsDelete", E.f, 0, {}) /\ UNCHANGED <<cfg, rec, queue, active>> /\ Adv
  \/ /\ E.a = "FsMove" /\ disk' = [disk EXCEPT ![E.g] = disk[E.f], ![E.f] = 0]
     /\ last' = Act("FsMove", E.f, E.g, {}) /\ UNCHANGED <<cfg, rec, queue, active>> /\ Adv

\* a deletion of something that is not a file of the universe is logged as file 0
Foreign == \E i \in 1..Len(E.del) : E.del[i] \notin Files

THandler ==
  /\ E.a \in HandlerActs
  /\ IF Foreign THEN Rej({"deleted-a-path-outside-the-tracked-files"}) /\ UNCHANGED vars
     ELSE CASE E.a = "EvCreated"   -> Handle(CCreated(E.f, G), Act("EvCreated", E.f, 0, {}))
            [] E.a = "EvModified"  -> Handle(CModified(E.f, G), Act("EvModified", E.f, 0, {}))
            [] E.a = "EvDeleted"   -> Handle(CDeleted(E.f, G), Act("EvDeleted", E.f, 0, {}))
            [] E.a = "EvMoved"     ->
                 \* the event filter turns a move with one non-matching end into a delete / create
                 IF IsData(E.f) /\ IsData(E.g) THEN Handle(CMoved(E.f, E.g, G), Act("EvMoved", E.f, E.g, {}))
                 ELSE IF IsData(E.f) THEN Handle(CDeleted(E.f, G), Act("EvDeleted", E.f, 0, {}))
                 ELSE Handle(CCreated(E.g, G), Act("EvCreated", E.g, 0, {}))
            [] E.a = "AddBatch"    -> Handle(CAddBatch(SeqSet(E.S), G), Act("AddBatch", 0, 0, SeqSet(E.S)))
            [] E.a = "ModifyBatch" -> Handle(CModifyBatch(SeqSet(E.S), G), Act("ModifyBatch", 0, 0, SeqSet(E.S)))
            [] E.a = "RemoveBatch" -> Handle(CRemoveBatch(SeqSet(E.S), G), Act("RemoveBatch", 0, 0, SeqSet(E.S)))
            [] E.a = "Rescan"      ->
                 IF SeqSet(E.ord) # OnDisk \/ Len(E.ord) # Cardinality(OnDisk)
                 THEN Rej({"rescan-listing-differs-from-disk"}) /\ UNCHANGED vars
                 ELSE Handle(CRescan(E.ord, G), Act("Rescan", 0, 0, {}))
            [] E.a = "Verify"      -> Handle(CVerify(G), Act("Verify", 0, 0, {}))

TOther == /\ E.a \notin (HandlerActs \cup {"FsWrite", "FsDelete", "FsMove"})
          /\ Rej({"handler-raised-an-exception"}) /\ UNCHANGED vars

TNext ==
  \/ HasEvent /\ (TFs \/ THandler \/ TOther)
  \/ Accept /\ UNCHANGED vars

TSpec == TInit /\ [][TNext]_allvars

\* the design-level invariants are evaluated on every state of every implementation trace as well
TraceInvariant == Running => (Accounting /\ OnlyTracked /\ LimitsHold)
=============================================================================
