------------------------------- MODULE Runs -------------------------------
(* Sets of sample indices as canonical run sequences: sorted, disjoint, non-adjacent <<lo, hi>> pairs.
   A file with 4*10^6 samples costs the same as one with 4. *)
EXTENDS Integers, Sequences, FiniteSets, SequencesExt, FiniteSetsExt
Lo(r) == r[1]
Hi(r) == r[2]
Max2(a, b) == IF a > b THEN a ELSE b
Min2(a, b) == IF a < b THEN a ELSE b
RECURSIVE Coalesce(_)
Coalesce(s) == IF Len(s) <= 1 THEN s
               ELSE IF Lo(s[2]) <= Hi(s[1]) + 1
                    THEN Coalesce(<< <<Lo(s[1]), Max2(Hi(s[1]), Hi(s[2]))>> >> \o SubSeq(s, 3, Len(s)))
                    ELSE <<s[1]>> \o Coalesce(Tail(s))
Canon(S) == Coalesce(SetToSortSeq(S, LAMBDA x, y : Lo(x) < Lo(y) \/ (Lo(x) = Lo(y) /\ Hi(x) <= Hi(y))))
\* insertion into a canonical sequence without sorting
AddRun(rs, r) ==
  LET before == SelectSeq(rs, LAMBDA x : Hi(x) + 1 < Lo(r))
      after  == SelectSeq(rs, LAMBDA x : Lo(x) > Hi(r) + 1)
      mid    == SelectSeq(rs, LAMBDA x : ~(Hi(x) + 1 < Lo(r)) /\ ~(Lo(x) > Hi(r) + 1))
      lo     == IF mid = <<>> THEN Lo(r) ELSE Min2(Lo(r), Lo(mid[1]))
      hi     == IF mid = <<>> THEN Hi(r) ELSE Max2(Hi(r), Hi(mid[Len(mid)]))
  IN  before \o << <<lo, hi>> >> \o after
Union2(rs, qs) == Canon(ToSet(rs) \cup ToSet(qs))
Clip(rs, a, b) == SelectSeq([i \in 1..Len(rs) |-> <<Max2(Lo(rs[i]), a), Min2(Hi(rs[i]), b)>>],
                            LAMBDA r : Lo(r) <= Hi(r))
Card(rs) == FoldSeq(LAMBDA r, acc : acc + Hi(r) - Lo(r) + 1, 0, rs)
Overlaps(rs, a, b) == \E i \in 1..Len(rs) : Lo(rs[i]) <= b /\ a <= Hi(rs[i])
Covers(rs, a, b) == \E i \in 1..Len(rs) : Lo(rs[i]) <= a /\ b <= Hi(rs[i])
Member(rs, k) == Covers(rs, k, k)
MaxHi(rs) == Hi(rs[Len(rs)])
MinLo(rs) == Lo(rs[1])
SubsetRuns(rs, qs) == \A i \in 1..Len(rs) : Covers(qs, Lo(rs[i]), Hi(rs[i]))
\* complement of rs inside [a, b]
RECURSIVE GapsIn(_, _, _)
GapsIn(rs, a, b) ==
  IF a > b THEN <<>>
  ELSE IF rs = <<>> THEN << <<a, b>> >>
  ELSE IF Hi(rs[1]) < a THEN GapsIn(Tail(rs), a, b)
  ELSE IF Lo(rs[1]) > b THEN << <<a, b>> >>
  ELSE (IF Lo(rs[1]) > a THEN << <<a, Lo(rs[1]) - 1>> >> ELSE <<>>) \o GapsIn(Tail(rs), Hi(rs[1]) + 1, b)
Minus(rs, qs) == \* rs \ qs
  Canon(UNION {ToSet(GapsIn(qs, Lo(rs[i]), Hi(rs[i]))) : i \in 1..Len(rs)})
IsCanon(rs) == /\ \A i \in 1..Len(rs) : Lo(rs[i]) <= Hi(rs[i])
               /\ \A i \in 1..Len(rs) - 1 : Hi(rs[i]) + 1 < Lo(rs[i + 1])
=============================================================================
