------------------------------ MODULE TimeConv ------------------------------
(***************************************************************************)
(* Sample index <-> time (property C03).                                   *)
(*  - Definitions: what the conversions must return (exact rationals).     *)
(*  - FloorAlg / CeilAlg: transcriptions of digital_rf_get_timestamp_floor *)
(*    and digital_rf_get_sample_ceil, parameterised by the unit constants  *)
(*    P1 (picoseconds per nanosecond; 1000), P2 (nanoseconds per second;   *)
(*    10^9) and the machine word WORD (2^64), so that TLC can check them   *)
(*    against the definitions on the WHOLE input space of a scaled machine.*)
(*  - Civil: days since 1970-01-01 -> proleptic Gregorian (Y, M, D).       *)
(***************************************************************************)
EXTENDS Integers, Sequences, TLC

CONSTANTS P1, P2, WORD
PS == P1 * P2

\* ---- what is required ----
FloorSec(k, n, d) == (k * d) \div n
FloorPs(k, n, d) == (((k * d) % n) * PS) \div n
CeilDiv(a, b) == (a + b - 1) \div b
CeilIndex(sec, ps, n, d) == CeilDiv((sec * PS + ps) * n, d * PS)

\* ---- what the C code computes (ovf: some intermediate left the machine word) ----
FloorAlg(k, n, d) ==
  LET q1 == k \div n          r1 == k % n
      s1 == q1 * d            t == r1 * d
      q2 == t \div n          r2 == t % n
      a == PS \div n          b == PS % n
      ps == r2 * a + (r2 * b) \div n
  IN [sec |-> s1 + q2, ps |-> ps, ovf |-> (s1 >= WORD \/ t >= WORD \/ r2 * a >= WORD \/ r2 * b >= WORD \/ ps >= WORD)]

CeilAlg(sec, ps0, n, d) ==
  LET ns == ps0 \div P1       ps == ps0 % P1
      \* picosecond part
      pd == (ps \div d) * n + ((ps % d) * n) \div d
      pr == ((ps % d) * n) % d
      \* nanosecond part
      nd == (ns \div d) * n + ((ns % d) * n) \div d
      nr == ((ns % d) * n) % d
      rem1 == pr + nr * P1
      quo1 == pd + rem1 \div d
      rem1b == rem1 % d
      nd2 == nd + quo1 \div P1
      quo1b == quo1 % P1
      rem2 == rem1b + quo1b * d
      rem2c == rem2 \div P1 + (IF rem2 % P1 # 0 THEN 1 ELSE 0)
      \* second part
      sd == (sec \div d) * n + ((sec % d) * n) \div d
      sr == ((sec % d) * n) % d
      rem3 == rem2c + sr * P2
      quo3 == nd2 + rem3 \div d
      rem3b == rem3 % d
      sd2 == sd + quo3 \div P2
      quo3b == quo3 % P2
      rem4 == rem3b + quo3b * d
      rem4c == rem4 \div P2 + (IF rem4 % P2 # 0 THEN 1 ELSE 0)
  IN [idx |-> sd2 + (IF rem4c # 0 THEN 1 ELSE 0),
      ovf |-> (\E x \in {(ps % d) * n, (ns % d) * n, nr * P1, rem1, quo1b * d, rem2, (sec % d) * n, sr * P2, rem3, quo3b * d, rem4,
                         (sec \div d) * n} : x >= WORD)]

\* ---- calendar ----
IsLeap(y) == (y % 4 = 0 /\ y % 100 # 0) \/ y % 400 = 0
DaysInYear(y) == IF IsLeap(y) THEN 366 ELSE 365
MonthLen(y, m) == IF m = 2 THEN (IF IsLeap(y) THEN 29 ELSE 28) ELSE IF m \in {4, 6, 9, 11} THEN 30 ELSE 31
\* days from civil (Howard Hinnant's algorithm), valid for y >= 1
DaysFromCivil(y, m, d) ==
  LET y1 == IF m <= 2 THEN y - 1 ELSE y
      era == y1 \div 400
      yoe == y1 - era * 400
      mp == (m + 9) % 12
      doy == (153 * mp + 2) \div 5 + d - 1
      doe == yoe * 365 + yoe \div 4 - yoe \div 100 + doy
  IN era * 146097 + doe - 719468
CivilOK(days, y, m, d) == /\ m \in 1..12 /\ d \in 1..MonthLen(y, m) /\ DaysFromCivil(y, m, d) = days
=============================================================================
