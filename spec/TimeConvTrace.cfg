SPECIFICATION TSpec
CONSTANTS P1 = 1000
          P2 = 1000000000
          WORD = 1
INVARIANT Report
CHECK_DEADLOCK FALSE
