--------------------------- MODULE TimeConvTrace ---------------------------
(* Trace specification for C03: each event is one call of the real conversion functions
   (digital_rf_get_timestamp_floor / digital_rf_get_sample_ceil through ctypes on the freshly built
   extension, digital_rf.get_unix_time through the public Python API) with arguments and results as
   base-10^4 limb sequences; TLC decides every record with exact integer arithmetic in multiplicative form
   (q = floor(a/b)  <=>  q*b <= a < (q+1)*b), no floating point anywhere. *)
EXTENDS TimeConv, BigNat, TraceBase

TInit == TBInit

Tps(sec, ps) == Add(Mul(sec, E12), ps)          \* total picoseconds

FloorOK(k, n, d, sec, ps) ==
  LET T == Tps(sec, ps)   lhs == Mul(T, n)   mid == Mul(Mul(k, d), E12)
  IN  Lt(ps, E12) /\ Le(lhs, mid) /\ Lt(mid, Add(lhs, n))

CeilOK(sec, ps, n, d, idx) ==    \* (idx-1)*d*10^12 < T*n <= idx*d*10^12
  LET Tn == Mul(Tps(sec, ps), n)   X == Mul(d, E12)   iX == Mul(idx, X)
  IN  Le(Tn, iX) /\ (idx = <<>> \/ Lt(iX, Add(Tn, X)))

TimeLe(s1, p1, s2, p2) == Lt(s1, s2) \/ (s1 = s2 /\ Le(p1, p2))

CalOK(e) ==
  /\ e.sod \in 0..86399
  /\ e.sec = Add(Mul(FromNat(e.days), FromNat(86400)), FromNat(e.sod))
  /\ CivilOK(e.days, e.Y, e.M, e.D)
  /\ e.h = e.sod \div 3600 /\ e.mi = (e.sod % 3600) \div 60 /\ e.s = e.sod % 60

TConv ==
  /\ E.ev = "conv"
  /\ AdvNote(Names({
       <<"C03-floor", ~FloorOK(E.k, E.n, E.d, E.sec, E.ps)>>,
       <<"C03-monotone", ~TimeLe(E.sec, E.ps, E.sec2, E.ps2)>>,
       <<"C03-floor-of-next", ~FloorOK(Add(E.k, One), E.n, E.d, E.sec2, E.ps2)>>,
       <<"C03-ceil-of-floor", ~CeilOK(E.sec, E.ps, E.n, E.d, E.idx)>>,
       <<"C03-round-trip", Le(E.n, Mul(E.d, E12)) /\ E.idx # E.k>>,
       <<"C03-get-unix-time-raised", Has(E, "pyerr") /\ E.pyerr>>,
       <<"C03-python-differs-from-c", E.haspy /\ (E.pysec # E.sec \/ E.pyps # E.ps)>>,
       <<"C03-calendar", E.haspy /\ ~CalOK([sec |-> E.pysec, days |-> E.days, sod |-> E.sod, Y |-> E.Y, M |-> E.M, D |-> E.D,
                                            h |-> E.h, mi |-> E.mi, s |-> E.s])>>,
       <<"C03-microsecond", E.haspy /\ ~(Le(Mul(FromNat(E.us), E6), E.pyps) /\ Lt(E.pyps, Mul(FromNat(E.us + 1), E6)))>>}))

TCeil ==
  /\ E.ev = "ceil"
  /\ AdvNote(Names({<<"C03-ceil", ~CeilOK(E.sec, E.ps, E.n, E.d, E.idx)>>}))

TOther == E.ev \notin {"conv", "ceil"} /\ Rej({"unknown-event"})
TNext == (HasEvent /\ (TConv \/ TCeil \/ TOther)) \/ Finish
TSpec == TInit /\ [][TNext]_tvars
=============================================================================
