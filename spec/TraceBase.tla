--------------------------- MODULE TraceBase ---------------------------
(***************************************************************************)
(* Shared skeleton of every trace specification (engine E3).               *)
(* One JVM validates many scenarios: TRACE_FILE holds a JSON array of      *)
(* scenarios, `tid` picks one in the initial state, `l` is the position in *)
(* its event list.  Verdicts are total: a scenario either reaches ACCEPT   *)
(* or a REJECT state that names the event and the failing clauses.  When   *)
(* the specification is nondeterministic a scenario may produce several    *)
(* verdict lines; the harness accepts it iff one of them is ACCEPT.        *)
(***************************************************************************)
EXTENDS Integers, Sequences, TLC, Json, IOUtils

VARIABLES tid, l, verdict
tvars == <<tid, l, verdict>>

Scen == JsonDeserialize(IOEnv.TRACE_FILE)
Ev == Scen[tid].events
E == Ev[l]
Hdr == Scen[tid]

Running == verdict.v = "run"
TBInit == /\ tid \in 1..Len(Scen) /\ l = 1
          /\ verdict = [v |-> "run", line |-> 0, why |-> {}, dev |-> {}, first |-> {}]
HasEvent == Running /\ l <= Len(Ev)

Adv == l' = l + 1 /\ UNCHANGED <<tid, verdict>>
AdvDev(fid) == l' = l + 1 /\ verdict' = [verdict EXCEPT !.dev = @ \cup {fid}] /\ UNCHANGED tid
\* `first`: the clauses of the first event that contradicted anything (what follows a contradiction may be its consequence)
Rej(why) == /\ verdict' = [v |-> "REJECT", line |-> l, why |-> why, dev |-> verdict.dev,
                           first |-> IF verdict.first = {} THEN why ELSE verdict.first]
            /\ UNCHANGED <<tid, l>>
RejU(why) == Rej(verdict.why \cup why)     \* keeps what was noted before
Accept == /\ Running /\ l > Len(Ev)
          /\ verdict' = [verdict EXCEPT !.v = "ACCEPT", !.line = l]
          /\ UNCHANGED <<tid, l>>

\* observational mismatches are noted and validation continues; the scenario is rejected at its end
AdvNote(bad) == /\ l' = l + 1
                /\ verdict' = [verdict EXCEPT !.why = @ \cup bad, !.line = IF @ = 0 /\ bad # {} THEN l ELSE @,
                                              !.first = IF @ = {} THEN bad ELSE @]
                /\ UNCHANGED tid
Finish == /\ Running /\ l > Len(Ev)
          /\ verdict' = [verdict EXCEPT !.v = IF verdict.why = {} THEN "ACCEPT" ELSE "REJECT",
                                        !.line = IF verdict.why = {} THEN l ELSE @]
          /\ UNCHANGED <<tid, l>>
Names(S) == {c[1] : c \in {x \in S : x[2]}}   \* S: set of <<clause name, violated?>>

KnownIds == {Hdr.known[i] : i \in 1..Len(Hdr.known)}
Known(fid) == fid \in KnownIds

Report == (verdict.v # "run") => PrintT(<<"VERDICT", tid, verdict.v, verdict.line, verdict.why, verdict.dev, verdict.first>>)

SeqSet(q) == {q[i] : i \in 1..Len(q)}
Has(r, k) == k \in DOMAIN r
=============================================================================
