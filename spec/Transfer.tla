--------------------------- MODULE Transfer ---------------------------
(***************************************************************************)
(* drf cp / mv / ln (python/digital_rf/list_drf.py _run_cp/_run_mv/_run_ln *)
(* through digital_rf.drf_command.main) as a state machine over the files  *)
(* of an abstract tree (Listing.tla).  Property C18.                       *)
(*                                                                         *)
(*   tree   the abstract source tree (never changes; the files that are    *)
(*          still present in the source are `src`)                         *)
(*   src    set of file ids present in the source                          *)
(*   dst    dst[d] = set of file ids present (at the same relative path)   *)
(*          in destination directory d                                     *)
(*   last   history: [cmd, o, X, d] of the command just run                *)
(*                                                                         *)
(* A command with options o and channel list `scope` (a sequence of        *)
(* listing roots R, one per -c channel, or the source directory itself)    *)
(* transfers a set X that the equivalent listing of the PRESENT source     *)
(* allows: Listing!Judge accepts X \cap (files under R) for every R of the *)
(* scope (order is irrelevant for a transfer).  Then                       *)
(*     dst'[d] = dst[d] \cup X                                             *)
(*     src'    = src            (cp, ln)       src' = src \ X   (mv)       *)
(***************************************************************************)
EXTENDS Listing

VARIABLES tree, src, dst, last
tvars4 == <<tree, src, dst, last>>

\* the tree as the listing sees it when only the files in P exist
Present(T, P) == [T EXCEPT !.files = [i \in 1..Len(T.files) |->
                    IF i \in P THEN T.files[i] ELSE [T.files[i] EXCEPT !.kind = "other", !.ext = FALSE]]]
Under(T, R) == {i \in LFs(T) : LF(T, i).ch \in LMem(R)}
ScopeSet(scope) == {scope[k] : k \in 1..Len(scope)}

\* clauses of the listing specification that X violates as the transferred set (ordering clauses dropped)
NotOrder(S) == {c \in S : c # "C14-order-within-channel"}
SetClauses(T, P, o, scope, X) ==
  UNION {NotOrder(Judge(Present(T, P), [o EXCEPT !.rev = FALSE], R, {}, SetToSeq(X \cap Under(T, R)))) : R \in ScopeSet(scope)}
  \cup (IF X \subseteq UNION {Under(T, R) : R \in ScopeSet(scope)} THEN {} ELSE {"C14-lists-file-outside-requested-channels"})
AllowedSet(T, P, o, scope, X) == X \subseteq P /\ SetClauses(T, P, o, scope, X) = {}

Act(c, o, X, d) == [cmd |-> c, o |-> o, X |-> X, d |-> d]

Cp(o, scope, d, X) ==
  /\ AllowedSet(tree, src, o, scope, X)
  /\ dst' = [dst EXCEPT ![d] = @ \cup X] /\ src' = src
  /\ last' = Act("cp", o, X, d) /\ UNCHANGED tree
Mv(o, scope, d, X) ==
  /\ AllowedSet(tree, src, o, scope, X)
  /\ dst' = [dst EXCEPT ![d] = @ \cup X] /\ src' = src \ X
  /\ last' = Act("mv", o, X, d) /\ UNCHANGED tree
\* a link cannot replace an existing destination file
Ln(o, scope, d, X) ==
  /\ AllowedSet(tree, src, o, scope, X) /\ dst[d] \cap X = {}
  /\ dst' = [dst EXCEPT ![d] = @ \cup X] /\ src' = src
  /\ last' = Act("ln", o, X, d) /\ UNCHANGED tree

(***************************************************************************)
(* Properties                                                              *)
(***************************************************************************)
\* nothing is ever lost: every file of the tree is in the source or in a destination
NoLoss == \A i \in LFs(tree) : i \in src \/ \E d \in DOMAIN dst : i \in dst[d]
\* the source changes only by mv, and then by exactly the transferred set
SourceReducedExactly == [][src' # src => (last'.cmd = "mv" /\ src' = src \ last'.X /\ last'.X \subseteq src)]_tvars4
\* a destination only grows, by exactly the transferred set
DestGrowsExactly == [][\A d \in DOMAIN dst : dst'[d] = IF d = last'.d THEN dst[d] \cup last'.X ELSE dst[d]]_tvars4
\* only finalized, well-formed files of channel directories are ever transferred
OnlyFormatFiles == \A d \in DOMAIN dst : \A i \in dst[d] : DataName(LF(tree, i)) \/ PropName(LF(tree, i))
=============================================================================
