--------------------------- MODULE TransferTrace ---------------------------
(***************************************************************************)
(* Trace specification for C18.  A scenario is one source tree (header     *)
(* `tree`, an abstract tree of Listing.tla that the harness materialised - *)
(* for some scenarios a real recording made by the writers) and a sequence *)
(* of real `drf cp|mv|ln` commands run through digital_rf.drf_command.main *)
(* on it, each into a fresh destination directory; the source persists, so *)
(* a move changes what later commands see.                                 *)
(*   [ev |-> "xfer", cmd, sym, o, scope, d, raised, new, src_after,        *)
(*    src_changed, eq, eq_raised]                                          *)
(*      new          files that appeared in destination d:                 *)
(*                   [id, same, hard, sym] (id 0 = no such source file)    *)
(*      src_after    ids present in the source afterwards                  *)
(*      src_changed  ids whose content changed in the source               *)
(*      eq           ids the real lsdrf lists with the same options        *)
(*                   ("the equivalent listing")                            *)
(*   [ev |-> "rd", ch, ok, want, got]   a reader on destination d against  *)
(*      the source truth for the transferred period (projected values)     *)
(* The transferred set is checked twice: against the real listing (the     *)
(* property's wording) and against Listing.tla through Transfer!Cp/Mv/Ln;  *)
(* a difference from Listing.tla that the real listing shares is a C14     *)
(* finding inherited by the command and is named C14-..., not C18-....     *)
(***************************************************************************)
EXTENDS Transfer, TraceBase

allv == <<tvars4, tvars>>

TInit ==
  /\ TBInit
  /\ tree = Hdr.tree
  /\ src = 1..Len(Hdr.tree.files)
  /\ dst = [d \in 1..Hdr.ndst |-> {}]
  /\ last = Act("init", <<>>, {}, 0)

NewIds(e) == {e.new[k].id : k \in 1..Len(e.new)}
Inherited(S) == {"C14-inherited-by-transfer:" \o c : c \in S}

XferClauses(e) ==
  LET X == NewIds(e)
      eq == SeqSet(e.eq)
      after == SeqSet(e.src_after)
      sc == SetClauses(tree, src, e.o, e.scope, X \ {0})
      islink == e.cmd = "ln"
  IN  IF e.raised THEN (IF e.eq_raised THEN {"C14-inherited-by-transfer:C14-listing-raised"} ELSE {"C18-command-raised"})
      ELSE
        (IF 0 \in X THEN {"C18-creates-path-that-is-no-source-file"} ELSE {})
        \cup (IF ~e.eq_raised /\ X # eq THEN {"C18-transferred-set-differs-from-equivalent-listing"} ELSE {})
        \cup (IF sc = {} THEN {} ELSE IF e.eq_raised \/ X = eq THEN Inherited(sc) ELSE {"C18-transferred-set-not-allowed-by-listing-spec"})
        \cup (IF \E k \in 1..Len(e.new) : ~e.new[k].same THEN {"C18-content-differs"} ELSE {})
        \cup (IF islink /\ ~e.sym /\ \E k \in 1..Len(e.new) : ~e.new[k].hard THEN {"C18-hard-link-does-not-share-inode"} ELSE {})
        \cup (IF islink /\ e.sym /\ \E k \in 1..Len(e.new) : ~e.new[k].sym THEN {"C18-symlink-does-not-point-to-source"} ELSE {})
        \cup (IF ~islink /\ \E k \in 1..Len(e.new) : e.new[k].sym THEN {"C18-copy-is-a-link"} ELSE {})
        \cup (IF e.src_changed # <<>> THEN {"C18-source-content-changed"} ELSE {})
        \* (a file that a recorder finalized in the source while mv was running is taken along or left, never lost)
        \cup (IF Has(e, "live_lost") /\ e.live_lost > 0 THEN {"C18-mv-removed-a-file-it-did-not-transfer"} ELSE {})
        \cup (IF e.cmd = "mv" THEN (IF after # src \ X THEN {"C18-source-not-reduced-by-exactly-the-transferred-set"} ELSE {})
              ELSE (IF after # src THEN {"C18-source-changed-by-cp-or-ln"} ELSE {}))

\* the logged outcome taken as the new state when the specification's own action cannot explain it
Resync(e) == /\ src' = SeqSet(e.src_after) \ {0}
             /\ dst' = [dst EXCEPT ![e.d] = @ \cup (NewIds(e) \ {0})]
             /\ last' = Act(e.cmd, e.o, NewIds(e) \ {0}, e.d) /\ UNCHANGED tree

TXfer ==
  /\ E.ev = "xfer"
  /\ LET bad == XferClauses(E)  X == NewIds(E) IN
     IF bad = {}
     THEN /\ CASE E.cmd = "cp" -> Cp(E.o, E.scope, E.d, X)
              [] E.cmd = "mv" -> Mv(E.o, E.scope, E.d, X)
              [] E.cmd = "ln" -> Ln(E.o, E.scope, E.d, X)
          /\ Adv
     ELSE Resync(E) /\ AdvNote(bad)

TRead ==
  /\ E.ev = "rd"
  /\ AdvNote(IF ~E.ok THEN {"C18-reader-on-destination-fails"}
             ELSE IF E.want # E.got THEN {"C18-reader-on-destination-differs-from-source"} ELSE {})
  /\ UNCHANGED tvars4

\* a second ln into a destination that already holds links to this source, from another source tree with the same relative
\* paths: whatever it does with the destination (the real command refuses), the first source keeps its bytes
TRelink ==
  /\ E.ev = "relink"
  /\ AdvNote(IF E.src_changed # <<>> THEN {"C18-source-content-changed"} ELSE {})
  /\ UNCHANGED tvars4

TOther == E.ev \notin {"xfer", "rd", "relink"} /\ Rej({"unknown-event"}) /\ UNCHANGED tvars4
TNext == (HasEvent /\ (TXfer \/ TRead \/ TRelink \/ TOther)) \/ (Finish /\ UNCHANGED tvars4)
TSpec == TInit /\ [][TNext]_allv

\* the design-level invariants on every state of every implementation trace
TraceInvariant == Running => OnlyFormatFiles
=============================================================================
