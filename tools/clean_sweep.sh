#!/bin/sh
# usage: tools/clean_sweep.sh "<VERIF_SEED values>" [parallel] [tier]  - every quick check on the unchanged tree (a clean worktree
# of /repo HEAD at /dev/shm/repoclean) with several seeds; prints one line per run; anything but "0 violations" with rc 0 is
# either a finding or a fault of the machinery
cd /verif || exit 2
P=${2:-4}; T=${3:-quick}
git -C /dev/shm/repoclean rev-parse HEAD >/dev/null 2>&1 || git -C /repo worktree add -q --detach /dev/shm/repoclean HEAD
for s in $1; do for c in C01 C02 C03 C04 C05 C06 C07 C08 C09 C10 C11 C12 C13 C14 C15 C16 C17 C18 C19 C20; do echo "$s $c"; done; done | \
  xargs -P $P -L 1 sh -c 'out=$(VERIF_SEED=$0 VERIF_KEEP_EVIDENCE=1 VERIF_REPO=/dev/shm/repoclean bin/check $1 --tier '$T' 2>&1); rc=$?; echo "seed=$0 $1 rc=$rc $(echo "$out" | tail -n 1 | cut -c1-200)"; [ $rc -ne 0 ] && echo "$out" | grep "rejected scenario\|MACHINERY" | head -3 | cut -c1-300; true'
