#!/bin/sh
# usage: tools/confirm_seed.sh <seed out dir> : confirms in a scratch worktree that (1) the patch applies, (2) the repo test-suite
# passes with it, (3) demo.py fails with it and passes without it.  Prints one summary line, writes <dir>/confirm.txt
D=$1; N=$(basename $D)
W=/tmp/seedconfirm_$N; S=/dev/shm/seedconfirm_$N
git -C /repo worktree add -q --detach $W HEAD || exit 2
trap "git -C /repo worktree remove --force $W; rm -rf $S" EXIT
R=""
/venv/bin/python /verif/harness/stage.py $S/clean $W >/dev/null 2>&1
PYTHONPATH=$S/clean timeout 600 /venv/bin/python $D/demo.py >/dev/null 2>&1; R="$R demo_clean_rc=$?"
git -C $W apply $D/patch.diff || { echo "$N: patch does not apply"; exit 1; }
/venv/bin/python /verif/harness/stage.py $S/mut $W >/dev/null 2>&1 || { echo "$N: build fails"; exit 1; }
PYTHONPATH=$S/mut timeout 600 /venv/bin/python $D/demo.py >/dev/null 2>&1; R="$R demo_mut_rc=$?"
T=$(cd $W && PYTHONPATH=$S/mut timeout 900 /venv/bin/python -m pytest -q -p no:cacheprovider python/tests 2>&1 | tail -n 1)
echo "$N:$R tests: $T" | tee $D/confirm.txt
