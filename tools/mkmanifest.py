#!/usr/bin/env python3-vt
"""Regenerate MANIFEST.json from the table below (kept in one place so it is always schema-valid)."""
import json
import os
import subprocess

V = os.path.dirname(os.path.dirname(os.path.abspath(__file__)))

# id -> (spec modules, claim text, note, technique)   ; absent -> not_applicable with reason
CLAIMED = {
    "C16": (
        "Ringbuffer, MCRingbuffer, RingbufferTrace",
        "TLC exhausts every interleaving of file-system changes, created/modified/deleted/moved events, add/modify/remove "
        "batches, re-scan and post-restart verification over a small universe under every limit kind (E1); behaviours "
        "simulated by TLC from the same specification are executed on a real DigitalRFRingbuffer handler over real files, "
        "and long random real-scale histories are recorded from the handler; TLC validates every recorded call (deletion "
        "order, records, queues, active_size, disk) against the specification's actions and invariants (E2/E3).",
        "Trusted: TLC, the projection (attribute reads of handler.records/queues/active_size, os.stat of the scratch "
        "tree, a wrapper around os.remove that logs the order). Events are dispatched synchronously; real inotify "
        "delivery is not exercised. Keys within one file group are distinct; the size limit is at least one largest "
        "file per group (the property's stated assumption).",
        "TLA+ spec + TLC exhaustive model checking; TLC-simulated behaviours replayed on the real handler; TLC trace validation of recorded histories",
    ),
}

PENDING_REASON = "check not built yet in this round; the property is planned to be decided by the TLA+ module named in DESIGN.md section 5"


def main():
    props = [json.loads(l) for l in open(os.path.join(V, "properties.jsonl"))]
    extra = {}
    p = os.path.join(V, "tools", "manifest_extra.json")
    if os.path.exists(p):
        extra = json.load(open(p))
    checks, na = [], []
    for pr in props:
        i = pr["id"]
        if i in CLAIMED:
            mods, text, note, tech = CLAIMED[i]
            checks.append(
                {
                    "property_id": i,
                    "quick_cmd": "bin/check %s --tier quick" % i,
                    "thorough_cmd": "bin/check %s --tier thorough" % i,
                    "evidence_file": "/verif/evidence/%s.json" % i,
                    "replay_cmd_template": "bin/check %s --replay {path}" % i,
                    "engine": "tlc",
                    "level_claimed": {"category": "model_checking", "text": text, "design_ref": "DESIGN.md section 5, " + i},
                    "level_note": note,
                    "technique": tech + " (spec modules: " + mods + ")",
                }
            )
        else:
            na.append({"property_id": i, "reason": extra.get("na", {}).get(i, PENDING_REASON)})
    try:
        hooks_commits = subprocess.check_output(
            ["git", "-C", "/repo", "log", "--format=%H", "--grep=^hook:"], text=True
        ).split()
    except Exception:
        hooks_commits = []
    m = {
        "version": 1,
        "setup_cmd": "bin/setup",
        "hooks": {
            "guard": "DIGITAL_RF_VERIF",
            "enable": "no source hooks are needed: all observation is through public APIs, raw h5py inspection, an LD_PRELOAD "
            "interposer on writer subprocesses and wrappers installed by the harness in its own process; checks stage and build "
            "the package from /repo's working tree (harness/stage.py)",
            "baseline_off_cmd": "bin/baseline",
            "source_commits": hooks_commits,
            "add_only": True,
        },
        "engines": [
            {
                "name": "tlc",
                "path": "spec/",
                "serves_properties": sorted(CLAIMED),
                "kind_free_text": "explicit TLA+ specifications checked with TLC (exhaustive, simulation, trace validation), bound to the "
                "implementation by replaying TLC behaviours into the real code and validating recorded traces against the same actions",
            }
        ],
        "checks": checks,
        "not_applicable": na,
        "notes": "bin/check <id> --tier quick|thorough; exit 0 held / 1 VIOLATION / 2 machinery failure. known_findings.json lists fixed and open findings.",
    }
    if not na:
        del m["not_applicable"]
    with open(os.path.join(V, "MANIFEST.json"), "w") as fh:
        json.dump(m, fh, indent=1)
    import jsonschema

    jsonschema.validate(m, json.load(open("/root/.vp/MANIFEST.schema.json")))
    print("MANIFEST.json: %d checks, %d not_applicable" % (len(checks), len(na)))


if __name__ == "__main__":
    main()
