#!/usr/bin/env python3-vt
"""Regenerate MANIFEST.json from the table below (kept in one place so it is always schema-valid)."""
import json
import os
import subprocess

V = os.path.dirname(os.path.dirname(os.path.abspath(__file__)))

# id -> (spec modules, claim text, note, technique)   ; absent -> not_applicable with reason
CLAIMED = {
    "C16": (
        "Ringbuffer, MCRingbuffer, RingbufferTrace",
        "TLC exhausts every interleaving of file-system changes, created/modified/deleted/moved events, add/modify/remove "
        "batches, re-scan and post-restart verification over a small universe under every limit kind (E1); behaviours "
        "simulated by TLC from the same specification are executed on a real DigitalRFRingbuffer handler over real files, "
        "and long random real-scale histories are recorded from the handler; TLC validates every recorded call (deletion "
        "order, records, queues, active_size, disk) against the specification's actions and invariants (E2/E3).",
        "Trusted: TLC, the projection (attribute reads of handler.records/queues/active_size, os.stat of the scratch "
        "tree, a wrapper around os.remove that logs the order). Events are dispatched synchronously; real inotify "
        "delivery is not exercised. Keys within one file group are distinct; the size limit is at least one largest "
        "file per group (the property's stated assumption).",
        "TLA+ spec + TLC exhaustive model checking; TLC-simulated behaviours replayed on the real handler; TLC trace validation of recorded histories",
    ),
}

CHAN = "DrfChannel, MCDrfChannel, DrfChannelTrace, Runs, TraceBase"
CHAN_TECH = "TLA+ spec + TLC exhaustive model checking of the call-level channel model; TLC-simulated behaviours replayed on the real writer/reader; TLC trace validation of recorded histories"
CHAN_NOTE = 'Trusted: TLC, the projection (raw h5py decode of rf_data / rf_data_index / attributes, numpy bit-level comparison of each stored element with a keyed PRF of its absolute index and with the documented fill value, sha1 of files), exact big-integer placement arithmetic in the harness for the model partition (itself checked by Placement.tla under C04). Sample indices are rebased per scenario (span < 2^31). Histories go through the public Python writer; '
CLAIMED.update({
    "C01": (CHAN, "E1: TLC exhausts all sequences of sessions, rf_write / rf_write_blocks (gaps, multi-file), rejected and empty calls, close and "
            "properties regeneration over 4-5 file windows of unequal capacity in gapped and continuous mode, checking CleanCloseComplete, InWindow, "
            "AppendOnly, FinalFrozen. E2: simulated behaviours of that model are executed on DigitalRFWriter/DigitalRFReader at three concrete "
            "rate/cadence realisations of the model partition. E3: random real-scale configurations and histories; every finalized file is decoded "
            "raw and every read on file/block/gap edges is judged by TLC against the specification's truth (C01-* clauses).", CHAN_NOTE + "the C-API replay driver is not built yet.", CHAN_TECH),
    "C05": (CHAN, "RejectAtomic and AppendOnly are checked exhaustively on the model; on the implementation every malformed kind of call is "
            "interleaved with valid ones, a byte-level hash of the channel directory and the getters are taken around each rejected call, final "
            "files are re-hashed after every later call, and TLC validates the whole history (C05-* clauses).", CHAN_NOTE + "the C-API replay driver is not built yet.", CHAN_TECH),
    "C08": (CHAN, "Reader answers (read, get_continuous_blocks, sub_channel reads, get_bounds, read_vector*, split/merge) are logged on all "
            "interesting points and compared by TLC with functions of one specification state (ReadBlocks, ReadData, BoundsOf, VectorOK); the "
            "Coherent invariant is model-checked.", CHAN_NOTE + "float conversion of read_vector is compared element-wise with numpy's conversion of the raw read.", CHAN_TECH),
    "C11": (CHAN, "FinalGrows / FinalFrozen and the refusal branch of Place are model-checked for up to 3 sessions in 1-2 directories with starts "
            "later than, before and inside recorded periods; the same histories and random real-scale ones run on the real writer, with "
            "single-parameter mismatches, byte-level directory comparison and multi-directory readers, validated by TLC (C11-* clauses).", CHAN_NOTE, CHAN_TECH),
    "C19": (CHAN, "The Counters invariant is model-checked; after every real call the getters, return value and last file/dir written are "
            "compared by TLC with the specification's session record (C19-* clauses), excluding exactly the stale states the property excludes.", CHAN_NOTE, CHAN_TECH),
})

CLAIMED.update({
    "C06": (CHAN, "Every finalized rf@*.h5 of every history is inspected raw (index rows, dataset length, 14 stored attributes, uuid, "
            "sequence number) and judged by TLC (RowsOK, index denotation = written samples of that window, attributes = session "
            "parameters, sequence increasing); regeneration of drf_properties.h5 from each single data file is followed by the full "
            "observation set and a new session, all validated against the unchanged specification state (RegenProps). Recorders that are "
            "killed and restarted on the same tree (DrfFs: a tmp. file of a dead process is never published), channels under long and "
            "tmp.-named paths, session identifiers of several shapes and groups of channels handled by one process are part of every run.",
            CHAN_NOTE, CHAN_TECH),
    "C07": (CHAN, "Product sweep element type x byte order x real/complex x subchannels x {continuous unchunked, continuous compressed} x gap "
            "layouts, plus random continuous histories: each stored element is classified data / fill / bad by bit comparison and TLC "
            "decides where fill is required or forbidden (Den, C07-* clauses), that a file exists iff one of its slots was written and "
            "that the unchunked file is one block at the window start with full capacity.", CHAN_NOTE, CHAN_TECH),
    "C03": ("TimeConv, MCTimeConv, TimeConvTrace, BigNat",
            "E1: line-by-line TLA+ transcriptions of digital_rf_get_timestamp_floor / digital_rf_get_sample_ceil are checked by TLC against the "
            "exact definitions on the whole input space of a scaled machine (12 ps per second, 12-bit word: all admissible n/d, all k, all "
            "timestamps), with monotonicity and round trip. E3: the real C functions (ctypes on the freshly built extension) and "
            "digital_rf.get_unix_time are called (in a worker process, so that an input on which native code dies is named) on the complete "
            "small scope, on biased full-magnitude draws and again beside a recording thread in the same process; TLC decides every record "
            "with exact base-10^4 limb arithmetic in multiplicative form, including the calendar.",
            "Trusted: TLC, BigNat.tla (limb arithmetic), the limb encoder (Python big ints), ctypes access to the two C symbols (if a refactor "
            "removes them the check reports a machinery error rather than guessing). Full-magnitude inputs are decided on executed cases, "
            "not proved for all 2^160 inputs.", "TLA+ transcription model-checked on a scaled machine + TLC trace validation with exact limb arithmetic"),
    "C04": ("Placement, MCPlacement, PlacementTrace, BigNat, DrfChannel",
            "E1: TLC checks on a scaled machine that the windows [FileStart(t), FileStart(t+fc)) partition the index axis, that every index lies "
            "in the window its own time selects, capacities are positive, and that the transcription of digital_rf_get_subdir_file agrees. "
            "E3: every rf@*.h5 produced by random histories and by three one-sample writes around FileStart(j*fc) (random rates, cadences, "
            "file numbers in 1980-2100, half on subdirectory boundaries) yields a record (name time, subdirectory name, first/last stored "
            "index) that TLC checks with exact limb arithmetic; the channel traces additionally check that no index is in two files.",
            "Trusted: TLC, BigNat.tla, raw h5py reading of rf_data_index. digital_rf_get_subdir_file is exercised through the writer, not "
            "called directly.", "TLA+ placement theorems model-checked on a scaled machine + TLC trace validation of file records with exact limb arithmetic"),
})

FS = "DrfFs, MCDrfFs, DrfFsTrace, DrfLive, MCDrfLive, DrfLiveTrace, Runs, TraceBase"
FS_TECH = "TLA+ spec of the publication protocol + TLC exhaustive model checking (crash, faults, reader interleavings); TLC trace validation of recordings stepped operation by operation under an LD_PRELOAD interposer"
FS_NOTE = ("Trusted: TLC, the interposer (harness/fsshim/shim.c: it must see every mutating libc call HDF5 issues - open/creat/write/pwrite/"
           "ftruncate/close/rename/unlink/remove/mkdir/rmdir; a future HDF5 using io_uring/mmap/pwritev would need it extended), the raw h5py "
           "projection. Crash = process death with a surviving page cache (as the property says); power loss / fsync ordering is out of scope.")
CLAIMED.update({
    "C02": (FS, "E1: TLC explores every interleaving of the protocol's operations on 3 data files and the properties file, each possibly failing, "
            "with a crash at any point and a listing/opening reader; FinalComplete, FinalImmutable, CrashSafe hold only because of the action "
            "guards (enabling a forbidden step breaks them). E3: real recordings run in a subprocess that is stopped before every file-system "
            "operation; each stop is a crash point at which the tree is projected (every final file decoded, tmp names, properties file, "
            "listing, readers) and a sample of them is really SIGKILLed, two of three kills being followed by a new recorder process on "
            "the tree the dead one left (orphan tmp. files: probed, removed or created anew, never written or published); TLC validates "
            "the operation sequence against the protocol and judges every snapshot.", FS_NOTE, FS_TECH),
    "C09": (FS, "Reader passes of a pool of long-lived DigitalRFReader objects (created at different moments of the recording) are taken between "
            "every two file-system operations of the writer; TLC requires each pass to succeed, to equal exactly the finalized files at that "
            "moment and never to shrink; E1 checks ReaderNeverFails / VisibilityMonotone over all interleavings of the protocol.",
            FS_NOTE + " The free-running part (writer and reader processes at full speed, no common clock; DrfLive / DrfLiveTrace) observes whatever interleavings the OS produces; the stepped schedule is the systematic one.", FS_TECH),
    "C10": (FS, "Every single-fault schedule of a recording (each operation failing with ENOSPC or EIO, once or persistently) is executed through "
            "the interposer; TLC validates the operation sequence and decides at the end: no unreadable or wrong final file, files finalized "
            "before the fault unchanged, and - when an accepted sample is unreadable (through the channel's properties file) and a call was "
            "made after the failure - an error by the faulted call or the next one, and refusal afterwards; one recording per run is so "
            "large that failures happen inside H5Dwrite, one alternates rf_write / rf_write_blocks after the fault.", FS_NOTE, FS_TECH),
})

CLAIMED.update({
    "C17": ("Mirror, MCMirror, MirrorTrace, DrfPipeline, MCDrfPipeline, DrfPipelineTrace, TraceBase",
            "E1: TLC explores the mirror's own file-system operations (mkdirs/cmp, stage under tmp., rename, removal, rmdir) for the three handler "
            "roles over 2 RF + 2 metadata files + properties with each event delivered up to twice in any order, stale events, a crash "
            "between any two operations and a restart, copy/move/link, same and different file systems, checking Staged, NoLossMove, "
            "Fidelity at quiescence, NewestMdStays, FinalStable; witnesses show crash-between-copy-and-rename etc. are reachable. E2: "
            "simulated behaviours are replayed on a real DigitalRFMirror (stub observer) over a recording shaped like the model. E3: real "
            "recordings x 8 method variants x event histories with duplication, reordering, stale events, a crash before every operation "
            "(move) or sampled (copy/link) incl. half-copied tmp and forced EXDEV; every operation is one trace event with both trees "
            "projected (sha1 per path) and TLC validates order and invariants after each; a DigitalRFReader on the destination is compared "
            "with the source. Composition (DrfPipeline): TLC explores a live recording whose files are moved to an archive while it "
            "goes on (writer operations x lossy event queue x event filter x mirror operations x mirror crash/restart x archive "
            "reader, safety and a liveness property under weak fairness); real recordings under the LD_PRELOAD interposer feed a "
            "real move-mode DigitalRFMirror and TLC validates every handler activation.",
            "Trusted: TLC, wrappers around os.rename/link/makedirs/rmdir/remove, shutil.copy2/move, filecmp.cmp installed in the harness "
            "process (one event per mirror operation, crash = exception raised before operation i), sha1 projection of both trees. Events "
            "are dispatched synchronously; real inotify delivery and the observer thread are not exercised.",
            "TLA+ spec + TLC exhaustive model checking with crash/restart; simulated behaviours replayed on the real mirror; TLC trace validation of operation-level traces"),
})

CLAIMED.update({'C12': ('Metadata, MCMetadata, MetadataTrace, TraceBase', "E1: TLC exhausts every ascending write history over indices 0..9 in files of 3 indices (calls of <= 3 samples as single / dict-of-arrays / list-of-dicts, the dict form's distribution rule both ways, duplicate attempts incl. partially stored ones); in every reachable state every inclusive range with both fill methods, the bounds and the latest sample, computed file by file, equal the declarative function of what was written (ReadExact, FfillExact, BoundsExact, LatestIsMax, WriteOnce, NothingElse, PlacementExact). E2: TLC-simulated behaviours are executed on DigitalMetadataWriter/Reader at five rate/cadence realisations of the model partition; stored indices and their files are compared with TLC's state after every write. E3: real-scale rates, cadences and value shapes; every write (request, result, raw h5py content of the channel afterwards) and every read / read_flatdict / read_latest / get_bounds / get_fields answer is one event decided by TLC (C12-* clauses).", "Trusted: TLC, the projection (raw h5py walk of the channel; normalisation of leaf values - numbers by numeric value, text by characters, arrays by shape and elements - hashed to canonical ids; flattening of nested dicts to '/'-paths), exact big-integer computation of the file partition handed to the specification (itself checked on limbs by PlacementTrace under C13). Sample indices are rebased per scenario (span < 2^31). read_dataframe is not exercised; read_flatdict only on histories whose leaves are scalars/strings.", 'TLA+ spec + TLC exhaustive model checking of the metadata channel model; TLC-simulated behaviours replayed on the real writer/reader; TLC trace validation of recorded histories'), 'C13': ('Placement, MCMdPlacement, PlacementTrace, BigNat, Metadata, MetadataTrace', "E1: on a small scope (all n<=12, d<=7, cadences <=6, k<=100) TLC checks that the writer's and the reader's way to the file are the same function in exact integers, that the file second T is the unique multiple of the cadence with T*n <= k*d < (T+fc)*n, the subdirectory holds the file, and ceil(T*n/d) is the first index of file T; MCMetadata checks PlacementExact over all write histories. E3: for random (n, d, file cadence, subdirectory cadence) and consecutive file numbers j in 1980-2100 the indices ceil(j*fc*n/d)+{-1,0,+1} are written singly; the path the writer chose (raw h5py), whether read(k,k) returns the sample and whether read_latest returns it are one record each with all magnitudes as base-10^4 limbs; TLC decides every record with exact arithmetic (C13-* clauses of PlacementTrace), and the C13-* clauses of MetadataTrace judge the files of E2/E3 metadata histories against the specification's partition.", 'Trusted: TLC, BigNat.tla, the limb encoder, raw h5py listing of group names. Full-magnitude inputs are decided on executed cases (biased to boundaries that fall exactly on an index at non-integer rates), not proved for all inputs.', 'TLA+ placement theorems model-checked on a small scope + TLC trace validation of placement records with exact limb arithmetic'), 'C20': ('Metadata, MCMetadata, MetadataTrace, TraceBase', 'E1: TLC exhausts the interleavings of metadata writes, RF writes, construction of metadata and RF readers at any time and every observation by every reader (AllReadersAgree: the answer is the function of what has been written so far whoever asks; ObservationsReadOnly: no observation or reader construction changes the tree token). E2/E3: the same interleavings at call granularity on a real tree (RF channel + its metadata channel) with one old and one new reader of each kind; the tree is hashed recursively (names, sizes, mtimes, bytes) before and after every call - read, read_flatdict, read_latest, get_bounds, get_fields, both reader constructors, DigitalRFReader.get_bounds / read / get_continuous_blocks / get_properties(sample) / read_metadata, six lsdrf variants - and TLC compares the tokens and every visibility answer.', "Trusted: TLC, the projection, sha1 of the tree. Call granularity only (concurrent processes are C09's subject). Not claimed (Appendix C): get_fields() of a reader created before the first write. The answers of RF reader calls and listings are not judged here (C08/C09/C14), only their effect on the tree.", 'TLA+ spec + TLC exhaustive model checking; TLC-simulated behaviours replayed on a real tree; TLC trace validation with tree-hash tokens'), 'C14': ('Listing, MCListing, ListingTrace, TraceBase', 'Listing.tla is a functional specification with MUST and MAY sets over abstract trees (nested channels, property-file kinds incl. legacy metadata.h5, timestamped subdirectories some empty, data / tmp. / wrong-extension / stray files): Must <= result <= May, per-channel order, property files by their own flags, forward fill = latest metadata file before start. E1: TLC checks on a bounded universe of trees x options that a reference walk satisfies the spec, reverse changes only the order, the window is monotone, the listing is a subset of finalized files, forward fill adds at most one file per metadata channel; witnesses separate the known defect shapes. E3: systematic and random time-consistent trees are materialised on tmpfs and listed with lsdrf / ilsdrf under every include-flag combination, recursive / reverse and windows on, just before and just after each file and subdirectory time, incl. subdirectories that vanish during the listing; TLC decides every recorded call.', 'Trusted: TLC, the tree materialiser and the mapping of returned paths to file ids. Open choices the property leaves (DESIGN section 6) are in the MAY set: the forward-fill file when a metadata file sits exactly at start, mixed RF+metadata legacy channels, order among equal timestamps. Listing a timestamped subdirectory directly and invalid calendar dates in subdirectory names are not exercised.', 'TLA+ functional spec with MUST/MAY sets + TLC model checking of its theorems on a bounded tree universe; TLC trace validation of real listings of generated trees'), 'C15': ('EventFilter, Listing, MCListing, ListingTrace, TraceBase', 'Deliver(ev, flags, window) is defined in EventFilter.tla from Listing!Listable (finalizing rename tmp.x -> x = creation of x; rename of a tracked file to a non-matching name = deletion; directory events and tmp. paths = nothing). E1: TLC checks Deliver against the listing of one-path trees for the whole descriptor grammar. E3: real watchdog event objects of every kind over the grammar of valid and near-miss paths (43 descriptors, all ordered pairs for moves) x include-flag combinations x windows at and around the file time go through the real DigitalRFEventHandler.dispatch with recording on_* methods; each path is also put to the real lsdrf; TLC judges every dispatch (exhaustive product in thorough, sampled in quick).', "Trusted: TLC, the recording handler subclass, construction of watchdog event objects. Deliberately unconstrained (the property does not define them): a move whose two ends both match but lie on different sides of the time window; legacy metadata.h5 with exactly one property flag on. Fixed parts of names are lower case and files at the format's depth, as the property stipulates.", 'TLA+ function Deliver defined from the listing spec + TLC model checking; TLC trace validation of real dispatches, exhaustive over a bounded path grammar'), 'C18': ('Transfer, MCTransfer, TransferTrace, Listing, TraceBase', "Transfer.tla models cp / mv / ln as dst' = dst + relocated ListSet(src, opts), src unchanged (cp, ln) or reduced by exactly that set (mv), links sharing content. E1: TLC explores command sequences on a small universe. E3: real digital_rf.drf_command.main([...]) runs on materialised trees (some recorded by the real RF and metadata writers) with channel lists incl. the comma form, --only, -R, time windows in several notations, include flags, hard and symbolic links; the transferred set is compared with the real listing of the same options and with Listing.tla, byte identity / shared inode / link target and the source afterwards are projected, and DigitalRFReader / DigitalMetadataReader on the destination are compared with the source for the transferred period; TLC judges every command.", 'Trusted: TLC, sha1 / inode projection of both trees. A difference that exists only against Listing.tla but not against the real listing with the same options is an inherited listing finding and is reported under C14, not C18 (clauses C14-inherited-by-transfer:*).', 'TLA+ spec + TLC model checking; TLC trace validation of real cp/mv/ln commands on generated trees')})

PENDING_REASON = "check not built yet in this round; the property is planned to be decided by the TLA+ module named in DESIGN.md section 5"


def main():
    props = [json.loads(l) for l in open(os.path.join(V, "properties.jsonl"))]
    extra = {}
    p = os.path.join(V, "tools", "manifest_extra.json")
    if os.path.exists(p):
        extra = json.load(open(p))
    checks, na = [], []
    for pr in props:
        i = pr["id"]
        if i in CLAIMED:
            mods, text, note, tech = CLAIMED[i]
            checks.append(
                {
                    "property_id": i,
                    "quick_cmd": "bin/check %s --tier quick" % i,
                    "thorough_cmd": "bin/check %s --tier thorough" % i,
                    "evidence_file": "/verif/evidence/%s.json" % i,
                    "replay_cmd_template": "bin/check %s --replay {path}" % i,
                    "engine": "tlc",
                    "level_claimed": {"category": "model_checking", "text": text, "design_ref": "DESIGN.md section 5, " + i},
                    "level_note": note,
                    "technique": tech + " (spec modules: " + mods + ")",
                }
            )
        else:
            na.append({"property_id": i, "reason": extra.get("na", {}).get(i, PENDING_REASON)})
    try:
        hooks_commits = subprocess.check_output(
            ["git", "-C", "/repo", "log", "--format=%H", "--grep=^hook:"], text=True
        ).split()
    except Exception:
        hooks_commits = []
    m = {
        "version": 1,
        "setup_cmd": "bin/setup",
        "hooks": {
            "guard": "DIGITAL_RF_VERIF",
            "enable": "no source hooks are needed: all observation is through public APIs, raw h5py inspection, an LD_PRELOAD "
            "interposer on writer subprocesses and wrappers installed by the harness in its own process; checks stage and build "
            "the package from /repo's working tree (harness/stage.py)",
            "baseline_off_cmd": "bin/baseline",
            "source_commits": hooks_commits,
            "add_only": True,
        },
        "engines": [
            {
                "name": "tlc",
                "path": "spec/",
                "serves_properties": sorted(CLAIMED),
                "kind_free_text": "explicit TLA+ specifications checked with TLC (exhaustive, simulation, trace validation), bound to the "
                "implementation by replaying TLC behaviours into the real code and validating recorded traces against the same actions",
            }
        ],
        "checks": checks,
        "not_applicable": na,
        "notes": "bin/check <id> --tier quick|thorough; exit 0 held / 1 VIOLATION / 2 machinery failure. known_findings.json lists fixed and open findings.",
    }
    if not na:
        del m["not_applicable"]
    with open(os.path.join(V, "MANIFEST.json"), "w") as fh:
        json.dump(m, fh, indent=1)
    import jsonschema

    jsonschema.validate(m, json.load(open("/root/.vp/MANIFEST.schema.json")))
    print("MANIFEST.json: %d checks, %d not_applicable" % (len(checks), len(na)))


if __name__ == "__main__":
    main()
