#!/bin/sh
# usage: tools/process_seeds.sh <seed id>...   (ids like C16_c; source dirs /tmp/seed/out/<id>)
# confirms each seed in a scratch worktree, tries it against its property's quick check (patching /repo, restored afterwards),
# and stores it under /verif/seeded/<id>/ with the outcome in meta.json
cd /verif || exit 2
for s in "$@"; do
  D=/tmp/seed/out/$s; p=$(echo $s | cut -c1-3)
  [ -f $D/patch.diff ] || { echo "$s: no patch"; continue; }
  tools/confirm_seed.sh $D 2>&1 | tail -n 1
  out=$(tools/try_seed.sh $D $p | head -n 1 | cut -c1-400)
  echo "$out"
  mkdir -p seeded/$s && cp $D/patch.diff $D/demo.py $D/confirm.txt seeded/$s/ 2>/dev/null
  /venv/bin/python - "$s" "$out" <<'PY'
import json,sys
s,out=sys.argv[1],sys.argv[2]
m=json.load(open('/tmp/seed/out/%s/meta.json'%s))
try: m['confirmed']=open('/tmp/seed/out/%s/confirm.txt'%s).read().strip()
except OSError: m['confirmed']='?'
m['confirm_cmd']='tools/confirm_seed.sh <dir> (scratch worktree of /repo HEAD: stage+build, demo.py clean/mutated, full pytest with the patch)'
m['first_try']=out
json.dump(m,open('/verif/seeded/%s/meta.json'%s,'w'),indent=1)
PY
done
