#!/bin/sh
# usage: tools/process_seeds_iso.sh <seed id>   : confirm (scratch worktree), try against its property's quick check in a private
# worktree (VERIF_SEED=1), store under seeded/<id>/ with the outcome.  Safe to run several at once; /repo is never touched.
cd /verif || exit 2
s=$1; D=/tmp/seed/out/$s; p=$(echo $s | cut -c1-3)
[ -f $D/patch.diff ] || { echo "$s: no patch"; exit 0; }
c=$(tools/confirm_seed.sh $D 2>&1 | tail -n 1)
out=$(tools/try_seed_iso.sh $D 1 $p | head -n 1 | cut -c1-400)
echo "$c"; echo "$out"
mkdir -p seeded/$s && cp $D/patch.diff $D/demo.py $D/confirm.txt seeded/$s/ 2>/dev/null
/venv/bin/python - "$s" "$out" <<'PY'
import json,sys
s,out=sys.argv[1],sys.argv[2]
m=json.load(open('/tmp/seed/out/%s/meta.json'%s))
try: m['confirmed']=open('/tmp/seed/out/%s/confirm.txt'%s).read().strip()
except OSError: m['confirmed']='?'
m['confirm_cmd']='tools/confirm_seed.sh <dir> (scratch worktree of /repo HEAD: stage+build, demo.py clean/mutated, full pytest with the patch)'
m['first_try']=out
json.dump(m,open('/verif/seeded/%s/meta.json'%s,'w'),indent=1)
PY
