#!/usr/bin/env python3
"""usage: tools/record_sweep.py <output of tools/sweep_seeds.sh or try_seed_iso.sh> ...
Records each result line  == <seed> seed=<n> <Cxx> rc=<rc>: <k> violations; <clauses>  in seeded/<seed>/meta.json (results[<Cxx>/<n>])."""
import json, os, re, sys
here = os.path.dirname(os.path.dirname(os.path.abspath(__file__)))
pat = re.compile(r"^== (\S+) seed=(\d+) (C\d\d) rc=(\d+): (\d+) violations; ?(.*)$")
n = 0
for fn in sys.argv[1:]:
    for line in open(fn, errors="replace"):
        m = pat.match(line.strip())
        if not m:
            continue
        sid, vs, prop, rc, k, cl = m.groups()
        p = os.path.join(here, "seeded", sid, "meta.json")
        if not os.path.exists(p):
            continue
        meta = json.load(open(p))
        meta.setdefault("results", {})["%s/seed%s" % (prop, vs)] = dict(rc=int(rc), violations=int(k), clauses=cl.strip()[:200])
        json.dump(meta, open(p, "w"), indent=1)
        n += 1
print("recorded", n)
