#!/usr/bin/env python3
"""prints the markdown table of DESIGN.md section 13 from seeded/*/meta.json (summary, results recorded by record_sweep.py)"""
import json, os
here = os.path.dirname(os.path.dirname(os.path.abspath(__file__)))
rows = []
for sid in sorted(os.listdir(os.path.join(here, "seeded"))):
    p = os.path.join(here, "seeded", sid, "meta.json")
    if not os.path.exists(p):
        continue
    m = json.load(open(p))
    res = m.get("results", {})
    own = {k: v for k, v in res.items() if k.startswith(sid[:3] + "/")}
    caught = sorted(k.split("/")[1] for k, v in own.items() if v["rc"] == 1)
    missed = sorted(k.split("/")[1] for k, v in own.items() if v["rc"] == 0)
    err = sorted(k.split("/")[1] for k, v in own.items() if v["rc"] not in (0, 1))
    clauses = sorted({c for v in own.values() if v["rc"] == 1 for c in v["clauses"].split(",") if c})[:3]
    summ = " ".join(m.get("summary", "").split())
    if len(summ) > 150:
        summ = summ[:147] + "..."
    st = "caught (%s)" % ", ".join(caught) if caught else "-"
    if missed:
        st += "; MISSED with %s" % ", ".join(missed)
    if err:
        st += "; machinery error with %s" % ", ".join(err)
    note = m.get("outcome", "")
    rows.append("| %s | %s | %s | %s | %s |" % (sid, summ.replace("|", "/"), st, ", ".join(clauses), note.replace("|", "/")))
print("| seed | what it changes | quick check of its property (VERIF_SEED values tried) | clauses | strengthening it needed |")
print("|---|---|---|---|---|")
print("\n".join(rows))
