#!/bin/sh
# usage: tools/sweep_seeds.sh <VERIF_SEED> [parallel]   - every seeded change under seeded/ against the quick check of its own
# property, each in a private worktree of /repo HEAD (tools/try_seed_iso.sh); one result line per seed on stdout
cd /verif || exit 2
SD=${1:-1}; P=${2:-4}
ls seeded | xargs -P $P -I{} sh -c 'tools/try_seed_iso.sh /verif/seeded/{} '$SD' $(echo {} | cut -c1-3) | head -n 1'
