#!/bin/sh
# usage: tools/try_seed.sh <dir with patch.diff> <Cxx> [<Cxx>...]   - applies the patch to /repo, runs the quick checks, restores /repo
D=$(realpath $1); shift
cd /verif || exit 2
git -C /repo diff --quiet || { echo "/repo has uncommitted changes"; exit 2; }
git -C /repo apply "$D/patch.diff" || { echo "patch does not apply"; exit 2; }
for p in "$@"; do
  timeout 1800 bin/check "$p" --tier quick > /dev/shm/seedrun_$p.txt 2>&1
  rc=$?
  echo "== $(basename $D) $p rc=$rc: $(grep -c '^VIOLATION' /dev/shm/seedrun_$p.txt) violation lines; $(grep -h 'rejected scenario\|MACHINERY' /dev/shm/seedrun_$p.txt | head -2 | cut -c1-300)"
done
git -C /repo checkout -- .
