#!/bin/sh
# usage: tools/try_seed_iso.sh <seed dir> <VERIF_SEED> <Cxx>...   - like try_seed.sh but in a private worktree (VERIF_REPO), so that
# several can run at once and /repo is never touched
D=$(realpath $1); SD=$2; shift; shift
N=$(basename $D)
W=/dev/shm/tryseed_${N}_$SD
git -C /repo worktree add -q --detach $W HEAD 2>/dev/null || exit 2
trap "git -C /repo worktree remove --force $W >/dev/null 2>&1" EXIT
git -C $W apply "$D/patch.diff" 2>/dev/null || git -C $W apply -3 "$D/patch.diff" >/dev/null 2>&1 || { echo "== $N seed=$SD: patch does not apply"; exit 0; }
cd /verif
for p in "$@"; do
  out=/dev/shm/seedrun_${N}_${SD}_$p.txt
  VERIF_KEEP_EVIDENCE=1 VERIF_SEED=$SD VERIF_REPO=$W timeout 1800 bin/check "$p" --tier quick > $out 2>&1
  rc=$?
  echo "== $N seed=$SD $p rc=$rc: $(grep -c '^VIOLATION' $out) violations; $(grep -h 'rejected scenario\|MACHINERY' $out | head -1 | sed 's/.*at event [0-9]*: //' | cut -c1-120)"
done
